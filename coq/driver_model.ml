
(** val xorb : bool -> bool -> bool **)

let xorb b6 b7 =
  if b6 then if b7 then false else true else b7

(** val negb : bool -> bool **)

let negb = function
| true -> false
| false -> true

type nat =
| O
| S of nat

(** val fst : ('a1 * 'a2) -> 'a1 **)

let fst = function
| (x, _) -> x

(** val snd : ('a1 * 'a2) -> 'a2 **)

let snd = function
| (_, y) -> y

(** val length : 'a1 list -> nat **)

let rec length = function
| [] -> O
| _ :: l' -> S (length l')

(** val app : 'a1 list -> 'a1 list -> 'a1 list **)

let rec app l m =
  match l with
  | [] -> m
  | a :: l1 -> a :: (app l1 m)

type comparison =
| Eq
| Lt
| Gt

(** val compOpp : comparison -> comparison **)

let compOpp = function
| Eq -> Eq
| Lt -> Gt
| Gt -> Lt

(** val pred : nat -> nat **)

let pred n0 = match n0 with
| O -> n0
| S u -> u

module Coq__1 = struct
 (** val add : nat -> nat -> nat **)
 let rec add n0 m =
   match n0 with
   | O -> m
   | S p -> S (add p m)
end
include Coq__1

(** val mul : nat -> nat -> nat **)

let rec mul n0 m =
  match n0 with
  | O -> O
  | S p -> add m (mul p m)

(** val sub : nat -> nat -> nat **)

let rec sub n0 m =
  match n0 with
  | O -> n0
  | S k -> (match m with
            | O -> n0
            | S l -> sub k l)

(** val eqb : nat -> nat -> bool **)

let rec eqb n0 m =
  match n0 with
  | O -> (match m with
          | O -> true
          | S _ -> false)
  | S n' -> (match m with
             | O -> false
             | S m' -> eqb n' m')

(** val leb : nat -> nat -> bool **)

let rec leb n0 m =
  match n0 with
  | O -> true
  | S n' -> (match m with
             | O -> false
             | S m' -> leb n' m')

(** val ltb : nat -> nat -> bool **)

let ltb n0 m =
  leb (S n0) m

(** val eqb0 : bool -> bool -> bool **)

let eqb0 b6 b7 =
  if b6 then b7 else if b7 then false else true

module Nat =
 struct
  (** val sub : nat -> nat -> nat **)

  let rec sub n0 m =
    match n0 with
    | O -> n0
    | S k -> (match m with
              | O -> n0
              | S l -> sub k l)

  (** val eqb : nat -> nat -> bool **)

  let rec eqb n0 m =
    match n0 with
    | O -> (match m with
            | O -> true
            | S _ -> false)
    | S n' -> (match m with
               | O -> false
               | S m' -> eqb n' m')

  (** val leb : nat -> nat -> bool **)

  let rec leb n0 m =
    match n0 with
    | O -> true
    | S n' -> (match m with
               | O -> false
               | S m' -> leb n' m')

  (** val ltb : nat -> nat -> bool **)

  let ltb n0 m =
    leb (S n0) m

  (** val max : nat -> nat -> nat **)

  let rec max n0 m =
    match n0 with
    | O -> m
    | S n' -> (match m with
               | O -> n0
               | S m' -> S (max n' m'))

  (** val even : nat -> bool **)

  let rec even = function
  | O -> true
  | S n1 -> (match n1 with
             | O -> false
             | S n' -> even n')

  (** val divmod : nat -> nat -> nat -> nat -> nat * nat **)

  let rec divmod x y q u =
    match x with
    | O -> (q, u)
    | S x' ->
      (match u with
       | O -> divmod x' y (S q) y
       | S u' -> divmod x' y q u')

  (** val div : nat -> nat -> nat **)

  let div x y = match y with
  | O -> y
  | S y' -> fst (divmod x y' O y')

  (** val modulo : nat -> nat -> nat **)

  let modulo x = function
  | O -> x
  | S y' -> sub y' (snd (divmod x y' O y'))

  (** val eq_dec : nat -> nat -> bool **)

  let rec eq_dec n0 m =
    match n0 with
    | O -> (match m with
            | O -> true
            | S _ -> false)
    | S n1 -> (match m with
               | O -> false
               | S n2 -> eq_dec n1 n2)
 end

type positive =
| XI of positive
| XO of positive
| XH

type n =
| N0
| Npos of positive

type z =
| Z0
| Zpos of positive
| Zneg of positive

module Pos =
 struct
  type mask =
  | IsNul
  | IsPos of positive
  | IsNeg
 end

module Coq_Pos =
 struct
  (** val succ : positive -> positive **)

  let rec succ = function
  | XI p -> XO (succ p)
  | XO p -> XI p
  | XH -> XO XH

  (** val add : positive -> positive -> positive **)

  let rec add x y =
    match x with
    | XI p ->
      (match y with
       | XI q -> XO (add_carry p q)
       | XO q -> XI (add p q)
       | XH -> XO (succ p))
    | XO p ->
      (match y with
       | XI q -> XI (add p q)
       | XO q -> XO (add p q)
       | XH -> XI p)
    | XH -> (match y with
             | XI q -> XO (succ q)
             | XO q -> XI q
             | XH -> XO XH)

  (** val add_carry : positive -> positive -> positive **)

  and add_carry x y =
    match x with
    | XI p ->
      (match y with
       | XI q -> XI (add_carry p q)
       | XO q -> XO (add_carry p q)
       | XH -> XI (succ p))
    | XO p ->
      (match y with
       | XI q -> XO (add_carry p q)
       | XO q -> XI (add p q)
       | XH -> XO (succ p))
    | XH ->
      (match y with
       | XI q -> XI (succ q)
       | XO q -> XO (succ q)
       | XH -> XI XH)

  (** val pred_double : positive -> positive **)

  let rec pred_double = function
  | XI p -> XI (XO p)
  | XO p -> XI (pred_double p)
  | XH -> XH

  (** val pred_N : positive -> n **)

  let pred_N = function
  | XI p -> Npos (XO p)
  | XO p -> Npos (pred_double p)
  | XH -> N0

  type mask = Pos.mask =
  | IsNul
  | IsPos of positive
  | IsNeg

  (** val succ_double_mask : mask -> mask **)

  let succ_double_mask = function
  | IsNul -> IsPos XH
  | IsPos p -> IsPos (XI p)
  | IsNeg -> IsNeg

  (** val double_mask : mask -> mask **)

  let double_mask = function
  | IsPos p -> IsPos (XO p)
  | x0 -> x0

  (** val double_pred_mask : positive -> mask **)

  let double_pred_mask = function
  | XI p -> IsPos (XO (XO p))
  | XO p -> IsPos (XO (pred_double p))
  | XH -> IsNul

  (** val sub_mask : positive -> positive -> mask **)

  let rec sub_mask x y =
    match x with
    | XI p ->
      (match y with
       | XI q -> double_mask (sub_mask p q)
       | XO q -> succ_double_mask (sub_mask p q)
       | XH -> IsPos (XO p))
    | XO p ->
      (match y with
       | XI q -> succ_double_mask (sub_mask_carry p q)
       | XO q -> double_mask (sub_mask p q)
       | XH -> IsPos (pred_double p))
    | XH -> (match y with
             | XH -> IsNul
             | _ -> IsNeg)

  (** val sub_mask_carry : positive -> positive -> mask **)

  and sub_mask_carry x y =
    match x with
    | XI p ->
      (match y with
       | XI q -> succ_double_mask (sub_mask_carry p q)
       | XO q -> double_mask (sub_mask p q)
       | XH -> IsPos (pred_double p))
    | XO p ->
      (match y with
       | XI q -> double_mask (sub_mask_carry p q)
       | XO q -> succ_double_mask (sub_mask_carry p q)
       | XH -> double_pred_mask p)
    | XH -> IsNeg

  (** val mul : positive -> positive -> positive **)

  let rec mul x y =
    match x with
    | XI p -> add y (XO (mul p y))
    | XO p -> XO (mul p y)
    | XH -> y

  (** val iter : ('a1 -> 'a1) -> 'a1 -> positive -> 'a1 **)

  let rec iter f x = function
  | XI n' -> f (iter f (iter f x n') n')
  | XO n' -> iter f (iter f x n') n'
  | XH -> f x

  (** val pow : positive -> positive -> positive **)

  let pow x =
    iter (mul x) XH

  (** val compare_cont : comparison -> positive -> positive -> comparison **)

  let rec compare_cont r x y =
    match x with
    | XI p ->
      (match y with
       | XI q -> compare_cont r p q
       | XO q -> compare_cont Gt p q
       | XH -> Gt)
    | XO p ->
      (match y with
       | XI q -> compare_cont Lt p q
       | XO q -> compare_cont r p q
       | XH -> Gt)
    | XH -> (match y with
             | XH -> r
             | _ -> Lt)

  (** val compare : positive -> positive -> comparison **)

  let compare =
    compare_cont Eq

  (** val eqb : positive -> positive -> bool **)

  let rec eqb p q =
    match p with
    | XI p0 -> (match q with
                | XI q0 -> eqb p0 q0
                | _ -> false)
    | XO p0 -> (match q with
                | XO q0 -> eqb p0 q0
                | _ -> false)
    | XH -> (match q with
             | XH -> true
             | _ -> false)

  (** val coq_Nsucc_double : n -> n **)

  let coq_Nsucc_double = function
  | N0 -> Npos XH
  | Npos p -> Npos (XI p)

  (** val coq_Ndouble : n -> n **)

  let coq_Ndouble = function
  | N0 -> N0
  | Npos p -> Npos (XO p)

  (** val coq_lor : positive -> positive -> positive **)

  let rec coq_lor p q =
    match p with
    | XI p0 ->
      (match q with
       | XI q0 -> XI (coq_lor p0 q0)
       | XO q0 -> XI (coq_lor p0 q0)
       | XH -> p)
    | XO p0 ->
      (match q with
       | XI q0 -> XI (coq_lor p0 q0)
       | XO q0 -> XO (coq_lor p0 q0)
       | XH -> XI p0)
    | XH -> (match q with
             | XO q0 -> XI q0
             | _ -> q)

  (** val coq_land : positive -> positive -> n **)

  let rec coq_land p q =
    match p with
    | XI p0 ->
      (match q with
       | XI q0 -> coq_Nsucc_double (coq_land p0 q0)
       | XO q0 -> coq_Ndouble (coq_land p0 q0)
       | XH -> Npos XH)
    | XO p0 ->
      (match q with
       | XI q0 -> coq_Ndouble (coq_land p0 q0)
       | XO q0 -> coq_Ndouble (coq_land p0 q0)
       | XH -> N0)
    | XH -> (match q with
             | XO _ -> N0
             | _ -> Npos XH)

  (** val coq_lxor : positive -> positive -> n **)

  let rec coq_lxor p q =
    match p with
    | XI p0 ->
      (match q with
       | XI q0 -> coq_Ndouble (coq_lxor p0 q0)
       | XO q0 -> coq_Nsucc_double (coq_lxor p0 q0)
       | XH -> Npos (XO p0))
    | XO p0 ->
      (match q with
       | XI q0 -> coq_Nsucc_double (coq_lxor p0 q0)
       | XO q0 -> coq_Ndouble (coq_lxor p0 q0)
       | XH -> Npos (XI p0))
    | XH ->
      (match q with
       | XI q0 -> Npos (XO q0)
       | XO q0 -> Npos (XI q0)
       | XH -> N0)

  (** val shiftl : positive -> n -> positive **)

  let shiftl p = function
  | N0 -> p
  | Npos n1 -> iter (fun x -> XO x) p n1

  (** val testbit : positive -> n -> bool **)

  let rec testbit p n0 =
    match p with
    | XI p0 -> (match n0 with
                | N0 -> true
                | Npos n1 -> testbit p0 (pred_N n1))
    | XO p0 -> (match n0 with
                | N0 -> false
                | Npos n1 -> testbit p0 (pred_N n1))
    | XH -> (match n0 with
             | N0 -> true
             | Npos _ -> false)

  (** val iter_op : ('a1 -> 'a1 -> 'a1) -> positive -> 'a1 -> 'a1 **)

  let rec iter_op op0 p a =
    match p with
    | XI p0 -> op0 a (iter_op op0 p0 (op0 a a))
    | XO p0 -> iter_op op0 p0 (op0 a a)
    | XH -> a

  (** val to_nat : positive -> nat **)

  let to_nat x =
    iter_op Coq__1.add x (S O)

  (** val of_succ_nat : nat -> positive **)

  let rec of_succ_nat = function
  | O -> XH
  | S x -> succ (of_succ_nat x)
 end

module N =
 struct
  (** val succ_double : n -> n **)

  let succ_double = function
  | N0 -> Npos XH
  | Npos p -> Npos (XI p)

  (** val double : n -> n **)

  let double = function
  | N0 -> N0
  | Npos p -> Npos (XO p)

  (** val add : n -> n -> n **)

  let add n0 m =
    match n0 with
    | N0 -> m
    | Npos p -> (match m with
                 | N0 -> n0
                 | Npos q -> Npos (Coq_Pos.add p q))

  (** val sub : n -> n -> n **)

  let sub n0 m =
    match n0 with
    | N0 -> N0
    | Npos n' ->
      (match m with
       | N0 -> n0
       | Npos m' ->
         (match Coq_Pos.sub_mask n' m' with
          | Coq_Pos.IsPos p -> Npos p
          | _ -> N0))

  (** val mul : n -> n -> n **)

  let mul n0 m =
    match n0 with
    | N0 -> N0
    | Npos p -> (match m with
                 | N0 -> N0
                 | Npos q -> Npos (Coq_Pos.mul p q))

  (** val compare : n -> n -> comparison **)

  let compare n0 m =
    match n0 with
    | N0 -> (match m with
             | N0 -> Eq
             | Npos _ -> Lt)
    | Npos n' -> (match m with
                  | N0 -> Gt
                  | Npos m' -> Coq_Pos.compare n' m')

  (** val eqb : n -> n -> bool **)

  let eqb n0 m =
    match n0 with
    | N0 -> (match m with
             | N0 -> true
             | Npos _ -> false)
    | Npos p -> (match m with
                 | N0 -> false
                 | Npos q -> Coq_Pos.eqb p q)

  (** val leb : n -> n -> bool **)

  let leb x y =
    match compare x y with
    | Gt -> false
    | _ -> true

  (** val ltb : n -> n -> bool **)

  let ltb x y =
    match compare x y with
    | Lt -> true
    | _ -> false

  (** val div2 : n -> n **)

  let div2 = function
  | N0 -> N0
  | Npos p0 -> (match p0 with
                | XI p -> Npos p
                | XO p -> Npos p
                | XH -> N0)

  (** val pow : n -> n -> n **)

  let pow n0 = function
  | N0 -> Npos XH
  | Npos p0 -> (match n0 with
                | N0 -> N0
                | Npos q -> Npos (Coq_Pos.pow q p0))

  (** val pos_div_eucl : positive -> n -> n * n **)

  let rec pos_div_eucl a b =
    match a with
    | XI a' ->
      let (q, r) = pos_div_eucl a' b in
      let r' = succ_double r in
      if leb b r' then ((succ_double q), (sub r' b)) else ((double q), r')
    | XO a' ->
      let (q, r) = pos_div_eucl a' b in
      let r' = double r in
      if leb b r' then ((succ_double q), (sub r' b)) else ((double q), r')
    | XH ->
      (match b with
       | N0 -> (N0, (Npos XH))
       | Npos p -> (match p with
                    | XH -> ((Npos XH), N0)
                    | _ -> (N0, (Npos XH))))

  (** val div_eucl : n -> n -> n * n **)

  let div_eucl a b =
    match a with
    | N0 -> (N0, N0)
    | Npos na -> (match b with
                  | N0 -> (N0, a)
                  | Npos _ -> pos_div_eucl na b)

  (** val div : n -> n -> n **)

  let div a b =
    fst (div_eucl a b)

  (** val modulo : n -> n -> n **)

  let modulo a b =
    snd (div_eucl a b)

  (** val coq_lor : n -> n -> n **)

  let coq_lor n0 m =
    match n0 with
    | N0 -> m
    | Npos p -> (match m with
                 | N0 -> n0
                 | Npos q -> Npos (Coq_Pos.coq_lor p q))

  (** val coq_land : n -> n -> n **)

  let coq_land n0 m =
    match n0 with
    | N0 -> N0
    | Npos p -> (match m with
                 | N0 -> N0
                 | Npos q -> Coq_Pos.coq_land p q)

  (** val coq_lxor : n -> n -> n **)

  let coq_lxor n0 m =
    match n0 with
    | N0 -> m
    | Npos p -> (match m with
                 | N0 -> n0
                 | Npos q -> Coq_Pos.coq_lxor p q)

  (** val shiftl : n -> n -> n **)

  let shiftl a n0 =
    match a with
    | N0 -> N0
    | Npos a0 -> Npos (Coq_Pos.shiftl a0 n0)

  (** val shiftr : n -> n -> n **)

  let shiftr a = function
  | N0 -> a
  | Npos p -> Coq_Pos.iter div2 a p

  (** val testbit : n -> n -> bool **)

  let testbit a n0 =
    match a with
    | N0 -> false
    | Npos p -> Coq_Pos.testbit p n0

  (** val to_nat : n -> nat **)

  let to_nat = function
  | N0 -> O
  | Npos p -> Coq_Pos.to_nat p

  (** val of_nat : nat -> n **)

  let of_nat = function
  | O -> N0
  | S n' -> Npos (Coq_Pos.of_succ_nat n')
 end

(** val hd : 'a1 -> 'a1 list -> 'a1 **)

let hd default = function
| [] -> default
| x :: _ -> x

(** val tl : 'a1 list -> 'a1 list **)

let tl = function
| [] -> []
| _ :: m -> m

(** val in_dec : ('a1 -> 'a1 -> bool) -> 'a1 -> 'a1 list -> bool **)

let rec in_dec h a = function
| [] -> false
| y :: l0 -> let s = h y a in if s then true else in_dec h a l0

(** val nth : nat -> 'a1 list -> 'a1 -> 'a1 **)

let rec nth n0 l default =
  match n0 with
  | O -> (match l with
          | [] -> default
          | x :: _ -> x)
  | S m -> (match l with
            | [] -> default
            | _ :: t -> nth m t default)

(** val nth_error : 'a1 list -> nat -> 'a1 option **)

let rec nth_error l = function
| O -> (match l with
        | [] -> None
        | x :: _ -> Some x)
| S n1 -> (match l with
           | [] -> None
           | _ :: l0 -> nth_error l0 n1)

(** val rev : 'a1 list -> 'a1 list **)

let rec rev = function
| [] -> []
| x :: l' -> app (rev l') (x :: [])

(** val rev_append : 'a1 list -> 'a1 list -> 'a1 list **)

let rec rev_append l l' =
  match l with
  | [] -> l'
  | a :: l0 -> rev_append l0 (a :: l')

(** val concat : 'a1 list list -> 'a1 list **)

let rec concat = function
| [] -> []
| x :: l0 -> app x (concat l0)

(** val map : ('a1 -> 'a2) -> 'a1 list -> 'a2 list **)

let rec map f = function
| [] -> []
| a :: t -> (f a) :: (map f t)

(** val flat_map : ('a1 -> 'a2 list) -> 'a1 list -> 'a2 list **)

let rec flat_map f = function
| [] -> []
| x :: t -> app (f x) (flat_map f t)

(** val fold_left : ('a1 -> 'a2 -> 'a1) -> 'a2 list -> 'a1 -> 'a1 **)

let rec fold_left f l a0 =
  match l with
  | [] -> a0
  | b :: t -> fold_left f t (f a0 b)

(** val fold_right : ('a2 -> 'a1 -> 'a1) -> 'a1 -> 'a2 list -> 'a1 **)

let rec fold_right f a0 = function
| [] -> a0
| b :: t -> f b (fold_right f a0 t)

(** val existsb : ('a1 -> bool) -> 'a1 list -> bool **)

let rec existsb f = function
| [] -> false
| a :: l0 -> (||) (f a) (existsb f l0)

(** val forallb : ('a1 -> bool) -> 'a1 list -> bool **)

let rec forallb f = function
| [] -> true
| a :: l0 -> (&&) (f a) (forallb f l0)

(** val filter : ('a1 -> bool) -> 'a1 list -> 'a1 list **)

let rec filter f = function
| [] -> []
| x :: l0 -> if f x then x :: (filter f l0) else filter f l0

(** val find : ('a1 -> bool) -> 'a1 list -> 'a1 option **)

let rec find f = function
| [] -> None
| x :: tl0 -> if f x then Some x else find f tl0

(** val combine : 'a1 list -> 'a2 list -> ('a1 * 'a2) list **)

let rec combine l l' =
  match l with
  | [] -> []
  | x :: tl0 ->
    (match l' with
     | [] -> []
     | y :: tl' -> (x, y) :: (combine tl0 tl'))

(** val firstn : nat -> 'a1 list -> 'a1 list **)

let rec firstn n0 l =
  match n0 with
  | O -> []
  | S n1 -> (match l with
             | [] -> []
             | a :: l0 -> a :: (firstn n1 l0))

(** val skipn : nat -> 'a1 list -> 'a1 list **)

let rec skipn n0 l =
  match n0 with
  | O -> l
  | S n1 -> (match l with
             | [] -> []
             | _ :: l0 -> skipn n1 l0)

(** val nodup : ('a1 -> 'a1 -> bool) -> 'a1 list -> 'a1 list **)

let rec nodup decA = function
| [] -> []
| x :: xs -> if in_dec decA x xs then nodup decA xs else x :: (nodup decA xs)

(** val seq : nat -> nat -> nat list **)

let rec seq start = function
| O -> []
| S len0 -> start :: (seq (S start) len0)

(** val repeat : 'a1 -> nat -> 'a1 list **)

let rec repeat x = function
| O -> []
| S k -> x :: (repeat x k)

module Z =
 struct
  (** val double : z -> z **)

  let double = function
  | Z0 -> Z0
  | Zpos p -> Zpos (XO p)
  | Zneg p -> Zneg (XO p)

  (** val succ_double : z -> z **)

  let succ_double = function
  | Z0 -> Zpos XH
  | Zpos p -> Zpos (XI p)
  | Zneg p -> Zneg (Coq_Pos.pred_double p)

  (** val pred_double : z -> z **)

  let pred_double = function
  | Z0 -> Zneg XH
  | Zpos p -> Zpos (Coq_Pos.pred_double p)
  | Zneg p -> Zneg (XI p)

  (** val pos_sub : positive -> positive -> z **)

  let rec pos_sub x y =
    match x with
    | XI p ->
      (match y with
       | XI q -> double (pos_sub p q)
       | XO q -> succ_double (pos_sub p q)
       | XH -> Zpos (XO p))
    | XO p ->
      (match y with
       | XI q -> pred_double (pos_sub p q)
       | XO q -> double (pos_sub p q)
       | XH -> Zpos (Coq_Pos.pred_double p))
    | XH ->
      (match y with
       | XI q -> Zneg (XO q)
       | XO q -> Zneg (Coq_Pos.pred_double q)
       | XH -> Z0)

  (** val add : z -> z -> z **)

  let add x y =
    match x with
    | Z0 -> y
    | Zpos x' ->
      (match y with
       | Z0 -> x
       | Zpos y' -> Zpos (Coq_Pos.add x' y')
       | Zneg y' -> pos_sub x' y')
    | Zneg x' ->
      (match y with
       | Z0 -> x
       | Zpos y' -> pos_sub y' x'
       | Zneg y' -> Zneg (Coq_Pos.add x' y'))

  (** val opp : z -> z **)

  let opp = function
  | Z0 -> Z0
  | Zpos x0 -> Zneg x0
  | Zneg x0 -> Zpos x0

  (** val sub : z -> z -> z **)

  let sub m n0 =
    add m (opp n0)

  (** val mul : z -> z -> z **)

  let mul x y =
    match x with
    | Z0 -> Z0
    | Zpos x' ->
      (match y with
       | Z0 -> Z0
       | Zpos y' -> Zpos (Coq_Pos.mul x' y')
       | Zneg y' -> Zneg (Coq_Pos.mul x' y'))
    | Zneg x' ->
      (match y with
       | Z0 -> Z0
       | Zpos y' -> Zneg (Coq_Pos.mul x' y')
       | Zneg y' -> Zpos (Coq_Pos.mul x' y'))

  (** val compare : z -> z -> comparison **)

  let compare x y =
    match x with
    | Z0 -> (match y with
             | Z0 -> Eq
             | Zpos _ -> Lt
             | Zneg _ -> Gt)
    | Zpos x' -> (match y with
                  | Zpos y' -> Coq_Pos.compare x' y'
                  | _ -> Gt)
    | Zneg x' ->
      (match y with
       | Zneg y' -> compOpp (Coq_Pos.compare x' y')
       | _ -> Lt)

  (** val leb : z -> z -> bool **)

  let leb x y =
    match compare x y with
    | Gt -> false
    | _ -> true

  (** val ltb : z -> z -> bool **)

  let ltb x y =
    match compare x y with
    | Lt -> true
    | _ -> false

  (** val geb : z -> z -> bool **)

  let geb x y =
    match compare x y with
    | Lt -> false
    | _ -> true

  (** val gtb : z -> z -> bool **)

  let gtb x y =
    match compare x y with
    | Gt -> true
    | _ -> false

  (** val eqb : z -> z -> bool **)

  let eqb x y =
    match x with
    | Z0 -> (match y with
             | Z0 -> true
             | _ -> false)
    | Zpos p -> (match y with
                 | Zpos q -> Coq_Pos.eqb p q
                 | _ -> false)
    | Zneg p -> (match y with
                 | Zneg q -> Coq_Pos.eqb p q
                 | _ -> false)

  (** val to_nat : z -> nat **)

  let to_nat = function
  | Zpos p -> Coq_Pos.to_nat p
  | _ -> O

  (** val to_N : z -> n **)

  let to_N = function
  | Zpos p -> Npos p
  | _ -> N0

  (** val of_nat : nat -> z **)

  let of_nat = function
  | O -> Z0
  | S n1 -> Zpos (Coq_Pos.of_succ_nat n1)

  (** val of_N : n -> z **)

  let of_N = function
  | N0 -> Z0
  | Npos p -> Zpos p

  (** val pos_div_eucl : positive -> z -> z * z **)

  let rec pos_div_eucl a b =
    match a with
    | XI a' ->
      let (q, r) = pos_div_eucl a' b in
      let r' = add (mul (Zpos (XO XH)) r) (Zpos XH) in
      if ltb r' b
      then ((mul (Zpos (XO XH)) q), r')
      else ((add (mul (Zpos (XO XH)) q) (Zpos XH)), (sub r' b))
    | XO a' ->
      let (q, r) = pos_div_eucl a' b in
      let r' = mul (Zpos (XO XH)) r in
      if ltb r' b
      then ((mul (Zpos (XO XH)) q), r')
      else ((add (mul (Zpos (XO XH)) q) (Zpos XH)), (sub r' b))
    | XH -> if leb (Zpos (XO XH)) b then (Z0, (Zpos XH)) else ((Zpos XH), Z0)

  (** val div_eucl : z -> z -> z * z **)

  let div_eucl a b =
    match a with
    | Z0 -> (Z0, Z0)
    | Zpos a' ->
      (match b with
       | Z0 -> (Z0, a)
       | Zpos _ -> pos_div_eucl a' b
       | Zneg b' ->
         let (q, r) = pos_div_eucl a' (Zpos b') in
         (match r with
          | Z0 -> ((opp q), Z0)
          | _ -> ((opp (add q (Zpos XH))), (add b r))))
    | Zneg a' ->
      (match b with
       | Z0 -> (Z0, a)
       | Zpos _ ->
         let (q, r) = pos_div_eucl a' b in
         (match r with
          | Z0 -> ((opp q), Z0)
          | _ -> ((opp (add q (Zpos XH))), (sub b r)))
       | Zneg b' -> let (q, r) = pos_div_eucl a' (Zpos b') in (q, (opp r)))

  (** val modulo : z -> z -> z **)

  let modulo a b =
    let (_, r) = div_eucl a b in r
 end

type ascii =
| Ascii of bool * bool * bool * bool * bool * bool * bool * bool

(** val n_of_digits : bool list -> n **)

let rec n_of_digits = function
| [] -> N0
| b :: l' ->
  N.add (if b then Npos XH else N0) (N.mul (Npos (XO XH)) (n_of_digits l'))

(** val n_of_ascii : ascii -> n **)

let n_of_ascii = function
| Ascii (a0, a1, a2, a3, a4, a5, a6, a7) ->
  n_of_digits
    (a0 :: (a1 :: (a2 :: (a3 :: (a4 :: (a5 :: (a6 :: (a7 :: []))))))))

type string =
| EmptyString
| String of ascii * string

(** val list_ascii_of_string : string -> ascii list **)

let rec list_ascii_of_string = function
| EmptyString -> []
| String (ch, s0) -> ch :: (list_ascii_of_string s0)

type bytes = n list

(** val beq : bytes -> bytes -> bool **)

let rec beq a b =
  match a with
  | [] -> (match b with
           | [] -> true
           | _ :: _ -> false)
  | x :: a' ->
    (match b with
     | [] -> false
     | y :: b' -> (&&) (N.eqb x y) (beq a' b'))

(** val be_dec_acc : n -> bytes -> n **)

let rec be_dec_acc acc = function
| [] -> acc
| x :: r ->
  be_dec_acc
    (N.add (N.mul acc (Npos (XO (XO (XO (XO (XO (XO (XO (XO XH)))))))))) x) r

(** val be_dec : bytes -> n **)

let be_dec b =
  be_dec_acc N0 b

(** val be_enc : nat -> n -> bytes **)

let rec be_enc k n0 =
  match k with
  | O -> []
  | S k' ->
    app
      (be_enc k' (N.div n0 (Npos (XO (XO (XO (XO (XO (XO (XO (XO XH)))))))))))
      ((N.modulo n0 (Npos (XO (XO (XO (XO (XO (XO (XO (XO XH)))))))))) :: [])

(** val xor_pad : bytes -> bytes -> bytes **)

let rec xor_pad a b =
  match a with
  | [] -> []
  | x :: a' ->
    (match b with
     | [] -> x :: a'
     | y :: b' -> (N.coq_lxor x y) :: (xor_pad a' b'))

(** val pad_to : nat -> bytes -> bytes **)

let pad_to n0 l =
  app l (repeat N0 (sub n0 (length l)))

(** val take_until_nul : bytes -> bytes **)

let rec take_until_nul = function
| [] -> []
| x :: r -> if N.eqb x N0 then [] else x :: (take_until_nul r)

(** val zbyte : z -> n **)

let zbyte z0 =
  Z.to_N (Z.modulo z0 (Zpos (XO (XO (XO (XO (XO (XO (XO (XO XH))))))))))

type cmpop =
| OpGT
| OpGE
| OpLT
| OpLE
| OpEQ
| OpNE

type guard = { gexpr : string; gop : cmpop; glit : z }

(** val bad_guard : guard **)

let bad_guard =
  { gexpr = (String ((Ascii (false, false, true, true, true, true, false,
    false)), (String ((Ascii (true, false, true, true, false, true, true,
    false)), (String ((Ascii (true, false, false, true, false, true, true,
    false)), (String ((Ascii (true, true, false, false, true, true, true,
    false)), (String ((Ascii (true, true, false, false, true, true, true,
    false)), (String ((Ascii (true, false, false, true, false, true, true,
    false)), (String ((Ascii (false, true, true, true, false, true, true,
    false)), (String ((Ascii (true, true, true, false, false, true, true,
    false)), (String ((Ascii (false, false, false, false, false, true, false,
    false)), (String ((Ascii (true, true, true, false, false, true, true,
    false)), (String ((Ascii (true, false, true, false, true, true, true,
    false)), (String ((Ascii (true, false, false, false, false, true, true,
    false)), (String ((Ascii (false, true, false, false, true, true, true,
    false)), (String ((Ascii (false, false, true, false, false, true, true,
    false)), (String ((Ascii (false, true, true, true, true, true, false,
    false)), EmptyString)))))))))))))))))))))))))))))); gop = OpNE; glit =
    (Zneg (XO (XI (XO (XO (XI (XI (XO (XO (XI (XO (XO (XI (XI (XI (XI (XO (XO
    (XI XH))))))))))))))))))) }

(** val gd : guard list -> nat -> guard **)

let gd l i =
  nth i l bad_guard

(** val holds : guard -> z -> bool **)

let holds g x =
  match g.gop with
  | OpGT -> Z.gtb x g.glit
  | OpGE -> Z.geb x g.glit
  | OpLT -> Z.ltb x g.glit
  | OpLE -> Z.leb x g.glit
  | OpEQ -> Z.eqb x g.glit
  | OpNE -> negb (Z.eqb x g.glit)

(** val sw : z list list list -> nat -> nat -> z list **)

let sw l i j =
  nth j (nth i l []) []

(** val zmem : z -> z list -> bool **)

let rec zmem x = function
| [] -> false
| y :: r -> (||) (Z.eqb x y) (zmem x r)

type 'a res =
| Ok of 'a
| Err of n
| Panic
| OutOfFuel

(** val bind : 'a1 res -> ('a1 -> 'a2 res) -> 'a2 res **)

let bind r f =
  match r with
  | Ok a -> f a
  | Err e -> Err e
  | Panic -> Panic
  | OutOfFuel -> OutOfFuel

(** val e_short : n **)

let e_short =
  Npos XH

(** val e_badlen : n **)

let e_badlen =
  Npos (XO XH)

(** val e_attr_short : n **)

let e_attr_short =
  Npos (XI XH)

(** val e_attr_len : n **)

let e_attr_len =
  Npos (XO (XO XH))

(** val e_attr_big : n **)

let e_attr_big =
  Npos (XI (XO XH))

(** val e_pkt_big : n **)

let e_pkt_big =
  Npos (XO (XI XH))

(** val e_unknown_code : n **)

let e_unknown_code =
  Npos (XI (XI XH))

(** val e_invalid : n **)

let e_invalid =
  Npos (XO (XO (XO XH)))

(** val remove_at : nat -> 'a1 list -> 'a1 list **)

let remove_at i l =
  app (firstn i l) (skipn (S i) l)

(** val update_at : nat -> 'a1 -> 'a1 list -> 'a1 list **)

let update_at i x l =
  app (firstn i l) (x :: (skipn (S i) l))

(** val k_MaxPacketLength : z **)

let k_MaxPacketLength =
  Zpos (XO (XO (XO (XO (XO (XO (XO (XO (XO (XO (XO (XO XH))))))))))))

(** val g_AttributesEncodedLen : guard list **)

let g_AttributesEncodedLen =
  { gexpr = (String ((Ascii (true, false, false, false, false, true, true,
    false)), (String ((Ascii (false, false, true, false, true, true, true,
    false)), (String ((Ascii (false, false, true, false, true, true, true,
    false)), (String ((Ascii (false, true, false, false, true, true, true,
    false)), (String ((Ascii (false, true, true, true, false, true, false,
    false)), (String ((Ascii (false, false, true, false, true, false, true,
    false)), (String ((Ascii (true, false, false, true, true, true, true,
    false)), (String ((Ascii (false, false, false, false, true, true, true,
    false)), (String ((Ascii (true, false, true, false, false, true, true,
    false)), EmptyString)))))))))))))))))); gop = OpLT; glit =
    Z0 } :: ({ gexpr = (String ((Ascii (true, false, false, false, false,
    true, true, false)), (String ((Ascii (false, false, true, false, true,
    true, true, false)), (String ((Ascii (false, false, true, false, true,
    true, true, false)), (String ((Ascii (false, true, false, false, true,
    true, true, false)), (String ((Ascii (false, true, true, true, false,
    true, false, false)), (String ((Ascii (false, false, true, false, true,
    false, true, false)), (String ((Ascii (true, false, false, true, true,
    true, true, false)), (String ((Ascii (false, false, false, false, true,
    true, true, false)), (String ((Ascii (true, false, true, false, false,
    true, true, false)), EmptyString)))))))))))))))))); gop = OpGT; glit =
    (Zpos (XI (XI (XI (XI (XI (XI (XI XH)))))))) } :: ({ gexpr = (String
    ((Ascii (false, false, true, true, false, true, true, false)), (String
    ((Ascii (true, false, true, false, false, true, true, false)), (String
    ((Ascii (false, true, true, true, false, true, true, false)), (String
    ((Ascii (false, false, false, true, false, true, false, false)), (String
    ((Ascii (true, false, false, false, false, true, true, false)), (String
    ((Ascii (false, false, true, false, true, true, true, false)), (String
    ((Ascii (false, false, true, false, true, true, true, false)), (String
    ((Ascii (false, true, false, false, true, true, true, false)), (String
    ((Ascii (false, true, true, true, false, true, false, false)), (String
    ((Ascii (true, false, false, false, false, false, true, false)), (String
    ((Ascii (false, false, true, false, true, true, true, false)), (String
    ((Ascii (false, false, true, false, true, true, true, false)), (String
    ((Ascii (false, true, false, false, true, true, true, false)), (String
    ((Ascii (true, false, false, true, false, true, true, false)), (String
    ((Ascii (false, true, false, false, false, true, true, false)), (String
    ((Ascii (true, false, true, false, true, true, true, false)), (String
    ((Ascii (false, false, true, false, true, true, true, false)), (String
    ((Ascii (true, false, true, false, false, true, true, false)), (String
    ((Ascii (true, false, false, true, false, true, false, false)),
    EmptyString)))))))))))))))))))))))))))))))))))))); gop = OpGT; glit =
    (Zpos (XI (XO (XI (XI (XI (XI (XI XH)))))))) } :: []))

(** val g_Attributes_encodeTo : guard list **)

let g_Attributes_encodeTo =
  { gexpr = (String ((Ascii (true, false, false, false, false, true, true,
    false)), (String ((Ascii (false, false, true, false, true, true, true,
    false)), (String ((Ascii (false, false, true, false, true, true, true,
    false)), (String ((Ascii (false, true, false, false, true, true, true,
    false)), (String ((Ascii (false, true, true, true, false, true, false,
    false)), (String ((Ascii (false, false, true, false, true, false, true,
    false)), (String ((Ascii (true, false, false, true, true, true, true,
    false)), (String ((Ascii (false, false, false, false, true, true, true,
    false)), (String ((Ascii (true, false, true, false, false, true, true,
    false)), EmptyString)))))))))))))))))); gop = OpLT; glit =
    Z0 } :: ({ gexpr = (String ((Ascii (true, false, false, false, false,
    true, true, false)), (String ((Ascii (false, false, true, false, true,
    true, true, false)), (String ((Ascii (false, false, true, false, true,
    true, true, false)), (String ((Ascii (false, true, false, false, true,
    true, true, false)), (String ((Ascii (false, true, true, true, false,
    true, false, false)), (String ((Ascii (false, false, true, false, true,
    false, true, false)), (String ((Ascii (true, false, false, true, true,
    true, true, false)), (String ((Ascii (false, false, false, false, true,
    true, true, false)), (String ((Ascii (true, false, true, false, false,
    true, true, false)), EmptyString)))))))))))))))))); gop = OpGT; glit =
    (Zpos (XI (XI (XI (XI (XI (XI (XI XH)))))))) } :: ({ gexpr = (String
    ((Ascii (false, false, true, true, false, true, true, false)), (String
    ((Ascii (true, false, true, false, false, true, true, false)), (String
    ((Ascii (false, true, true, true, false, true, true, false)), (String
    ((Ascii (false, false, false, true, false, true, false, false)), (String
    ((Ascii (true, false, false, false, false, true, true, false)), (String
    ((Ascii (false, false, true, false, true, true, true, false)), (String
    ((Ascii (false, false, true, false, true, true, true, false)), (String
    ((Ascii (false, true, false, false, true, true, true, false)), (String
    ((Ascii (false, true, true, true, false, true, false, false)), (String
    ((Ascii (true, false, false, false, false, false, true, false)), (String
    ((Ascii (false, false, true, false, true, true, true, false)), (String
    ((Ascii (false, false, true, false, true, true, true, false)), (String
    ((Ascii (false, true, false, false, true, true, true, false)), (String
    ((Ascii (true, false, false, true, false, true, true, false)), (String
    ((Ascii (false, true, false, false, false, true, true, false)), (String
    ((Ascii (true, false, true, false, true, true, true, false)), (String
    ((Ascii (false, false, true, false, true, true, true, false)), (String
    ((Ascii (true, false, true, false, false, true, true, false)), (String
    ((Ascii (true, false, false, true, false, true, false, false)),
    EmptyString)))))))))))))))))))))))))))))))))))))); gop = OpGT; glit =
    (Zpos (XI (XO (XI (XI (XI (XI (XI XH)))))))) } :: []))

(** val g_Client_Exchange : guard list **)

let g_Client_Exchange =
  { gexpr = (String ((Ascii (false, false, true, false, false, true, false,
    false)), (String ((Ascii (false, true, false, false, true, true, true,
    false)), (String ((Ascii (false, true, true, true, false, true, false,
    false)), (String ((Ascii (false, true, false, false, true, false, true,
    false)), (String ((Ascii (true, false, true, false, false, true, true,
    false)), (String ((Ascii (false, false, true, false, true, true, true,
    false)), (String ((Ascii (false, true, false, false, true, true, true,
    false)), (String ((Ascii (true, false, false, true, true, true, true,
    false)), EmptyString)))))))))))))))); gop = OpGT; glit =
    Z0 } :: ({ gexpr = (String ((Ascii (false, false, true, false, false,
    true, false, false)), (String ((Ascii (false, true, false, false, true,
    true, true, false)), (String ((Ascii (false, true, true, true, false,
    true, false, false)), (String ((Ascii (true, false, true, true, false,
    false, true, false)), (String ((Ascii (true, false, false, false, false,
    true, true, false)), (String ((Ascii (false, false, false, true, true,
    true, true, false)), (String ((Ascii (false, false, false, false, true,
    false, true, false)), (String ((Ascii (true, false, false, false, false,
    true, true, false)), (String ((Ascii (true, true, false, false, false,
    true, true, false)), (String ((Ascii (true, true, false, true, false,
    true, true, false)), (String ((Ascii (true, false, true, false, false,
    true, true, false)), (String ((Ascii (false, false, true, false, true,
    true, true, false)), (String ((Ascii (true, false, true, false, false,
    false, true, false)), (String ((Ascii (false, true, false, false, true,
    true, true, false)), (String ((Ascii (false, true, false, false, true,
    true, true, false)), (String ((Ascii (true, true, true, true, false,
    true, true, false)), (String ((Ascii (false, true, false, false, true,
    true, true, false)), (String ((Ascii (true, true, false, false, true,
    true, true, false)), EmptyString))))))))))))))))))))))))))))))))))));
    gop = OpGT; glit = Z0 } :: ({ gexpr = (String ((Ascii (false, false,
    true, false, false, true, false, false)), (String ((Ascii (false, true,
    false, false, true, true, true, false)), (String ((Ascii (false, true,
    true, true, false, true, false, false)), (String ((Ascii (true, false,
    true, true, false, false, true, false)), (String ((Ascii (true, false,
    false, false, false, true, true, false)), (String ((Ascii (false, false,
    false, true, true, true, true, false)), (String ((Ascii (false, false,
    false, false, true, false, true, false)), (String ((Ascii (true, false,
    false, false, false, true, true, false)), (String ((Ascii (true, true,
    false, false, false, true, true, false)), (String ((Ascii (true, true,
    false, true, false, true, true, false)), (String ((Ascii (true, false,
    true, false, false, true, true, false)), (String ((Ascii (false, false,
    true, false, true, true, true, false)), (String ((Ascii (true, false,
    true, false, false, false, true, false)), (String ((Ascii (false, true,
    false, false, true, true, true, false)), (String ((Ascii (false, true,
    false, false, true, true, true, false)), (String ((Ascii (true, true,
    true, true, false, true, true, false)), (String ((Ascii (false, true,
    false, false, true, true, true, false)), (String ((Ascii (true, true,
    false, false, true, true, true, false)),
    EmptyString)))))))))))))))))))))))))))))))))))); gop = OpGT; glit =
    Z0 } :: []))

(** val g_Date : guard list **)

let g_Date =
  { gexpr = (String ((Ascii (false, false, true, true, false, true, true,
    false)), (String ((Ascii (true, false, true, false, false, true, true,
    false)), (String ((Ascii (false, true, true, true, false, true, true,
    false)), (String ((Ascii (false, false, false, true, false, true, false,
    false)), (String ((Ascii (false, false, true, false, false, true, false,
    false)), (String ((Ascii (false, false, false, false, true, true, false,
    false)), (String ((Ascii (true, false, false, true, false, true, false,
    false)), EmptyString)))))))))))))); gop = OpNE; glit = (Zpos (XO (XO
    XH))) } :: []

(** val g_IFID : guard list **)

let g_IFID =
  { gexpr = (String ((Ascii (false, false, true, true, false, true, true,
    false)), (String ((Ascii (true, false, true, false, false, true, true,
    false)), (String ((Ascii (false, true, true, true, false, true, true,
    false)), (String ((Ascii (false, false, false, true, false, true, false,
    false)), (String ((Ascii (false, false, true, false, false, true, false,
    false)), (String ((Ascii (false, false, false, false, true, true, false,
    false)), (String ((Ascii (true, false, false, true, false, true, false,
    false)), EmptyString)))))))))))))); gop = OpNE; glit = (Zpos (XO (XO (XO
    XH)))) } :: []

(** val g_IPAddr : guard list **)

let g_IPAddr =
  { gexpr = (String ((Ascii (false, false, true, true, false, true, true,
    false)), (String ((Ascii (true, false, true, false, false, true, true,
    false)), (String ((Ascii (false, true, true, true, false, true, true,
    false)), (String ((Ascii (false, false, false, true, false, true, false,
    false)), (String ((Ascii (false, false, true, false, false, true, false,
    false)), (String ((Ascii (false, false, false, false, true, true, false,
    false)), (String ((Ascii (true, false, false, true, false, true, false,
    false)), EmptyString)))))))))))))); gop = OpNE; glit = (Zpos (XO (XO
    XH))) } :: []

(** val g_IPv6Addr : guard list **)

let g_IPv6Addr =
  { gexpr = (String ((Ascii (false, false, true, true, false, true, true,
    false)), (String ((Ascii (true, false, true, false, false, true, true,
    false)), (String ((Ascii (false, true, true, true, false, true, true,
    false)), (String ((Ascii (false, false, false, true, false, true, false,
    false)), (String ((Ascii (false, false, true, false, false, true, false,
    false)), (String ((Ascii (false, false, false, false, true, true, false,
    false)), (String ((Ascii (true, false, false, true, false, true, false,
    false)), EmptyString)))))))))))))); gop = OpNE; glit = (Zpos (XO (XO (XO
    (XO XH))))) } :: []

(** val g_IPv6Prefix : guard list **)

let g_IPv6Prefix =
  { gexpr = (String ((Ascii (false, false, true, true, false, true, true,
    false)), (String ((Ascii (true, false, true, false, false, true, true,
    false)), (String ((Ascii (false, true, true, true, false, true, true,
    false)), (String ((Ascii (false, false, false, true, false, true, false,
    false)), (String ((Ascii (false, false, true, false, false, true, false,
    false)), (String ((Ascii (false, false, false, false, true, true, false,
    false)), (String ((Ascii (true, false, false, true, false, true, false,
    false)), EmptyString)))))))))))))); gop = OpLT; glit = (Zpos (XO
    XH)) } :: ({ gexpr = (String ((Ascii (false, false, true, true, false,
    true, true, false)), (String ((Ascii (true, false, true, false, false,
    true, true, false)), (String ((Ascii (false, true, true, true, false,
    true, true, false)), (String ((Ascii (false, false, false, true, false,
    true, false, false)), (String ((Ascii (false, false, true, false, false,
    true, false, false)), (String ((Ascii (false, false, false, false, true,
    true, false, false)), (String ((Ascii (true, false, false, true, false,
    true, false, false)), EmptyString)))))))))))))); gop = OpGT; glit = (Zpos
    (XO (XI (XO (XO XH))))) } :: ({ gexpr = (String ((Ascii (true, false,
    false, true, false, true, true, false)), (String ((Ascii (false, true,
    true, true, false, true, true, false)), (String ((Ascii (false, false,
    true, false, true, true, true, false)), (String ((Ascii (false, false,
    false, true, false, true, false, false)), (String ((Ascii (false, false,
    true, false, false, true, false, false)), (String ((Ascii (false, false,
    false, false, true, true, false, false)), (String ((Ascii (true, true,
    false, true, true, false, true, false)), (String ((Ascii (true, false,
    false, false, true, true, false, false)), (String ((Ascii (true, false,
    true, true, true, false, true, false)), (String ((Ascii (true, false,
    false, true, false, true, false, false)),
    EmptyString)))))))))))))))))))); gop = OpGT; glit = (Zpos (XO (XO (XO (XO
    (XO (XO (XO XH)))))))) } :: ({ gexpr = (String ((Ascii (false, true,
    false, false, false, true, true, false)), (String ((Ascii (true, false,
    false, true, false, true, true, false)), (String ((Ascii (false, false,
    true, false, true, true, true, false)), EmptyString)))))); gop = OpLT;
    glit = (Zpos (XO (XO (XO XH)))) } :: ({ gexpr = (String ((Ascii (true,
    false, true, true, false, true, true, false)), (String ((Ascii (true,
    false, false, false, false, true, true, false)), (String ((Ascii (true,
    true, false, true, false, true, true, false)), (String ((Ascii (true,
    false, true, false, false, true, true, false)), (String ((Ascii (false,
    false, false, true, false, true, false, false)), (String ((Ascii (false,
    true, true, true, false, true, true, false)), (String ((Ascii (true,
    false, true, false, false, true, true, false)), (String ((Ascii (false,
    false, true, false, true, true, true, false)), (String ((Ascii (false,
    true, true, true, false, true, false, false)), (String ((Ascii (true,
    false, false, true, false, false, true, false)), (String ((Ascii (false,
    false, false, false, true, false, true, false)), (String ((Ascii (false,
    false, true, true, false, true, false, false)), (String ((Ascii (false,
    false, false, false, false, true, false, false)), (String ((Ascii (false,
    true, true, true, false, true, true, false)), (String ((Ascii (true,
    false, true, false, false, true, true, false)), (String ((Ascii (false,
    false, true, false, true, true, true, false)), (String ((Ascii (false,
    true, true, true, false, true, false, false)), (String ((Ascii (true,
    false, false, true, false, false, true, false)), (String ((Ascii (false,
    false, false, false, true, false, true, false)), (String ((Ascii (false,
    true, true, false, true, true, true, false)), (String ((Ascii (false,
    true, true, false, true, true, false, false)), (String ((Ascii (false,
    false, true, true, false, true, true, false)), (String ((Ascii (true,
    false, true, false, false, true, true, false)), (String ((Ascii (false,
    true, true, true, false, true, true, false)), (String ((Ascii (true,
    false, false, true, false, true, false, false)), (String ((Ascii (true,
    true, false, true, true, false, true, false)), (String ((Ascii (true,
    true, true, true, false, true, true, false)), (String ((Ascii (true,
    true, false, false, false, true, true, false)), (String ((Ascii (false,
    false, true, false, true, true, true, false)), (String ((Ascii (true,
    false, true, false, false, true, true, false)), (String ((Ascii (false,
    false, true, false, true, true, true, false)), (String ((Ascii (true,
    false, true, true, true, false, true, false)), (String ((Ascii (false,
    false, false, false, false, true, false, false)), (String ((Ascii (false,
    true, true, false, false, true, false, false)), (String ((Ascii (false,
    false, false, false, false, true, false, false)), (String ((Ascii (false,
    false, false, true, false, true, false, false)), (String ((Ascii (true,
    false, false, false, true, true, false, false)), (String ((Ascii (false,
    false, false, false, false, true, false, false)), (String ((Ascii (false,
    false, true, true, true, true, false, false)), (String ((Ascii (false,
    false, true, true, true, true, false, false)), (String ((Ascii (false,
    false, false, false, false, true, false, false)), (String ((Ascii (false,
    false, false, true, false, true, false, false)), (String ((Ascii (true,
    true, true, false, true, true, false, false)), (String ((Ascii (false,
    false, false, false, false, true, false, false)), (String ((Ascii (true,
    false, true, true, false, true, false, false)), (String ((Ascii (false,
    false, false, false, false, true, false, false)), (String ((Ascii (false,
    true, false, false, false, true, true, false)), (String ((Ascii (true,
    false, false, true, false, true, true, false)), (String ((Ascii (false,
    false, true, false, true, true, true, false)), (String ((Ascii (true,
    false, false, true, false, true, false, false)), (String ((Ascii (true,
    false, false, true, false, true, false, false)),
    EmptyString))))))))))))))))))))))))))))))))))))))))))))))))))))))))))))))))))))))))))))))))))))))))))))))))))))));
    gop = OpNE; glit = Z0 } :: []))))

(** val g_Integer : guard list **)

let g_Integer =
  { gexpr = (String ((Ascii (false, false, true, true, false, true, true,
    false)), (String ((Ascii (true, false, true, false, false, true, true,
    false)), (String ((Ascii (false, true, true, true, false, true, true,
    false)), (String ((Ascii (false, false, false, true, false, true, false,
    false)), (String ((Ascii (false, false, true, false, false, true, false,
    false)), (String ((Ascii (false, false, false, false, true, true, false,
    false)), (String ((Ascii (true, false, false, true, false, true, false,
    false)), EmptyString)))))))))))))); gop = OpNE; glit = (Zpos (XO (XO
    XH))) } :: []

(** val g_Integer64 : guard list **)

let g_Integer64 =
  { gexpr = (String ((Ascii (false, false, true, true, false, true, true,
    false)), (String ((Ascii (true, false, true, false, false, true, true,
    false)), (String ((Ascii (false, true, true, true, false, true, true,
    false)), (String ((Ascii (false, false, false, true, false, true, false,
    false)), (String ((Ascii (false, false, true, false, false, true, false,
    false)), (String ((Ascii (false, false, false, false, true, true, false,
    false)), (String ((Ascii (true, false, false, true, false, true, false,
    false)), EmptyString)))))))))))))); gop = OpNE; glit = (Zpos (XO (XO (XO
    XH)))) } :: []

(** val g_IsAuthenticRequest : guard list **)

let g_IsAuthenticRequest =
  { gexpr = (String ((Ascii (false, false, true, true, false, true, true,
    false)), (String ((Ascii (true, false, true, false, false, true, true,
    false)), (String ((Ascii (false, true, true, true, false, true, true,
    false)), (String ((Ascii (false, false, false, true, false, true, false,
    false)), (String ((Ascii (false, false, true, false, false, true, false,
    false)), (String ((Ascii (false, false, false, false, true, true, false,
    false)), (String ((Ascii (true, false, false, true, false, true, false,
    false)), EmptyString)))))))))))))); gop = OpLT; glit = (Zpos (XO (XO (XI
    (XO XH))))) } :: ({ gexpr = (String ((Ascii (false, false, true, true,
    false, true, true, false)), (String ((Ascii (true, false, true, false,
    false, true, true, false)), (String ((Ascii (false, true, true, true,
    false, true, true, false)), (String ((Ascii (false, false, false, true,
    false, true, false, false)), (String ((Ascii (false, false, true, false,
    false, true, false, false)), (String ((Ascii (true, false, false, false,
    true, true, false, false)), (String ((Ascii (true, false, false, true,
    false, true, false, false)), EmptyString)))))))))))))); gop = OpEQ;
    glit = Z0 } :: [])

(** val sW_IsAuthenticRequest : z list list list **)

let sW_IsAuthenticRequest =
  (((Zpos XH) :: ((Zpos (XO (XO (XI XH)))) :: [])) :: (((Zpos (XO (XO
    XH))) :: ((Zpos (XO (XO (XO (XI (XO XH)))))) :: ((Zpos (XI (XI (XO (XI
    (XO XH)))))) :: []))) :: ([] :: []))) :: []

(** val g_IsAuthenticResponse : guard list **)

let g_IsAuthenticResponse =
  { gexpr = (String ((Ascii (false, false, true, true, false, true, true,
    false)), (String ((Ascii (true, false, true, false, false, true, true,
    false)), (String ((Ascii (false, true, true, true, false, true, true,
    false)), (String ((Ascii (false, false, false, true, false, true, false,
    false)), (String ((Ascii (false, false, true, false, false, true, false,
    false)), (String ((Ascii (false, false, false, false, true, true, false,
    false)), (String ((Ascii (true, false, false, true, false, true, false,
    false)), EmptyString)))))))))))))); gop = OpLT; glit = (Zpos (XO (XO (XI
    (XO XH))))) } :: ({ gexpr = (String ((Ascii (false, false, true, true,
    false, true, true, false)), (String ((Ascii (true, false, true, false,
    false, true, true, false)), (String ((Ascii (false, true, true, true,
    false, true, true, false)), (String ((Ascii (false, false, false, true,
    false, true, false, false)), (String ((Ascii (false, false, true, false,
    false, true, false, false)), (String ((Ascii (true, false, false, false,
    true, true, false, false)), (String ((Ascii (true, false, false, true,
    false, true, false, false)), EmptyString)))))))))))))); gop = OpLT;
    glit = (Zpos (XO (XO (XI (XO XH))))) } :: ({ gexpr = (String ((Ascii
    (false, false, true, true, false, true, true, false)), (String ((Ascii
    (true, false, true, false, false, true, true, false)), (String ((Ascii
    (false, true, true, true, false, true, true, false)), (String ((Ascii
    (false, false, false, true, false, true, false, false)), (String ((Ascii
    (false, false, true, false, false, true, false, false)), (String ((Ascii
    (false, true, false, false, true, true, false, false)), (String ((Ascii
    (true, false, false, true, false, true, false, false)),
    EmptyString)))))))))))))); gop = OpEQ; glit = Z0 } :: []))

(** val g_NewBytes : guard list **)

let g_NewBytes =
  { gexpr = (String ((Ascii (false, false, true, true, false, true, true,
    false)), (String ((Ascii (true, false, true, false, false, true, true,
    false)), (String ((Ascii (false, true, true, true, false, true, true,
    false)), (String ((Ascii (false, false, false, true, false, true, false,
    false)), (String ((Ascii (false, false, true, false, false, true, false,
    false)), (String ((Ascii (false, false, false, false, true, true, false,
    false)), (String ((Ascii (true, false, false, true, false, true, false,
    false)), EmptyString)))))))))))))); gop = OpGT; glit = (Zpos (XI (XO (XI
    (XI (XI (XI (XI XH)))))))) } :: []

(** val g_NewDate : guard list **)

let g_NewDate =
  { gexpr = (String ((Ascii (false, false, true, false, false, true, false,
    false)), (String ((Ascii (false, false, false, false, true, true, false,
    false)), (String ((Ascii (false, true, true, true, false, true, false,
    false)), (String ((Ascii (true, false, true, false, true, false, true,
    false)), (String ((Ascii (false, true, true, true, false, true, true,
    false)), (String ((Ascii (true, false, false, true, false, true, true,
    false)), (String ((Ascii (false, false, false, true, true, true, true,
    false)), (String ((Ascii (false, false, false, true, false, true, false,
    false)), (String ((Ascii (true, false, false, true, false, true, false,
    false)), EmptyString)))))))))))))))))); gop = OpLT; glit =
    Z0 } :: ({ gexpr = (String ((Ascii (false, false, true, false, false,
    true, false, false)), (String ((Ascii (false, false, false, false, true,
    true, false, false)), (String ((Ascii (false, true, true, true, false,
    true, false, false)), (String ((Ascii (true, false, true, false, true,
    false, true, false)), (String ((Ascii (false, true, true, true, false,
    true, true, false)), (String ((Ascii (true, false, false, true, false,
    true, true, false)), (String ((Ascii (false, false, false, true, true,
    true, true, false)), (String ((Ascii (false, false, false, true, false,
    true, false, false)), (String ((Ascii (true, false, false, true, false,
    true, false, false)), EmptyString)))))))))))))))))); gop = OpGT; glit =
    (Zpos (XI (XI (XI (XI (XI (XI (XI (XI (XI (XI (XI (XI (XI (XI (XI (XI (XI
    (XI (XI (XI (XI (XI (XI (XI (XI (XI (XI (XI (XI (XI (XI
    XH)))))))))))))))))))))))))))))))) } :: [])

(** val g_NewIFID : guard list **)

let g_NewIFID =
  { gexpr = (String ((Ascii (false, false, true, true, false, true, true,
    false)), (String ((Ascii (true, false, true, false, false, true, true,
    false)), (String ((Ascii (false, true, true, true, false, true, true,
    false)), (String ((Ascii (false, false, false, true, false, true, false,
    false)), (String ((Ascii (false, false, true, false, false, true, false,
    false)), (String ((Ascii (false, false, false, false, true, true, false,
    false)), (String ((Ascii (true, false, false, true, false, true, false,
    false)), EmptyString)))))))))))))); gop = OpNE; glit = (Zpos (XO (XO (XO
    XH)))) } :: []

(** val g_NewIPv6Prefix : guard list **)

let g_NewIPv6Prefix =
  { gexpr = (String ((Ascii (false, false, true, true, false, true, true,
    false)), (String ((Ascii (true, false, true, false, false, true, true,
    false)), (String ((Ascii (false, true, true, true, false, true, true,
    false)), (String ((Ascii (false, false, false, true, false, true, false,
    false)), (String ((Ascii (false, false, true, false, false, true, false,
    false)), (String ((Ascii (false, false, false, false, true, true, false,
    false)), (String ((Ascii (false, true, true, true, false, true, false,
    false)), (String ((Ascii (true, false, false, true, false, false, true,
    false)), (String ((Ascii (false, false, false, false, true, false, true,
    false)), (String ((Ascii (true, false, false, true, false, true, false,
    false)), EmptyString)))))))))))))))))))); gop = OpNE; glit = (Zpos (XO
    (XO (XO (XO XH))))) } :: ({ gexpr = (String ((Ascii (false, true, false,
    false, false, true, true, false)), (String ((Ascii (true, false, false,
    true, false, true, true, false)), (String ((Ascii (false, false, true,
    false, true, true, true, false)), (String ((Ascii (true, true, false,
    false, true, true, true, false)), EmptyString)))))))); gop = OpNE; glit =
    (Zpos (XO (XO (XO (XO (XO (XO (XO XH)))))))) } :: ({ gexpr = (String
    ((Ascii (true, false, false, true, false, true, true, false)),
    EmptyString)); gop = OpNE; glit = Z0 } :: ({ gexpr = (String ((Ascii
    (true, false, false, true, false, true, true, false)), EmptyString));
    gop = OpLT; glit = (Zpos (XO (XO (XO XH)))) } :: [])))

(** val g_NewString : guard list **)

let g_NewString =
  { gexpr = (String ((Ascii (false, false, true, true, false, true, true,
    false)), (String ((Ascii (true, false, true, false, false, true, true,
    false)), (String ((Ascii (false, true, true, true, false, true, true,
    false)), (String ((Ascii (false, false, false, true, false, true, false,
    false)), (String ((Ascii (false, false, true, false, false, true, false,
    false)), (String ((Ascii (false, false, false, false, true, true, false,
    false)), (String ((Ascii (true, false, false, true, false, true, false,
    false)), EmptyString)))))))))))))); gop = OpGT; glit = (Zpos (XI (XO (XI
    (XI (XI (XI (XI XH)))))))) } :: []

(** val g_NewTLV : guard list **)

let g_NewTLV =
  { gexpr = (String ((Ascii (false, false, true, true, false, true, true,
    false)), (String ((Ascii (true, false, true, false, false, true, true,
    false)), (String ((Ascii (false, true, true, true, false, true, true,
    false)), (String ((Ascii (false, false, false, true, false, true, false,
    false)), (String ((Ascii (false, false, true, false, false, true, false,
    false)), (String ((Ascii (true, false, false, false, true, true, false,
    false)), (String ((Ascii (true, false, false, true, false, true, false,
    false)), EmptyString)))))))))))))); gop = OpLT; glit = (Zpos
    XH) } :: ({ gexpr = (String ((Ascii (false, false, true, true, false,
    true, true, false)), (String ((Ascii (true, false, true, false, false,
    true, true, false)), (String ((Ascii (false, true, true, true, false,
    true, true, false)), (String ((Ascii (false, false, false, true, false,
    true, false, false)), (String ((Ascii (false, false, true, false, false,
    true, false, false)), (String ((Ascii (true, false, false, false, true,
    true, false, false)), (String ((Ascii (true, false, false, true, false,
    true, false, false)), EmptyString)))))))))))))); gop = OpGT; glit = (Zpos
    (XI (XO (XI (XI (XI (XI (XI XH)))))))) } :: [])

(** val g_NewTunnelPassword : guard list **)

let g_NewTunnelPassword =
  { gexpr = (String ((Ascii (false, false, true, true, false, true, true,
    false)), (String ((Ascii (true, false, true, false, false, true, true,
    false)), (String ((Ascii (false, true, true, true, false, true, true,
    false)), (String ((Ascii (false, false, false, true, false, true, false,
    false)), (String ((Ascii (false, false, true, false, false, true, false,
    false)), (String ((Ascii (false, false, false, false, true, true, false,
    false)), (String ((Ascii (true, false, false, true, false, true, false,
    false)), EmptyString)))))))))))))); gop = OpGT; glit = (Zpos (XI (XI (XI
    (XI (XO (XI (XI XH)))))))) } :: ({ gexpr = (String ((Ascii (false, false,
    true, true, false, true, true, false)), (String ((Ascii (true, false,
    true, false, false, true, true, false)), (String ((Ascii (false, true,
    true, true, false, true, true, false)), (String ((Ascii (false, false,
    false, true, false, true, false, false)), (String ((Ascii (false, false,
    true, false, false, true, false, false)), (String ((Ascii (true, false,
    false, false, true, true, false, false)), (String ((Ascii (true, false,
    false, true, false, true, false, false)), EmptyString))))))))))))));
    gop = OpNE; glit = (Zpos (XO XH)) } :: ({ gexpr = (String ((Ascii (false,
    false, true, false, false, true, false, false)), (String ((Ascii (true,
    false, false, false, true, true, false, false)), (String ((Ascii (true,
    true, false, true, true, false, true, false)), (String ((Ascii (false,
    false, false, false, true, true, false, false)), (String ((Ascii (true,
    false, true, true, true, false, true, false)), (String ((Ascii (false,
    false, false, false, false, true, false, false)), (String ((Ascii (false,
    true, true, false, false, true, false, false)), (String ((Ascii (false,
    false, false, false, false, true, false, false)), (String ((Ascii (false,
    false, false, false, true, true, false, false)), (String ((Ascii (false,
    false, false, true, true, true, true, false)), (String ((Ascii (false,
    false, false, true, true, true, false, false)), (String ((Ascii (false,
    false, false, false, true, true, false, false)),
    EmptyString)))))))))))))))))))))))); gop = OpNE; glit = (Zpos (XO (XO (XO
    (XO (XO (XO (XO XH)))))))) } :: ({ gexpr = (String ((Ascii (false, false,
    true, true, false, true, true, false)), (String ((Ascii (true, false,
    true, false, false, true, true, false)), (String ((Ascii (false, true,
    true, true, false, true, true, false)), (String ((Ascii (false, false,
    false, true, false, true, false, false)), (String ((Ascii (false, false,
    true, false, false, true, false, false)), (String ((Ascii (false, true,
    false, false, true, true, false, false)), (String ((Ascii (true, false,
    false, true, false, true, false, false)), EmptyString))))))))))))));
    gop = OpEQ; glit = Z0 } :: ({ gexpr = (String ((Ascii (false, false,
    true, true, false, true, true, false)), (String ((Ascii (true, false,
    true, false, false, true, true, false)), (String ((Ascii (false, true,
    true, true, false, true, true, false)), (String ((Ascii (false, false,
    false, true, false, true, false, false)), (String ((Ascii (false, false,
    true, false, false, true, false, false)), (String ((Ascii (true, true,
    false, false, true, true, false, false)), (String ((Ascii (true, false,
    false, true, false, true, false, false)), EmptyString))))))))))))));
    gop = OpNE; glit = (Zpos (XO (XO (XO (XO XH))))) } :: ({ gexpr = (String
    ((Ascii (true, true, false, false, false, true, true, false)), (String
    ((Ascii (false, false, false, true, false, true, true, false)), (String
    ((Ascii (true, false, true, false, true, true, true, false)), (String
    ((Ascii (false, true, true, true, false, true, true, false)), (String
    ((Ascii (true, true, false, true, false, true, true, false)), (String
    ((Ascii (true, true, false, false, true, true, true, false)),
    EmptyString)))))))))))); gop = OpEQ; glit = Z0 } :: ({ gexpr = (String
    ((Ascii (true, true, false, false, false, true, true, false)), (String
    ((Ascii (false, false, false, true, false, true, true, false)), (String
    ((Ascii (true, false, true, false, true, true, true, false)), (String
    ((Ascii (false, true, true, true, false, true, true, false)), (String
    ((Ascii (true, true, false, true, false, true, true, false)),
    EmptyString)))))))))); gop = OpEQ; glit = Z0 } :: ({ gexpr = (String
    ((Ascii (true, false, false, true, false, true, true, false)),
    EmptyString)); gop = OpLT; glit = (Zpos (XO (XO (XO (XO
    XH))))) } :: [])))))))

(** val g_NewUserPassword : guard list **)

let g_NewUserPassword =
  { gexpr = (String ((Ascii (false, false, true, true, false, true, true,
    false)), (String ((Ascii (true, false, true, false, false, true, true,
    false)), (String ((Ascii (false, true, true, true, false, true, true,
    false)), (String ((Ascii (false, false, false, true, false, true, false,
    false)), (String ((Ascii (false, false, true, false, false, true, false,
    false)), (String ((Ascii (false, false, false, false, true, true, false,
    false)), (String ((Ascii (true, false, false, true, false, true, false,
    false)), EmptyString)))))))))))))); gop = OpGT; glit = (Zpos (XO (XO (XO
    (XO (XO (XO (XO XH)))))))) } :: ({ gexpr = (String ((Ascii (false, false,
    true, true, false, true, true, false)), (String ((Ascii (true, false,
    true, false, false, true, true, false)), (String ((Ascii (false, true,
    true, true, false, true, true, false)), (String ((Ascii (false, false,
    false, true, false, true, false, false)), (String ((Ascii (false, false,
    true, false, false, true, false, false)), (String ((Ascii (true, false,
    false, false, true, true, false, false)), (String ((Ascii (true, false,
    false, true, false, true, false, false)), EmptyString))))))))))))));
    gop = OpEQ; glit = Z0 } :: ({ gexpr = (String ((Ascii (false, false,
    true, true, false, true, true, false)), (String ((Ascii (true, false,
    true, false, false, true, true, false)), (String ((Ascii (false, true,
    true, true, false, true, true, false)), (String ((Ascii (false, false,
    false, true, false, true, false, false)), (String ((Ascii (false, false,
    true, false, false, true, false, false)), (String ((Ascii (false, true,
    false, false, true, true, false, false)), (String ((Ascii (true, false,
    false, true, false, true, false, false)), EmptyString))))))))))))));
    gop = OpNE; glit = (Zpos (XO (XO (XO (XO XH))))) } :: ({ gexpr = (String
    ((Ascii (true, true, false, false, false, true, true, false)), (String
    ((Ascii (false, false, false, true, false, true, true, false)), (String
    ((Ascii (true, false, true, false, true, true, true, false)), (String
    ((Ascii (false, true, true, true, false, true, true, false)), (String
    ((Ascii (true, true, false, true, false, true, true, false)), (String
    ((Ascii (true, true, false, false, true, true, true, false)),
    EmptyString)))))))))))); gop = OpEQ; glit = Z0 } :: ({ gexpr = (String
    ((Ascii (true, false, false, true, false, true, true, false)),
    EmptyString)); gop = OpLT; glit = (Zpos (XO (XO (XO (XO
    XH))))) } :: ({ gexpr = (String ((Ascii (false, true, false, true, false,
    true, true, false)), EmptyString)); gop = OpLT; glit = (Zpos (XO (XO (XO
    (XO XH))))) } :: [])))))

(** val g_NewVendorSpecific : guard list **)

let g_NewVendorSpecific =
  { gexpr = (String ((Ascii (false, false, true, true, false, true, true,
    false)), (String ((Ascii (true, false, true, false, false, true, true,
    false)), (String ((Ascii (false, true, true, true, false, true, true,
    false)), (String ((Ascii (false, false, false, true, false, true, false,
    false)), (String ((Ascii (false, false, true, false, false, true, false,
    false)), (String ((Ascii (true, false, false, false, true, true, false,
    false)), (String ((Ascii (true, false, false, true, false, true, false,
    false)), EmptyString)))))))))))))); gop = OpLT; glit = (Zpos
    XH) } :: ({ gexpr = (String ((Ascii (false, false, true, true, false,
    true, true, false)), (String ((Ascii (true, false, true, false, false,
    true, true, false)), (String ((Ascii (false, true, true, true, false,
    true, true, false)), (String ((Ascii (false, false, false, true, false,
    true, false, false)), (String ((Ascii (false, false, true, false, false,
    true, false, false)), (String ((Ascii (true, false, false, false, true,
    true, false, false)), (String ((Ascii (true, false, false, true, false,
    true, false, false)), EmptyString)))))))))))))); gop = OpGT; glit = (Zpos
    (XI (XO (XO (XI (XI (XI (XI XH)))))))) } :: [])

(** val g_PacketServer_Serve : guard list **)

let g_PacketServer_Serve =
  { gexpr = (String ((Ascii (true, false, false, false, false, true, true,
    false)), (String ((Ascii (false, false, true, false, true, true, true,
    false)), (String ((Ascii (true, true, true, true, false, true, true,
    false)), (String ((Ascii (true, false, true, true, false, true, true,
    false)), (String ((Ascii (true, false, false, true, false, true, true,
    false)), (String ((Ascii (true, true, false, false, false, true, true,
    false)), (String ((Ascii (false, true, true, true, false, true, false,
    false)), (String ((Ascii (false, false, true, true, false, false, true,
    false)), (String ((Ascii (true, true, true, true, false, true, true,
    false)), (String ((Ascii (true, false, false, false, false, true, true,
    false)), (String ((Ascii (false, false, true, false, false, true, true,
    false)), (String ((Ascii (true, false, false, true, false, false, true,
    false)), (String ((Ascii (false, true, true, true, false, true, true,
    false)), (String ((Ascii (false, false, true, false, true, true, true,
    false)), (String ((Ascii (true, true, false, false, true, true, false,
    false)), (String ((Ascii (false, true, false, false, true, true, false,
    false)), (String ((Ascii (false, false, false, true, false, true, false,
    false)), (String ((Ascii (false, true, true, false, false, true, false,
    false)), (String ((Ascii (false, false, true, false, false, true, false,
    false)), (String ((Ascii (false, true, false, false, true, true, true,
    false)), (String ((Ascii (false, true, true, true, false, true, false,
    false)), (String ((Ascii (true, true, false, false, true, true, true,
    false)), (String ((Ascii (false, false, false, true, false, true, true,
    false)), (String ((Ascii (true, false, true, false, true, true, true,
    false)), (String ((Ascii (false, false, true, false, true, true, true,
    false)), (String ((Ascii (false, false, true, false, false, true, true,
    false)), (String ((Ascii (true, true, true, true, false, true, true,
    false)), (String ((Ascii (true, true, true, false, true, true, true,
    false)), (String ((Ascii (false, true, true, true, false, true, true,
    false)), (String ((Ascii (false, true, false, false, true, false, true,
    false)), (String ((Ascii (true, false, true, false, false, true, true,
    false)), (String ((Ascii (true, false, false, false, true, true, true,
    false)), (String ((Ascii (true, false, true, false, true, true, true,
    false)), (String ((Ascii (true, false, true, false, false, true, true,
    false)), (String ((Ascii (true, true, false, false, true, true, true,
    false)), (String ((Ascii (false, false, true, false, true, true, true,
    false)), (String ((Ascii (true, false, true, false, false, true, true,
    false)), (String ((Ascii (false, false, true, false, false, true, true,
    false)), (String ((Ascii (true, false, false, true, false, true, false,
    false)),
    EmptyString))))))))))))))))))))))))))))))))))))))))))))))))))))))))))))))))))))))))))))));
    gop = OpEQ; glit = (Zpos XH) } :: ({ gexpr = (String ((Ascii (false,
    false, true, false, false, true, false, false)), (String ((Ascii (false,
    true, false, false, true, true, true, false)), (String ((Ascii (false,
    true, true, true, false, true, false, false)), (String ((Ascii (false,
    false, true, true, false, true, true, false)), (String ((Ascii (true,
    false, false, true, false, true, true, false)), (String ((Ascii (true,
    true, false, false, true, true, true, false)), (String ((Ascii (false,
    false, true, false, true, true, true, false)), (String ((Ascii (true,
    false, true, false, false, true, true, false)), (String ((Ascii (false,
    true, true, true, false, true, true, false)), (String ((Ascii (true,
    false, true, false, false, true, true, false)), (String ((Ascii (false,
    true, false, false, true, true, true, false)), (String ((Ascii (true,
    true, false, false, true, true, true, false)), (String ((Ascii (true,
    true, false, true, true, false, true, false)), (String ((Ascii (false,
    false, true, false, false, true, false, false)), (String ((Ascii (false,
    false, false, false, true, true, false, false)), (String ((Ascii (true,
    false, true, true, true, false, true, false)),
    EmptyString)))))))))))))))))))))))))))))))); gop = OpEQ; glit =
    Z0 } :: ({ gexpr = (String ((Ascii (true, false, false, false, false,
    true, true, false)), (String ((Ascii (false, false, true, false, true,
    true, true, false)), (String ((Ascii (true, true, true, true, false,
    true, true, false)), (String ((Ascii (true, false, true, true, false,
    true, true, false)), (String ((Ascii (true, false, false, true, false,
    true, true, false)), (String ((Ascii (true, true, false, false, false,
    true, true, false)), (String ((Ascii (false, true, true, true, false,
    true, false, false)), (String ((Ascii (false, false, true, true, false,
    false, true, false)), (String ((Ascii (true, true, true, true, false,
    true, true, false)), (String ((Ascii (true, false, false, false, false,
    true, true, false)), (String ((Ascii (false, false, true, false, false,
    true, true, false)), (String ((Ascii (true, false, false, true, false,
    false, true, false)), (String ((Ascii (false, true, true, true, false,
    true, true, false)), (String ((Ascii (false, false, true, false, true,
    true, true, false)), (String ((Ascii (true, true, false, false, true,
    true, false, false)), (String ((Ascii (false, true, false, false, true,
    true, false, false)), (String ((Ascii (false, false, false, true, false,
    true, false, false)), (String ((Ascii (false, true, true, false, false,
    true, false, false)), (String ((Ascii (false, false, true, false, false,
    true, false, false)), (String ((Ascii (false, true, false, false, true,
    true, true, false)), (String ((Ascii (false, true, true, true, false,
    true, false, false)), (String ((Ascii (true, true, false, false, true,
    true, true, false)), (String ((Ascii (false, false, false, true, false,
    true, true, false)), (String ((Ascii (true, false, true, false, true,
    true, true, false)), (String ((Ascii (false, false, true, false, true,
    true, true, false)), (String ((Ascii (false, false, true, false, false,
    true, true, false)), (String ((Ascii (true, true, true, true, false,
    true, true, false)), (String ((Ascii (true, true, true, false, true,
    true, true, false)), (String ((Ascii (false, true, true, true, false,
    true, true, false)), (String ((Ascii (false, true, false, false, true,
    false, true, false)), (String ((Ascii (true, false, true, false, false,
    true, true, false)), (String ((Ascii (true, false, false, false, true,
    true, true, false)), (String ((Ascii (true, false, true, false, true,
    true, true, false)), (String ((Ascii (true, false, true, false, false,
    true, true, false)), (String ((Ascii (true, true, false, false, true,
    true, true, false)), (String ((Ascii (false, false, true, false, true,
    true, true, false)), (String ((Ascii (true, false, true, false, false,
    true, true, false)), (String ((Ascii (false, false, true, false, false,
    true, true, false)), (String ((Ascii (true, false, false, true, false,
    true, false, false)),
    EmptyString))))))))))))))))))))))))))))))))))))))))))))))))))))))))))))))))))))))))))))));
    gop = OpEQ; glit = (Zpos XH) } :: ({ gexpr = (String ((Ascii (false,
    false, true, true, false, true, true, false)), (String ((Ascii (true,
    false, true, false, false, true, true, false)), (String ((Ascii (false,
    true, true, true, false, true, true, false)), (String ((Ascii (false,
    false, false, true, false, true, false, false)), (String ((Ascii (true,
    true, false, false, true, true, true, false)), (String ((Ascii (true,
    false, true, false, false, true, true, false)), (String ((Ascii (true,
    true, false, false, false, true, true, false)), (String ((Ascii (false,
    true, false, false, true, true, true, false)), (String ((Ascii (true,
    false, true, false, false, true, true, false)), (String ((Ascii (false,
    false, true, false, true, true, true, false)), (String ((Ascii (true,
    false, false, true, false, true, false, false)),
    EmptyString)))))))))))))))))))))); gop = OpEQ; glit = Z0 } :: [])))

(** val sW_Packet_Encode : z list list list **)

let sW_Packet_Encode =
  (((Zpos XH) :: ((Zpos (XO (XO (XI XH)))) :: [])) :: (((Zpos (XO
    XH)) :: ((Zpos (XI XH)) :: ((Zpos (XO (XO XH))) :: ((Zpos (XI (XO
    XH))) :: ((Zpos (XI (XI (XO XH)))) :: ((Zpos (XO (XO (XO (XI (XO
    XH)))))) :: ((Zpos (XI (XO (XO (XI (XO XH)))))) :: ((Zpos (XO (XI (XO (XI
    (XO XH)))))) :: ((Zpos (XI (XI (XO (XI (XO XH)))))) :: ((Zpos (XO (XO (XI
    (XI (XO XH)))))) :: ((Zpos (XI (XO (XI (XI (XO
    XH)))))) :: []))))))))))) :: ([] :: []))) :: ((((Zpos (XO (XO
    XH))) :: ((Zpos (XO (XO (XO (XI (XO XH)))))) :: ((Zpos (XI (XI (XO (XI
    (XO XH)))))) :: []))) :: ([] :: [])) :: [])

(** val g_Packet_MarshalBinary : guard list **)

let g_Packet_MarshalBinary =
  { gexpr = (String ((Ascii (false, true, false, false, true, true, false,
    false)), (String ((Ascii (false, false, false, false, true, true, false,
    false)), (String ((Ascii (false, false, false, false, false, true, false,
    false)), (String ((Ascii (true, true, false, true, false, true, false,
    false)), (String ((Ascii (false, false, false, false, false, true, false,
    false)), (String ((Ascii (true, false, false, false, false, true, true,
    false)), (String ((Ascii (false, false, true, false, true, true, true,
    false)), (String ((Ascii (false, false, true, false, true, true, true,
    false)), (String ((Ascii (false, true, false, false, true, true, true,
    false)), (String ((Ascii (true, false, false, true, false, true, true,
    false)), (String ((Ascii (false, true, false, false, false, true, true,
    false)), (String ((Ascii (true, false, true, false, true, true, true,
    false)), (String ((Ascii (false, false, true, false, true, true, true,
    false)), (String ((Ascii (true, false, true, false, false, true, true,
    false)), (String ((Ascii (true, true, false, false, true, true, true,
    false)), (String ((Ascii (false, false, true, true, false, false, true,
    false)), (String ((Ascii (true, false, true, false, false, true, true,
    false)), (String ((Ascii (false, true, true, true, false, true, true,
    false)), EmptyString)))))))))))))))))))))))))))))))))))); gop = OpGT;
    glit = (Zpos (XO (XO (XO (XO (XO (XO (XO (XO (XO (XO (XO (XO
    XH))))))))))))) } :: []

(** val g_Parse : guard list **)

let g_Parse =
  { gexpr = (String ((Ascii (false, false, true, true, false, true, true,
    false)), (String ((Ascii (true, false, true, false, false, true, true,
    false)), (String ((Ascii (false, true, true, true, false, true, true,
    false)), (String ((Ascii (false, false, false, true, false, true, false,
    false)), (String ((Ascii (false, false, true, false, false, true, false,
    false)), (String ((Ascii (false, false, false, false, true, true, false,
    false)), (String ((Ascii (true, false, false, true, false, true, false,
    false)), EmptyString)))))))))))))); gop = OpLT; glit = (Zpos (XO (XO (XI
    (XO XH))))) } :: ({ gexpr = (String ((Ascii (true, false, false, true,
    false, true, true, false)), (String ((Ascii (false, true, true, true,
    false, true, true, false)), (String ((Ascii (false, false, true, false,
    true, true, true, false)), (String ((Ascii (false, false, false, true,
    false, true, false, false)), (String ((Ascii (false, true, false, false,
    false, true, true, false)), (String ((Ascii (true, false, false, true,
    false, true, true, false)), (String ((Ascii (false, true, true, true,
    false, true, true, false)), (String ((Ascii (true, false, false, false,
    false, true, true, false)), (String ((Ascii (false, true, false, false,
    true, true, true, false)), (String ((Ascii (true, false, false, true,
    true, true, true, false)), (String ((Ascii (false, true, true, true,
    false, true, false, false)), (String ((Ascii (false, true, false, false,
    false, false, true, false)), (String ((Ascii (true, false, false, true,
    false, true, true, false)), (String ((Ascii (true, true, true, false,
    false, true, true, false)), (String ((Ascii (true, false, true, false,
    false, false, true, false)), (String ((Ascii (false, true, true, true,
    false, true, true, false)), (String ((Ascii (false, false, true, false,
    false, true, true, false)), (String ((Ascii (true, false, false, true,
    false, true, true, false)), (String ((Ascii (true, false, false, false,
    false, true, true, false)), (String ((Ascii (false, true, true, true,
    false, true, true, false)), (String ((Ascii (false, true, true, true,
    false, true, false, false)), (String ((Ascii (true, false, true, false,
    true, false, true, false)), (String ((Ascii (true, false, false, true,
    false, true, true, false)), (String ((Ascii (false, true, true, true,
    false, true, true, false)), (String ((Ascii (false, false, true, false,
    true, true, true, false)), (String ((Ascii (true, false, false, false,
    true, true, false, false)), (String ((Ascii (false, true, true, false,
    true, true, false, false)), (String ((Ascii (false, false, false, true,
    false, true, false, false)), (String ((Ascii (false, false, true, false,
    false, true, false, false)), (String ((Ascii (false, false, false, false,
    true, true, false, false)), (String ((Ascii (true, true, false, true,
    true, false, true, false)), (String ((Ascii (false, true, false, false,
    true, true, false, false)), (String ((Ascii (false, true, false, true,
    true, true, false, false)), (String ((Ascii (false, false, true, false,
    true, true, false, false)), (String ((Ascii (true, false, true, true,
    true, false, true, false)), (String ((Ascii (true, false, false, true,
    false, true, false, false)), (String ((Ascii (true, false, false, true,
    false, true, false, false)),
    EmptyString))))))))))))))))))))))))))))))))))))))))))))))))))))))))))))))))))))))))));
    gop = OpLT; glit = (Zpos (XO (XO (XI (XO XH))))) } :: ({ gexpr = (String
    ((Ascii (true, false, false, true, false, true, true, false)), (String
    ((Ascii (false, true, true, true, false, true, true, false)), (String
    ((Ascii (false, false, true, false, true, true, true, false)), (String
    ((Ascii (false, false, false, true, false, true, false, false)), (String
    ((Ascii (false, true, false, false, false, true, true, false)), (String
    ((Ascii (true, false, false, true, false, true, true, false)), (String
    ((Ascii (false, true, true, true, false, true, true, false)), (String
    ((Ascii (true, false, false, false, false, true, true, false)), (String
    ((Ascii (false, true, false, false, true, true, true, false)), (String
    ((Ascii (true, false, false, true, true, true, true, false)), (String
    ((Ascii (false, true, true, true, false, true, false, false)), (String
    ((Ascii (false, true, false, false, false, false, true, false)), (String
    ((Ascii (true, false, false, true, false, true, true, false)), (String
    ((Ascii (true, true, true, false, false, true, true, false)), (String
    ((Ascii (true, false, true, false, false, false, true, false)), (String
    ((Ascii (false, true, true, true, false, true, true, false)), (String
    ((Ascii (false, false, true, false, false, true, true, false)), (String
    ((Ascii (true, false, false, true, false, true, true, false)), (String
    ((Ascii (true, false, false, false, false, true, true, false)), (String
    ((Ascii (false, true, true, true, false, true, true, false)), (String
    ((Ascii (false, true, true, true, false, true, false, false)), (String
    ((Ascii (true, false, true, false, true, false, true, false)), (String
    ((Ascii (true, false, false, true, false, true, true, false)), (String
    ((Ascii (false, true, true, true, false, true, true, false)), (String
    ((Ascii (false, false, true, false, true, true, true, false)), (String
    ((Ascii (true, false, false, false, true, true, false, false)), (String
    ((Ascii (false, true, true, false, true, true, false, false)), (String
    ((Ascii (false, false, false, true, false, true, false, false)), (String
    ((Ascii (false, false, true, false, false, true, false, false)), (String
    ((Ascii (false, false, false, false, true, true, false, false)), (String
    ((Ascii (true, true, false, true, true, false, true, false)), (String
    ((Ascii (false, true, false, false, true, true, false, false)), (String
    ((Ascii (false, true, false, true, true, true, false, false)), (String
    ((Ascii (false, false, true, false, true, true, false, false)), (String
    ((Ascii (true, false, true, true, true, false, true, false)), (String
    ((Ascii (true, false, false, true, false, true, false, false)), (String
    ((Ascii (true, false, false, true, false, true, false, false)),
    EmptyString))))))))))))))))))))))))))))))))))))))))))))))))))))))))))))))))))))))))));
    gop = OpGT; glit = (Zpos (XO (XO (XO (XO (XO (XO (XO (XO (XO (XO (XO (XO
    XH))))))))))))) } :: []))

(** val g_ParseAttributes : guard list **)

let g_ParseAttributes =
  { gexpr = (String ((Ascii (false, false, true, true, false, true, true,
    false)), (String ((Ascii (true, false, true, false, false, true, true,
    false)), (String ((Ascii (false, true, true, true, false, true, true,
    false)), (String ((Ascii (false, false, false, true, false, true, false,
    false)), (String ((Ascii (false, false, true, false, false, true, false,
    false)), (String ((Ascii (false, false, false, false, true, true, false,
    false)), (String ((Ascii (true, false, false, true, false, true, false,
    false)), EmptyString)))))))))))))); gop = OpGT; glit = Z0 } :: ({ gexpr =
    (String ((Ascii (false, false, true, true, false, true, true, false)),
    (String ((Ascii (true, false, true, false, false, true, true, false)),
    (String ((Ascii (false, true, true, true, false, true, true, false)),
    (String ((Ascii (false, false, false, true, false, true, false, false)),
    (String ((Ascii (false, false, true, false, false, true, false, false)),
    (String ((Ascii (false, false, false, false, true, true, false, false)),
    (String ((Ascii (true, false, false, true, false, true, false, false)),
    EmptyString)))))))))))))); gop = OpLT; glit = (Zpos (XO
    XH)) } :: ({ gexpr = (String ((Ascii (true, false, false, true, false,
    true, true, false)), (String ((Ascii (false, true, true, true, false,
    true, true, false)), (String ((Ascii (false, false, true, false, true,
    true, true, false)), (String ((Ascii (false, false, false, true, false,
    true, false, false)), (String ((Ascii (false, false, true, false, false,
    true, false, false)), (String ((Ascii (false, false, false, false, true,
    true, false, false)), (String ((Ascii (true, true, false, true, true,
    false, true, false)), (String ((Ascii (true, false, false, false, true,
    true, false, false)), (String ((Ascii (true, false, true, true, true,
    false, true, false)), (String ((Ascii (true, false, false, true, false,
    true, false, false)), EmptyString)))))))))))))))))))); gop = OpLT; glit =
    (Zpos (XO XH)) } :: ({ gexpr = (String ((Ascii (true, false, false, true,
    false, true, true, false)), (String ((Ascii (false, true, true, true,
    false, true, true, false)), (String ((Ascii (false, false, true, false,
    true, true, true, false)), (String ((Ascii (false, false, false, true,
    false, true, false, false)), (String ((Ascii (false, false, true, false,
    false, true, false, false)), (String ((Ascii (false, false, false, false,
    true, true, false, false)), (String ((Ascii (true, true, false, true,
    true, false, true, false)), (String ((Ascii (true, false, false, false,
    true, true, false, false)), (String ((Ascii (true, false, true, true,
    true, false, true, false)), (String ((Ascii (true, false, false, true,
    false, true, false, false)), EmptyString)))))))))))))))))))); gop = OpGT;
    glit = (Zpos (XI (XI (XI (XI (XI (XI (XI XH)))))))) } :: ({ gexpr =
    (String ((Ascii (true, false, false, true, false, true, true, false)),
    (String ((Ascii (false, true, true, true, false, true, true, false)),
    (String ((Ascii (false, false, true, false, true, true, true, false)),
    (String ((Ascii (false, false, false, true, false, true, false, false)),
    (String ((Ascii (false, false, true, false, false, true, false, false)),
    (String ((Ascii (false, false, false, false, true, true, false, false)),
    (String ((Ascii (true, true, false, true, true, false, true, false)),
    (String ((Ascii (true, false, false, false, true, true, false, false)),
    (String ((Ascii (true, false, true, true, true, false, true, false)),
    (String ((Ascii (true, false, false, true, false, true, false, false)),
    EmptyString)))))))))))))))))))); gop = OpGT; glit = (Zpos (XO
    XH)) } :: []))))

(** val g_Short : guard list **)

let g_Short =
  { gexpr = (String ((Ascii (false, false, true, true, false, true, true,
    false)), (String ((Ascii (true, false, true, false, false, true, true,
    false)), (String ((Ascii (false, true, true, true, false, true, true,
    false)), (String ((Ascii (false, false, false, true, false, true, false,
    false)), (String ((Ascii (false, false, true, false, false, true, false,
    false)), (String ((Ascii (false, false, false, false, true, true, false,
    false)), (String ((Ascii (true, false, false, true, false, true, false,
    false)), EmptyString)))))))))))))); gop = OpNE; glit = (Zpos (XO
    XH)) } :: []

(** val g_TLV : guard list **)

let g_TLV =
  { gexpr = (String ((Ascii (false, false, true, true, false, true, true,
    false)), (String ((Ascii (true, false, true, false, false, true, true,
    false)), (String ((Ascii (false, true, true, true, false, true, true,
    false)), (String ((Ascii (false, false, false, true, false, true, false,
    false)), (String ((Ascii (false, false, true, false, false, true, false,
    false)), (String ((Ascii (false, false, false, false, true, true, false,
    false)), (String ((Ascii (true, false, false, true, false, true, false,
    false)), EmptyString)))))))))))))); gop = OpLT; glit = (Zpos (XI
    XH)) } :: ({ gexpr = (String ((Ascii (false, false, true, true, false,
    true, true, false)), (String ((Ascii (true, false, true, false, false,
    true, true, false)), (String ((Ascii (false, true, true, true, false,
    true, true, false)), (String ((Ascii (false, false, false, true, false,
    true, false, false)), (String ((Ascii (false, false, true, false, false,
    true, false, false)), (String ((Ascii (false, false, false, false, true,
    true, false, false)), (String ((Ascii (true, false, false, true, false,
    true, false, false)), EmptyString)))))))))))))); gop = OpGT; glit = (Zpos
    (XI (XI (XI (XI (XI (XI (XI XH)))))))) } :: [])

(** val g_TunnelPassword : guard list **)

let g_TunnelPassword =
  { gexpr = (String ((Ascii (false, false, true, true, false, true, true,
    false)), (String ((Ascii (true, false, true, false, false, true, true,
    false)), (String ((Ascii (false, true, true, true, false, true, true,
    false)), (String ((Ascii (false, false, false, true, false, true, false,
    false)), (String ((Ascii (false, false, true, false, false, true, false,
    false)), (String ((Ascii (false, false, false, false, true, true, false,
    false)), (String ((Ascii (true, false, false, true, false, true, false,
    false)), EmptyString)))))))))))))); gop = OpGT; glit = (Zpos (XO (XO (XI
    (XI (XI (XI (XI XH)))))))) } :: ({ gexpr = (String ((Ascii (false, false,
    true, true, false, true, true, false)), (String ((Ascii (true, false,
    true, false, false, true, true, false)), (String ((Ascii (false, true,
    true, true, false, true, true, false)), (String ((Ascii (false, false,
    false, true, false, true, false, false)), (String ((Ascii (false, false,
    true, false, false, true, false, false)), (String ((Ascii (false, false,
    false, false, true, true, false, false)), (String ((Ascii (true, false,
    false, true, false, true, false, false)), EmptyString))))))))))))));
    gop = OpLT; glit = (Zpos (XO (XI (XO (XO XH))))) } :: ({ gexpr = (String
    ((Ascii (false, false, false, true, false, true, false, false)), (String
    ((Ascii (false, false, true, true, false, true, true, false)), (String
    ((Ascii (true, false, true, false, false, true, true, false)), (String
    ((Ascii (false, true, true, true, false, true, true, false)), (String
    ((Ascii (false, false, false, true, false, true, false, false)), (String
    ((Ascii (false, false, true, false, false, true, false, false)), (String
    ((Ascii (false, false, false, false, true, true, false, false)), (String
    ((Ascii (true, false, false, true, false, true, false, false)), (String
    ((Ascii (false, false, false, false, false, true, false, false)), (String
    ((Ascii (true, false, true, true, false, true, false, false)), (String
    ((Ascii (false, false, false, false, false, true, false, false)), (String
    ((Ascii (false, true, false, false, true, true, false, false)), (String
    ((Ascii (true, false, false, true, false, true, false, false)), (String
    ((Ascii (false, false, false, false, false, true, false, false)), (String
    ((Ascii (true, false, true, false, false, true, false, false)), (String
    ((Ascii (false, false, false, false, false, true, false, false)), (String
    ((Ascii (true, false, false, false, true, true, false, false)), (String
    ((Ascii (false, true, true, false, true, true, false, false)),
    EmptyString)))))))))))))))))))))))))))))))))))); gop = OpNE; glit =
    Z0 } :: ({ gexpr = (String ((Ascii (false, false, true, true, false,
    true, true, false)), (String ((Ascii (true, false, true, false, false,
    true, true, false)), (String ((Ascii (false, true, true, true, false,
    true, true, false)), (String ((Ascii (false, false, false, true, false,
    true, false, false)), (String ((Ascii (false, false, true, false, false,
    true, false, false)), (String ((Ascii (true, false, false, false, true,
    true, false, false)), (String ((Ascii (true, false, false, true, false,
    true, false, false)), EmptyString)))))))))))))); gop = OpEQ; glit =
    Z0 } :: ({ gexpr = (String ((Ascii (false, false, true, true, false,
    true, true, false)), (String ((Ascii (true, false, true, false, false,
    true, true, false)), (String ((Ascii (false, true, true, true, false,
    true, true, false)), (String ((Ascii (false, false, false, true, false,
    true, false, false)), (String ((Ascii (false, false, true, false, false,
    true, false, false)), (String ((Ascii (false, true, false, false, true,
    true, false, false)), (String ((Ascii (true, false, false, true, false,
    true, false, false)), EmptyString)))))))))))))); gop = OpNE; glit = (Zpos
    (XO (XO (XO (XO XH))))) } :: ({ gexpr = (String ((Ascii (false, false,
    true, false, false, true, false, false)), (String ((Ascii (false, false,
    false, false, true, true, false, false)), (String ((Ascii (true, true,
    false, true, true, false, true, false)), (String ((Ascii (false, false,
    false, false, true, true, false, false)), (String ((Ascii (true, false,
    true, true, true, false, true, false)), (String ((Ascii (false, false,
    false, false, false, true, false, false)), (String ((Ascii (false, true,
    true, false, false, true, false, false)), (String ((Ascii (false, false,
    false, false, false, true, false, false)), (String ((Ascii (false, false,
    false, false, true, true, false, false)), (String ((Ascii (false, false,
    false, true, true, true, true, false)), (String ((Ascii (false, false,
    false, true, true, true, false, false)), (String ((Ascii (false, false,
    false, false, true, true, false, false)),
    EmptyString)))))))))))))))))))))))); gop = OpNE; glit = (Zpos (XO (XO (XO
    (XO (XO (XO (XO XH)))))))) } :: ({ gexpr = (String ((Ascii (true, true,
    false, false, false, true, true, false)), (String ((Ascii (false, false,
    false, true, false, true, true, false)), (String ((Ascii (true, false,
    true, false, true, true, true, false)), (String ((Ascii (false, true,
    true, true, false, true, true, false)), (String ((Ascii (true, true,
    false, true, false, true, true, false)), EmptyString)))))))))); gop =
    OpEQ; glit = Z0 } :: ({ gexpr = (String ((Ascii (true, false, false,
    true, false, true, true, false)), EmptyString)); gop = OpLT; glit = (Zpos
    (XO (XO (XO (XO XH))))) } :: [])))))))

(** val g_UserPassword : guard list **)

let g_UserPassword =
  { gexpr = (String ((Ascii (false, false, true, true, false, true, true,
    false)), (String ((Ascii (true, false, true, false, false, true, true,
    false)), (String ((Ascii (false, true, true, true, false, true, true,
    false)), (String ((Ascii (false, false, false, true, false, true, false,
    false)), (String ((Ascii (false, false, true, false, false, true, false,
    false)), (String ((Ascii (false, false, false, false, true, true, false,
    false)), (String ((Ascii (true, false, false, true, false, true, false,
    false)), EmptyString)))))))))))))); gop = OpLT; glit = (Zpos (XO (XO (XO
    (XO XH))))) } :: ({ gexpr = (String ((Ascii (false, false, true, true,
    false, true, true, false)), (String ((Ascii (true, false, true, false,
    false, true, true, false)), (String ((Ascii (false, true, true, true,
    false, true, true, false)), (String ((Ascii (false, false, false, true,
    false, true, false, false)), (String ((Ascii (false, false, true, false,
    false, true, false, false)), (String ((Ascii (false, false, false, false,
    true, true, false, false)), (String ((Ascii (true, false, false, true,
    false, true, false, false)), EmptyString)))))))))))))); gop = OpGT;
    glit = (Zpos (XO (XO (XO (XO (XO (XO (XO XH)))))))) } :: ({ gexpr =
    (String ((Ascii (false, false, true, true, false, true, true, false)),
    (String ((Ascii (true, false, true, false, false, true, true, false)),
    (String ((Ascii (false, true, true, true, false, true, true, false)),
    (String ((Ascii (false, false, false, true, false, true, false, false)),
    (String ((Ascii (false, false, true, false, false, true, false, false)),
    (String ((Ascii (false, false, false, false, true, true, false, false)),
    (String ((Ascii (true, false, false, true, false, true, false, false)),
    (String ((Ascii (false, false, false, false, false, true, false, false)),
    (String ((Ascii (true, false, true, false, false, true, false, false)),
    (String ((Ascii (false, false, false, false, false, true, false, false)),
    (String ((Ascii (true, false, false, false, true, true, false, false)),
    (String ((Ascii (false, true, true, false, true, true, false, false)),
    EmptyString)))))))))))))))))))))))); gop = OpNE; glit =
    Z0 } :: ({ gexpr = (String ((Ascii (false, false, true, true, false,
    true, true, false)), (String ((Ascii (true, false, true, false, false,
    true, true, false)), (String ((Ascii (false, true, true, true, false,
    true, true, false)), (String ((Ascii (false, false, false, true, false,
    true, false, false)), (String ((Ascii (false, false, true, false, false,
    true, false, false)), (String ((Ascii (true, false, false, false, true,
    true, false, false)), (String ((Ascii (true, false, false, true, false,
    true, false, false)), EmptyString)))))))))))))); gop = OpEQ; glit =
    Z0 } :: ({ gexpr = (String ((Ascii (false, false, true, true, false,
    true, true, false)), (String ((Ascii (true, false, true, false, false,
    true, true, false)), (String ((Ascii (false, true, true, true, false,
    true, true, false)), (String ((Ascii (false, false, false, true, false,
    true, false, false)), (String ((Ascii (false, false, true, false, false,
    true, false, false)), (String ((Ascii (false, true, false, false, true,
    true, false, false)), (String ((Ascii (true, false, false, true, false,
    true, false, false)), EmptyString)))))))))))))); gop = OpNE; glit = (Zpos
    (XO (XO (XO (XO XH))))) } :: ({ gexpr = (String ((Ascii (true, false,
    false, true, false, true, true, false)), EmptyString)); gop = OpGT;
    glit = (Zneg XH) } :: [])))))

(** val g_VendorSpecific : guard list **)

let g_VendorSpecific =
  { gexpr = (String ((Ascii (false, false, true, true, false, true, true,
    false)), (String ((Ascii (true, false, true, false, false, true, true,
    false)), (String ((Ascii (false, true, true, true, false, true, true,
    false)), (String ((Ascii (false, false, false, true, false, true, false,
    false)), (String ((Ascii (false, false, true, false, false, true, false,
    false)), (String ((Ascii (false, false, false, false, true, true, false,
    false)), (String ((Ascii (true, false, false, true, false, true, false,
    false)), EmptyString)))))))))))))); gop = OpLT; glit = (Zpos (XI (XO
    XH))) } :: []

(** val b_rfc2759_magic1 : n list **)

let b_rfc2759_magic1 =
  (Npos (XI (XO (XI (XI (XO (XO XH))))))) :: ((Npos (XI (XO (XO (XO (XO (XI
    XH))))))) :: ((Npos (XI (XI (XI (XO (XO (XI XH))))))) :: ((Npos (XI (XO
    (XO (XI (XO (XI XH))))))) :: ((Npos (XI (XI (XO (XO (XO (XI
    XH))))))) :: ((Npos (XO (XO (XO (XO (XO XH)))))) :: ((Npos (XI (XI (XO
    (XO (XI (XI XH))))))) :: ((Npos (XI (XO (XI (XO (XO (XI
    XH))))))) :: ((Npos (XO (XI (XO (XO (XI (XI XH))))))) :: ((Npos (XO (XI
    (XI (XO (XI (XI XH))))))) :: ((Npos (XI (XO (XI (XO (XO (XI
    XH))))))) :: ((Npos (XO (XI (XO (XO (XI (XI XH))))))) :: ((Npos (XO (XO
    (XO (XO (XO XH)))))) :: ((Npos (XO (XO (XI (XO (XI (XI
    XH))))))) :: ((Npos (XI (XI (XI (XI (XO (XI XH))))))) :: ((Npos (XO (XO
    (XO (XO (XO XH)))))) :: ((Npos (XI (XI (XO (XO (XO (XI
    XH))))))) :: ((Npos (XO (XO (XI (XI (XO (XI XH))))))) :: ((Npos (XI (XO
    (XO (XI (XO (XI XH))))))) :: ((Npos (XI (XO (XI (XO (XO (XI
    XH))))))) :: ((Npos (XO (XI (XI (XI (XO (XI XH))))))) :: ((Npos (XO (XO
    (XI (XO (XI (XI XH))))))) :: ((Npos (XO (XO (XO (XO (XO
    XH)))))) :: ((Npos (XI (XI (XO (XO (XI (XI XH))))))) :: ((Npos (XI (XO
    (XO (XI (XO (XI XH))))))) :: ((Npos (XI (XI (XI (XO (XO (XI
    XH))))))) :: ((Npos (XO (XI (XI (XI (XO (XI XH))))))) :: ((Npos (XI (XO
    (XO (XI (XO (XI XH))))))) :: ((Npos (XO (XI (XI (XI (XO (XI
    XH))))))) :: ((Npos (XI (XI (XI (XO (XO (XI XH))))))) :: ((Npos (XO (XO
    (XO (XO (XO XH)))))) :: ((Npos (XI (XI (XO (XO (XO (XI
    XH))))))) :: ((Npos (XI (XI (XI (XI (XO (XI XH))))))) :: ((Npos (XO (XI
    (XI (XI (XO (XI XH))))))) :: ((Npos (XI (XI (XO (XO (XI (XI
    XH))))))) :: ((Npos (XO (XO (XI (XO (XI (XI XH))))))) :: ((Npos (XI (XO
    (XO (XO (XO (XI XH))))))) :: ((Npos (XO (XI (XI (XI (XO (XI
    XH))))))) :: ((Npos (XO (XO (XI (XO (XI (XI
    XH))))))) :: []))))))))))))))))))))))))))))))))))))))

(** val b_rfc2759_magic2 : n list **)

let b_rfc2759_magic2 =
  (Npos (XO (XO (XO (XO (XI (XO XH))))))) :: ((Npos (XI (XO (XO (XO (XO (XI
    XH))))))) :: ((Npos (XO (XO (XI (XO (XO (XI XH))))))) :: ((Npos (XO (XO
    (XO (XO (XO XH)))))) :: ((Npos (XO (XO (XI (XO (XI (XI
    XH))))))) :: ((Npos (XI (XI (XI (XI (XO (XI XH))))))) :: ((Npos (XO (XO
    (XO (XO (XO XH)))))) :: ((Npos (XI (XO (XI (XI (XO (XI
    XH))))))) :: ((Npos (XI (XO (XO (XO (XO (XI XH))))))) :: ((Npos (XI (XI
    (XO (XI (XO (XI XH))))))) :: ((Npos (XI (XO (XI (XO (XO (XI
    XH))))))) :: ((Npos (XO (XO (XO (XO (XO XH)))))) :: ((Npos (XI (XO (XO
    (XI (XO (XI XH))))))) :: ((Npos (XO (XO (XI (XO (XI (XI
    XH))))))) :: ((Npos (XO (XO (XO (XO (XO XH)))))) :: ((Npos (XO (XO (XI
    (XO (XO (XI XH))))))) :: ((Npos (XI (XI (XI (XI (XO (XI
    XH))))))) :: ((Npos (XO (XO (XO (XO (XO XH)))))) :: ((Npos (XI (XO (XI
    (XI (XO (XI XH))))))) :: ((Npos (XI (XI (XI (XI (XO (XI
    XH))))))) :: ((Npos (XO (XI (XO (XO (XI (XI XH))))))) :: ((Npos (XI (XO
    (XI (XO (XO (XI XH))))))) :: ((Npos (XO (XO (XO (XO (XO
    XH)))))) :: ((Npos (XO (XO (XI (XO (XI (XI XH))))))) :: ((Npos (XO (XO
    (XO (XI (XO (XI XH))))))) :: ((Npos (XI (XO (XO (XO (XO (XI
    XH))))))) :: ((Npos (XO (XI (XI (XI (XO (XI XH))))))) :: ((Npos (XO (XO
    (XO (XO (XO XH)))))) :: ((Npos (XI (XI (XI (XI (XO (XI
    XH))))))) :: ((Npos (XO (XI (XI (XI (XO (XI XH))))))) :: ((Npos (XI (XO
    (XI (XO (XO (XI XH))))))) :: ((Npos (XO (XO (XO (XO (XO
    XH)))))) :: ((Npos (XI (XO (XO (XI (XO (XI XH))))))) :: ((Npos (XO (XO
    (XI (XO (XI (XI XH))))))) :: ((Npos (XI (XO (XI (XO (XO (XI
    XH))))))) :: ((Npos (XO (XI (XO (XO (XI (XI XH))))))) :: ((Npos (XI (XO
    (XO (XO (XO (XI XH))))))) :: ((Npos (XO (XO (XI (XO (XI (XI
    XH))))))) :: ((Npos (XI (XO (XO (XI (XO (XI XH))))))) :: ((Npos (XI (XI
    (XI (XI (XO (XI XH))))))) :: ((Npos (XO (XI (XI (XI (XO (XI
    XH))))))) :: []))))))))))))))))))))))))))))))))))))))))

(** val g_rfc2759_DESCrypt : guard list **)

let g_rfc2759_DESCrypt =
  { gexpr = (String ((Ascii (false, false, true, true, false, true, true,
    false)), (String ((Ascii (true, false, true, false, false, true, true,
    false)), (String ((Ascii (false, true, true, true, false, true, true,
    false)), (String ((Ascii (false, false, false, true, false, true, false,
    false)), (String ((Ascii (true, true, false, true, false, true, true,
    false)), (String ((Ascii (true, false, false, true, false, true, false,
    false)), EmptyString)))))))))))); gop = OpEQ; glit = (Zpos (XI (XI
    XH))) } :: []

(** val k_rfc3079_KeyLength128Bit : z **)

let k_rfc3079_KeyLength128Bit =
  Zpos (XO (XO (XO (XO XH))))

(** val b_rfc3079_shaPad1 : n list **)

let b_rfc3079_shaPad1 =
  N0 :: (N0 :: (N0 :: (N0 :: (N0 :: (N0 :: (N0 :: (N0 :: (N0 :: (N0 :: (N0 :: (N0 :: (N0 :: (N0 :: (N0 :: (N0 :: (N0 :: (N0 :: (N0 :: (N0 :: (N0 :: (N0 :: (N0 :: (N0 :: (N0 :: (N0 :: (N0 :: (N0 :: (N0 :: (N0 :: (N0 :: (N0 :: (N0 :: (N0 :: (N0 :: (N0 :: (N0 :: (N0 :: (N0 :: (N0 :: [])))))))))))))))))))))))))))))))))))))))

(** val b_rfc3079_shaPad2 : n list **)

let b_rfc3079_shaPad2 =
  (Npos (XO (XI (XO (XO (XI (XI (XI XH)))))))) :: ((Npos (XO (XI (XO (XO (XI
    (XI (XI XH)))))))) :: ((Npos (XO (XI (XO (XO (XI (XI (XI
    XH)))))))) :: ((Npos (XO (XI (XO (XO (XI (XI (XI XH)))))))) :: ((Npos (XO
    (XI (XO (XO (XI (XI (XI XH)))))))) :: ((Npos (XO (XI (XO (XO (XI (XI (XI
    XH)))))))) :: ((Npos (XO (XI (XO (XO (XI (XI (XI XH)))))))) :: ((Npos (XO
    (XI (XO (XO (XI (XI (XI XH)))))))) :: ((Npos (XO (XI (XO (XO (XI (XI (XI
    XH)))))))) :: ((Npos (XO (XI (XO (XO (XI (XI (XI XH)))))))) :: ((Npos (XO
    (XI (XO (XO (XI (XI (XI XH)))))))) :: ((Npos (XO (XI (XO (XO (XI (XI (XI
    XH)))))))) :: ((Npos (XO (XI (XO (XO (XI (XI (XI XH)))))))) :: ((Npos (XO
    (XI (XO (XO (XI (XI (XI XH)))))))) :: ((Npos (XO (XI (XO (XO (XI (XI (XI
    XH)))))))) :: ((Npos (XO (XI (XO (XO (XI (XI (XI XH)))))))) :: ((Npos (XO
    (XI (XO (XO (XI (XI (XI XH)))))))) :: ((Npos (XO (XI (XO (XO (XI (XI (XI
    XH)))))))) :: ((Npos (XO (XI (XO (XO (XI (XI (XI XH)))))))) :: ((Npos (XO
    (XI (XO (XO (XI (XI (XI XH)))))))) :: ((Npos (XO (XI (XO (XO (XI (XI (XI
    XH)))))))) :: ((Npos (XO (XI (XO (XO (XI (XI (XI XH)))))))) :: ((Npos (XO
    (XI (XO (XO (XI (XI (XI XH)))))))) :: ((Npos (XO (XI (XO (XO (XI (XI (XI
    XH)))))))) :: ((Npos (XO (XI (XO (XO (XI (XI (XI XH)))))))) :: ((Npos (XO
    (XI (XO (XO (XI (XI (XI XH)))))))) :: ((Npos (XO (XI (XO (XO (XI (XI (XI
    XH)))))))) :: ((Npos (XO (XI (XO (XO (XI (XI (XI XH)))))))) :: ((Npos (XO
    (XI (XO (XO (XI (XI (XI XH)))))))) :: ((Npos (XO (XI (XO (XO (XI (XI (XI
    XH)))))))) :: ((Npos (XO (XI (XO (XO (XI (XI (XI XH)))))))) :: ((Npos (XO
    (XI (XO (XO (XI (XI (XI XH)))))))) :: ((Npos (XO (XI (XO (XO (XI (XI (XI
    XH)))))))) :: ((Npos (XO (XI (XO (XO (XI (XI (XI XH)))))))) :: ((Npos (XO
    (XI (XO (XO (XI (XI (XI XH)))))))) :: ((Npos (XO (XI (XO (XO (XI (XI (XI
    XH)))))))) :: ((Npos (XO (XI (XO (XO (XI (XI (XI XH)))))))) :: ((Npos (XO
    (XI (XO (XO (XI (XI (XI XH)))))))) :: ((Npos (XO (XI (XO (XO (XI (XI (XI
    XH)))))))) :: ((Npos (XO (XI (XO (XO (XI (XI (XI
    XH)))))))) :: [])))))))))))))))))))))))))))))))))))))))

(** val b_rfc3079_magic1 : n list **)

let b_rfc3079_magic1 =
  (Npos (XO (XO (XI (XO (XI (XO XH))))))) :: ((Npos (XO (XO (XO (XI (XO (XI
    XH))))))) :: ((Npos (XI (XO (XO (XI (XO (XI XH))))))) :: ((Npos (XI (XI
    (XO (XO (XI (XI XH))))))) :: ((Npos (XO (XO (XO (XO (XO
    XH)))))) :: ((Npos (XI (XO (XO (XI (XO (XI XH))))))) :: ((Npos (XI (XI
    (XO (XO (XI (XI XH))))))) :: ((Npos (XO (XO (XO (XO (XO
    XH)))))) :: ((Npos (XO (XO (XI (XO (XI (XI XH))))))) :: ((Npos (XO (XO
    (XO (XI (XO (XI XH))))))) :: ((Npos (XI (XO (XI (XO (XO (XI
    XH))))))) :: ((Npos (XO (XO (XO (XO (XO XH)))))) :: ((Npos (XI (XO (XI
    (XI (XO (XO XH))))))) :: ((Npos (XO (XO (XO (XO (XI (XO
    XH))))))) :: ((Npos (XO (XO (XO (XO (XI (XO XH))))))) :: ((Npos (XI (XO
    (XI (XO (XO (XO XH))))))) :: ((Npos (XO (XO (XO (XO (XO
    XH)))))) :: ((Npos (XI (XO (XI (XI (XO (XO XH))))))) :: ((Npos (XI (XO
    (XO (XO (XO (XI XH))))))) :: ((Npos (XI (XI (XO (XO (XI (XI
    XH))))))) :: ((Npos (XO (XO (XI (XO (XI (XI XH))))))) :: ((Npos (XI (XO
    (XI (XO (XO (XI XH))))))) :: ((Npos (XO (XI (XO (XO (XI (XI
    XH))))))) :: ((Npos (XO (XO (XO (XO (XO XH)))))) :: ((Npos (XI (XI (XO
    (XI (XO (XO XH))))))) :: ((Npos (XI (XO (XI (XO (XO (XI
    XH))))))) :: ((Npos (XI (XO (XO (XI (XI (XI
    XH))))))) :: []))))))))))))))))))))))))))

(** val b_rfc3079_magic2 : n list **)

let b_rfc3079_magic2 =
  (Npos (XI (XI (XI (XI (XO (XO XH))))))) :: ((Npos (XO (XI (XI (XI (XO (XI
    XH))))))) :: ((Npos (XO (XO (XO (XO (XO XH)))))) :: ((Npos (XO (XO (XI
    (XO (XI (XI XH))))))) :: ((Npos (XO (XO (XO (XI (XO (XI
    XH))))))) :: ((Npos (XI (XO (XI (XO (XO (XI XH))))))) :: ((Npos (XO (XO
    (XO (XO (XO XH)))))) :: ((Npos (XI (XI (XO (XO (XO (XI
    XH))))))) :: ((Npos (XO (XO (XI (XI (XO (XI XH))))))) :: ((Npos (XI (XO
    (XO (XI (XO (XI XH))))))) :: ((Npos (XI (XO (XI (XO (XO (XI
    XH))))))) :: ((Npos (XO (XI (XI (XI (XO (XI XH))))))) :: ((Npos (XO (XO
    (XI (XO (XI (XI XH))))))) :: ((Npos (XO (XO (XO (XO (XO
    XH)))))) :: ((Npos (XI (XI (XO (XO (XI (XI XH))))))) :: ((Npos (XI (XO
    (XO (XI (XO (XI XH))))))) :: ((Npos (XO (XO (XI (XO (XO (XI
    XH))))))) :: ((Npos (XI (XO (XI (XO (XO (XI XH))))))) :: ((Npos (XO (XO
    (XI (XI (XO XH)))))) :: ((Npos (XO (XO (XO (XO (XO XH)))))) :: ((Npos (XO
    (XO (XI (XO (XI (XI XH))))))) :: ((Npos (XO (XO (XO (XI (XO (XI
    XH))))))) :: ((Npos (XI (XO (XO (XI (XO (XI XH))))))) :: ((Npos (XI (XI
    (XO (XO (XI (XI XH))))))) :: ((Npos (XO (XO (XO (XO (XO
    XH)))))) :: ((Npos (XI (XO (XO (XI (XO (XI XH))))))) :: ((Npos (XI (XI
    (XO (XO (XI (XI XH))))))) :: ((Npos (XO (XO (XO (XO (XO
    XH)))))) :: ((Npos (XO (XO (XI (XO (XI (XI XH))))))) :: ((Npos (XO (XO
    (XO (XI (XO (XI XH))))))) :: ((Npos (XI (XO (XI (XO (XO (XI
    XH))))))) :: ((Npos (XO (XO (XO (XO (XO XH)))))) :: ((Npos (XI (XI (XO
    (XO (XI (XI XH))))))) :: ((Npos (XI (XO (XI (XO (XO (XI
    XH))))))) :: ((Npos (XO (XI (XI (XI (XO (XI XH))))))) :: ((Npos (XO (XO
    (XI (XO (XO (XI XH))))))) :: ((Npos (XO (XO (XO (XO (XO
    XH)))))) :: ((Npos (XI (XI (XO (XI (XO (XI XH))))))) :: ((Npos (XI (XO
    (XI (XO (XO (XI XH))))))) :: ((Npos (XI (XO (XO (XI (XI (XI
    XH))))))) :: ((Npos (XI (XI (XO (XI (XI XH)))))) :: ((Npos (XO (XO (XO
    (XO (XO XH)))))) :: ((Npos (XI (XI (XI (XI (XO (XI XH))))))) :: ((Npos
    (XO (XI (XI (XI (XO (XI XH))))))) :: ((Npos (XO (XO (XO (XO (XO
    XH)))))) :: ((Npos (XO (XO (XI (XO (XI (XI XH))))))) :: ((Npos (XO (XO
    (XO (XI (XO (XI XH))))))) :: ((Npos (XI (XO (XI (XO (XO (XI
    XH))))))) :: ((Npos (XO (XO (XO (XO (XO XH)))))) :: ((Npos (XI (XI (XO
    (XO (XI (XI XH))))))) :: ((Npos (XI (XO (XI (XO (XO (XI
    XH))))))) :: ((Npos (XO (XI (XO (XO (XI (XI XH))))))) :: ((Npos (XO (XI
    (XI (XO (XI (XI XH))))))) :: ((Npos (XI (XO (XI (XO (XO (XI
    XH))))))) :: ((Npos (XO (XI (XO (XO (XI (XI XH))))))) :: ((Npos (XO (XO
    (XO (XO (XO XH)))))) :: ((Npos (XI (XI (XO (XO (XI (XI
    XH))))))) :: ((Npos (XI (XO (XO (XI (XO (XI XH))))))) :: ((Npos (XO (XO
    (XI (XO (XO (XI XH))))))) :: ((Npos (XI (XO (XI (XO (XO (XI
    XH))))))) :: ((Npos (XO (XO (XI (XI (XO XH)))))) :: ((Npos (XO (XO (XO
    (XO (XO XH)))))) :: ((Npos (XI (XO (XO (XI (XO (XI XH))))))) :: ((Npos
    (XO (XO (XI (XO (XI (XI XH))))))) :: ((Npos (XO (XO (XO (XO (XO
    XH)))))) :: ((Npos (XI (XO (XO (XI (XO (XI XH))))))) :: ((Npos (XI (XI
    (XO (XO (XI (XI XH))))))) :: ((Npos (XO (XO (XO (XO (XO
    XH)))))) :: ((Npos (XO (XO (XI (XO (XI (XI XH))))))) :: ((Npos (XO (XO
    (XO (XI (XO (XI XH))))))) :: ((Npos (XI (XO (XI (XO (XO (XI
    XH))))))) :: ((Npos (XO (XO (XO (XO (XO XH)))))) :: ((Npos (XO (XI (XO
    (XO (XI (XI XH))))))) :: ((Npos (XI (XO (XI (XO (XO (XI
    XH))))))) :: ((Npos (XI (XI (XO (XO (XO (XI XH))))))) :: ((Npos (XI (XO
    (XI (XO (XO (XI XH))))))) :: ((Npos (XI (XO (XO (XI (XO (XI
    XH))))))) :: ((Npos (XO (XI (XI (XO (XI (XI XH))))))) :: ((Npos (XI (XO
    (XI (XO (XO (XI XH))))))) :: ((Npos (XO (XO (XO (XO (XO
    XH)))))) :: ((Npos (XI (XI (XO (XI (XO (XI XH))))))) :: ((Npos (XI (XO
    (XI (XO (XO (XI XH))))))) :: ((Npos (XI (XO (XO (XI (XI (XI
    XH))))))) :: ((Npos (XO (XI (XI (XI (XO
    XH)))))) :: [])))))))))))))))))))))))))))))))))))))))))))))))))))))))))))))))))))))))))))))))))))

(** val b_rfc3079_magic3 : n list **)

let b_rfc3079_magic3 =
  (Npos (XI (XI (XI (XI (XO (XO XH))))))) :: ((Npos (XO (XI (XI (XI (XO (XI
    XH))))))) :: ((Npos (XO (XO (XO (XO (XO XH)))))) :: ((Npos (XO (XO (XI
    (XO (XI (XI XH))))))) :: ((Npos (XO (XO (XO (XI (XO (XI
    XH))))))) :: ((Npos (XI (XO (XI (XO (XO (XI XH))))))) :: ((Npos (XO (XO
    (XO (XO (XO XH)))))) :: ((Npos (XI (XI (XO (XO (XO (XI
    XH))))))) :: ((Npos (XO (XO (XI (XI (XO (XI XH))))))) :: ((Npos (XI (XO
    (XO (XI (XO (XI XH))))))) :: ((Npos (XI (XO (XI (XO (XO (XI
    XH))))))) :: ((Npos (XO (XI (XI (XI (XO (XI XH))))))) :: ((Npos (XO (XO
    (XI (XO (XI (XI XH))))))) :: ((Npos (XO (XO (XO (XO (XO
    XH)))))) :: ((Npos (XI (XI (XO (XO (XI (XI XH))))))) :: ((Npos (XI (XO
    (XO (XI (XO (XI XH))))))) :: ((Npos (XO (XO (XI (XO (XO (XI
    XH))))))) :: ((Npos (XI (XO (XI (XO (XO (XI XH))))))) :: ((Npos (XO (XO
    (XI (XI (XO XH)))))) :: ((Npos (XO (XO (XO (XO (XO XH)))))) :: ((Npos (XO
    (XO (XI (XO (XI (XI XH))))))) :: ((Npos (XO (XO (XO (XI (XO (XI
    XH))))))) :: ((Npos (XI (XO (XO (XI (XO (XI XH))))))) :: ((Npos (XI (XI
    (XO (XO (XI (XI XH))))))) :: ((Npos (XO (XO (XO (XO (XO
    XH)))))) :: ((Npos (XI (XO (XO (XI (XO (XI XH))))))) :: ((Npos (XI (XI
    (XO (XO (XI (XI XH))))))) :: ((Npos (XO (XO (XO (XO (XO
    XH)))))) :: ((Npos (XO (XO (XI (XO (XI (XI XH))))))) :: ((Npos (XO (XO
    (XO (XI (XO (XI XH))))))) :: ((Npos (XI (XO (XI (XO (XO (XI
    XH))))))) :: ((Npos (XO (XO (XO (XO (XO XH)))))) :: ((Npos (XO (XI (XO
    (XO (XI (XI XH))))))) :: ((Npos (XI (XO (XI (XO (XO (XI
    XH))))))) :: ((Npos (XI (XI (XO (XO (XO (XI XH))))))) :: ((Npos (XI (XO
    (XI (XO (XO (XI XH))))))) :: ((Npos (XI (XO (XO (XI (XO (XI
    XH))))))) :: ((Npos (XO (XI (XI (XO (XI (XI XH))))))) :: ((Npos (XI (XO
    (XI (XO (XO (XI XH))))))) :: ((Npos (XO (XO (XO (XO (XO
    XH)))))) :: ((Npos (XI (XI (XO (XI (XO (XI XH))))))) :: ((Npos (XI (XO
    (XI (XO (XO (XI XH))))))) :: ((Npos (XI (XO (XO (XI (XI (XI
    XH))))))) :: ((Npos (XI (XI (XO (XI (XI XH)))))) :: ((Npos (XO (XO (XO
    (XO (XO XH)))))) :: ((Npos (XI (XI (XI (XI (XO (XI XH))))))) :: ((Npos
    (XO (XI (XI (XI (XO (XI XH))))))) :: ((Npos (XO (XO (XO (XO (XO
    XH)))))) :: ((Npos (XO (XO (XI (XO (XI (XI XH))))))) :: ((Npos (XO (XO
    (XO (XI (XO (XI XH))))))) :: ((Npos (XI (XO (XI (XO (XO (XI
    XH))))))) :: ((Npos (XO (XO (XO (XO (XO XH)))))) :: ((Npos (XI (XI (XO
    (XO (XI (XI XH))))))) :: ((Npos (XI (XO (XI (XO (XO (XI
    XH))))))) :: ((Npos (XO (XI (XO (XO (XI (XI XH))))))) :: ((Npos (XO (XI
    (XI (XO (XI (XI XH))))))) :: ((Npos (XI (XO (XI (XO (XO (XI
    XH))))))) :: ((Npos (XO (XI (XO (XO (XI (XI XH))))))) :: ((Npos (XO (XO
    (XO (XO (XO XH)))))) :: ((Npos (XI (XI (XO (XO (XI (XI
    XH))))))) :: ((Npos (XI (XO (XO (XI (XO (XI XH))))))) :: ((Npos (XO (XO
    (XI (XO (XO (XI XH))))))) :: ((Npos (XI (XO (XI (XO (XO (XI
    XH))))))) :: ((Npos (XO (XO (XI (XI (XO XH)))))) :: ((Npos (XO (XO (XO
    (XO (XO XH)))))) :: ((Npos (XI (XO (XO (XI (XO (XI XH))))))) :: ((Npos
    (XO (XO (XI (XO (XI (XI XH))))))) :: ((Npos (XO (XO (XO (XO (XO
    XH)))))) :: ((Npos (XI (XO (XO (XI (XO (XI XH))))))) :: ((Npos (XI (XI
    (XO (XO (XI (XI XH))))))) :: ((Npos (XO (XO (XO (XO (XO
    XH)))))) :: ((Npos (XO (XO (XI (XO (XI (XI XH))))))) :: ((Npos (XO (XO
    (XO (XI (XO (XI XH))))))) :: ((Npos (XI (XO (XI (XO (XO (XI
    XH))))))) :: ((Npos (XO (XO (XO (XO (XO XH)))))) :: ((Npos (XI (XI (XO
    (XO (XI (XI XH))))))) :: ((Npos (XI (XO (XI (XO (XO (XI
    XH))))))) :: ((Npos (XO (XI (XI (XI (XO (XI XH))))))) :: ((Npos (XO (XO
    (XI (XO (XO (XI XH))))))) :: ((Npos (XO (XO (XO (XO (XO
    XH)))))) :: ((Npos (XI (XI (XO (XI (XO (XI XH))))))) :: ((Npos (XI (XO
    (XI (XO (XO (XI XH))))))) :: ((Npos (XI (XO (XO (XI (XI (XI
    XH))))))) :: ((Npos (XO (XI (XI (XI (XO
    XH)))))) :: [])))))))))))))))))))))))))))))))))))))))))))))))))))))))))))))))))))))))))))))))))))

(** val g_rfc3079_GetAsymmetricStartKey : guard list **)

let g_rfc3079_GetAsymmetricStartKey =
  { gexpr = (String ((Ascii (false, false, true, true, false, true, true,
    false)), (String ((Ascii (true, false, true, false, false, true, true,
    false)), (String ((Ascii (false, true, true, true, false, true, true,
    false)), (String ((Ascii (false, false, false, true, false, true, false,
    false)), (String ((Ascii (false, false, true, false, false, true, false,
    false)), (String ((Ascii (false, false, false, false, true, true, false,
    false)), (String ((Ascii (true, false, false, true, false, true, false,
    false)), EmptyString)))))))))))))); gop = OpNE; glit = (Zpos (XO (XO (XO
    (XO XH))))) } :: []

(** val g_rfc3079_MakeKey : guard list **)

let g_rfc3079_MakeKey =
  { gexpr = (String ((Ascii (false, false, true, true, false, true, true,
    false)), (String ((Ascii (true, false, true, false, false, true, true,
    false)), (String ((Ascii (false, true, true, true, false, true, true,
    false)), (String ((Ascii (false, false, false, true, false, true, false,
    false)), (String ((Ascii (false, false, true, false, false, true, false,
    false)), (String ((Ascii (false, false, false, false, true, true, false,
    false)), (String ((Ascii (true, false, false, true, false, true, false,
    false)), EmptyString)))))))))))))); gop = OpNE; glit = (Zpos (XO (XO (XO
    (XI XH))))) } :: []

(** val k_dictionary_AttributeOctets : z **)

let k_dictionary_AttributeOctets =
  Zpos (XO XH)

(** val k_dictionary_AttributeString : z **)

let k_dictionary_AttributeString =
  Zpos XH

(** val g_dictionary_Parser_parseAttribute : guard list **)

let g_dictionary_Parser_parseAttribute =
  { gexpr = (String ((Ascii (false, false, true, true, false, true, true,
    false)), (String ((Ascii (true, false, true, false, false, true, true,
    false)), (String ((Ascii (false, true, true, true, false, true, true,
    false)), (String ((Ascii (false, false, false, true, false, true, false,
    false)), (String ((Ascii (false, false, false, false, true, true, true,
    false)), (String ((Ascii (true, false, false, false, false, true, true,
    false)), (String ((Ascii (false, true, false, false, true, true, true,
    false)), (String ((Ascii (true, true, false, false, true, true, true,
    false)), (String ((Ascii (true, false, true, false, false, true, true,
    false)), (String ((Ascii (true, true, true, true, false, false, true,
    false)), (String ((Ascii (true, false, false, true, false, false, true,
    false)), (String ((Ascii (false, false, true, false, false, false, true,
    false)), (String ((Ascii (false, false, false, true, false, true, false,
    false)), (String ((Ascii (false, false, true, false, false, true, false,
    false)), (String ((Ascii (false, false, false, false, true, true, false,
    false)), (String ((Ascii (true, true, false, true, true, false, true,
    false)), (String ((Ascii (false, true, false, false, true, true, false,
    false)), (String ((Ascii (true, false, true, true, true, false, true,
    false)), (String ((Ascii (true, false, false, true, false, true, false,
    false)), (String ((Ascii (true, false, false, true, false, true, false,
    false)), EmptyString)))))))))))))))))))))))))))))))))))))))); gop = OpEQ;
    glit = Z0 } :: ({ gexpr = (String ((Ascii (false, false, true, true,
    false, true, true, false)), (String ((Ascii (true, false, true, false,
    false, true, true, false)), (String ((Ascii (false, true, true, true,
    false, true, true, false)), (String ((Ascii (false, false, false, true,
    false, true, false, false)), (String ((Ascii (false, false, true, false,
    false, true, false, false)), (String ((Ascii (false, false, false, false,
    true, true, false, false)), (String ((Ascii (true, true, false, true,
    true, false, true, false)), (String ((Ascii (true, true, false, false,
    true, true, false, false)), (String ((Ascii (true, false, true, true,
    true, false, true, false)), (String ((Ascii (true, false, false, true,
    false, true, false, false)), EmptyString)))))))))))))))))))); gop = OpGT;
    glit = (Zpos (XO (XO (XO XH)))) } :: ({ gexpr = (String ((Ascii (false,
    false, true, false, false, true, false, false)), (String ((Ascii (false,
    false, false, false, true, true, false, false)), (String ((Ascii (true,
    true, false, true, true, false, true, false)), (String ((Ascii (true,
    true, false, false, true, true, false, false)), (String ((Ascii (true,
    false, true, true, true, false, true, false)), (String ((Ascii (true,
    true, false, true, true, false, true, false)), (String ((Ascii (false,
    false, true, true, false, true, true, false)), (String ((Ascii (true,
    false, true, false, false, true, true, false)), (String ((Ascii (false,
    true, true, true, false, true, true, false)), (String ((Ascii (false,
    false, false, true, false, true, false, false)), (String ((Ascii (false,
    false, true, false, false, true, false, false)), (String ((Ascii (false,
    false, false, false, true, true, false, false)), (String ((Ascii (true,
    true, false, true, true, false, true, false)), (String ((Ascii (true,
    true, false, false, true, true, false, false)), (String ((Ascii (true,
    false, true, true, true, false, true, false)), (String ((Ascii (true,
    false, false, true, false, true, false, false)), (String ((Ascii (false,
    false, false, false, false, true, false, false)), (String ((Ascii (true,
    false, true, true, false, true, false, false)), (String ((Ascii (false,
    false, false, false, false, true, false, false)), (String ((Ascii (true,
    false, false, false, true, true, false, false)), (String ((Ascii (true,
    false, true, true, true, false, true, false)),
    EmptyString)))))))))))))))))))))))))))))))))))))))))); gop = OpEQ; glit =
    (Zpos (XI (XO (XI (XI (XI (XO XH))))))) } :: ({ gexpr = (String ((Ascii
    (false, false, true, true, false, true, true, false)), (String ((Ascii
    (true, false, true, false, false, true, true, false)), (String ((Ascii
    (false, true, true, true, false, true, true, false)), (String ((Ascii
    (false, false, false, true, false, true, false, false)), (String ((Ascii
    (false, false, true, false, false, true, false, false)), (String ((Ascii
    (false, false, false, false, true, true, false, false)), (String ((Ascii
    (true, false, false, true, false, true, false, false)),
    EmptyString)))))))))))))); gop = OpGE; glit = (Zpos (XI (XO
    XH))) } :: [])))

(** val g_dictionary_Parser_parseVendor : guard list **)

let g_dictionary_Parser_parseVendor =
  { gexpr = (String ((Ascii (false, false, true, true, false, true, true,
    false)), (String ((Ascii (true, false, true, false, false, true, true,
    false)), (String ((Ascii (false, true, true, true, false, true, true,
    false)), (String ((Ascii (false, false, false, true, false, true, false,
    false)), (String ((Ascii (false, false, true, false, false, true, false,
    false)), (String ((Ascii (false, false, false, false, true, true, false,
    false)), (String ((Ascii (true, false, false, true, false, true, false,
    false)), EmptyString)))))))))))))); gop = OpEQ; glit = (Zpos (XO (XO
    XH))) } :: ({ gexpr = (String ((Ascii (false, false, true, true, false,
    true, true, false)), (String ((Ascii (true, false, true, false, false,
    true, true, false)), (String ((Ascii (false, true, true, true, false,
    true, true, false)), (String ((Ascii (false, false, false, true, false,
    true, false, false)), (String ((Ascii (false, false, true, false, false,
    true, false, false)), (String ((Ascii (false, false, false, false, true,
    true, false, false)), (String ((Ascii (true, true, false, true, true,
    false, true, false)), (String ((Ascii (true, true, false, false, true,
    true, false, false)), (String ((Ascii (true, false, true, true, true,
    false, true, false)), (String ((Ascii (true, false, false, true, false,
    true, false, false)), EmptyString)))))))))))))))))))); gop = OpNE; glit =
    (Zpos (XO (XI (XO XH)))) } :: ({ gexpr = (String ((Ascii (false, false,
    true, false, false, true, false, false)), (String ((Ascii (false, false,
    false, false, true, true, false, false)), (String ((Ascii (true, true,
    false, true, true, false, true, false)), (String ((Ascii (true, true,
    false, false, true, true, false, false)), (String ((Ascii (true, false,
    true, true, true, false, true, false)), (String ((Ascii (true, true,
    false, true, true, false, true, false)), (String ((Ascii (false, false,
    false, true, true, true, false, false)), (String ((Ascii (true, false,
    true, true, true, false, true, false)), EmptyString))))))))))))))));
    gop = OpNE; glit = (Zpos (XO (XO (XI (XI (XO XH)))))) } :: ({ gexpr =
    (String ((Ascii (false, false, true, false, false, true, false, false)),
    (String ((Ascii (false, false, false, false, true, true, false, false)),
    (String ((Ascii (true, true, false, true, true, false, true, false)),
    (String ((Ascii (true, true, false, false, true, true, false, false)),
    (String ((Ascii (true, false, true, true, true, false, true, false)),
    (String ((Ascii (true, true, false, true, true, false, true, false)),
    (String ((Ascii (true, true, true, false, true, true, false, false)),
    (String ((Ascii (true, false, true, true, true, false, true, false)),
    EmptyString)))))))))))))))); gop = OpNE; glit = (Zpos (XI (XO (XO (XO (XI
    XH)))))) } :: ({ gexpr = (String ((Ascii (false, false, true, false,
    false, true, false, false)), (String ((Ascii (false, false, false, false,
    true, true, false, false)), (String ((Ascii (true, true, false, true,
    true, false, true, false)), (String ((Ascii (true, true, false, false,
    true, true, false, false)), (String ((Ascii (true, false, true, true,
    true, false, true, false)), (String ((Ascii (true, true, false, true,
    true, false, true, false)), (String ((Ascii (true, true, true, false,
    true, true, false, false)), (String ((Ascii (true, false, true, true,
    true, false, true, false)), EmptyString)))))))))))))))); gop = OpNE;
    glit = (Zpos (XO (XI (XO (XO (XI XH)))))) } :: ({ gexpr = (String ((Ascii
    (false, false, true, false, false, true, false, false)), (String ((Ascii
    (false, false, false, false, true, true, false, false)), (String ((Ascii
    (true, true, false, true, true, false, true, false)), (String ((Ascii
    (true, true, false, false, true, true, false, false)), (String ((Ascii
    (true, false, true, true, true, false, true, false)), (String ((Ascii
    (true, true, false, true, true, false, true, false)), (String ((Ascii
    (true, true, true, false, true, true, false, false)), (String ((Ascii
    (true, false, true, true, true, false, true, false)),
    EmptyString)))))))))))))))); gop = OpNE; glit = (Zpos (XO (XO (XI (XO (XI
    XH)))))) } :: ({ gexpr = (String ((Ascii (false, false, true, false,
    false, true, false, false)), (String ((Ascii (false, false, false, false,
    true, true, false, false)), (String ((Ascii (true, true, false, true,
    true, false, true, false)), (String ((Ascii (true, true, false, false,
    true, true, false, false)), (String ((Ascii (true, false, true, true,
    true, false, true, false)), (String ((Ascii (true, true, false, true,
    true, false, true, false)), (String ((Ascii (true, false, false, true,
    true, true, false, false)), (String ((Ascii (true, false, true, true,
    true, false, true, false)), EmptyString)))))))))))))))); gop = OpLT;
    glit = (Zpos (XO (XO (XO (XO (XI XH)))))) } :: ({ gexpr = (String ((Ascii
    (false, false, true, false, false, true, false, false)), (String ((Ascii
    (false, false, false, false, true, true, false, false)), (String ((Ascii
    (true, true, false, true, true, false, true, false)), (String ((Ascii
    (true, true, false, false, true, true, false, false)), (String ((Ascii
    (true, false, true, true, true, false, true, false)), (String ((Ascii
    (true, true, false, true, true, false, true, false)), (String ((Ascii
    (true, false, false, true, true, true, false, false)), (String ((Ascii
    (true, false, true, true, true, false, true, false)),
    EmptyString)))))))))))))))); gop = OpGT; glit = (Zpos (XO (XI (XO (XO (XI
    XH)))))) } :: [])))))))

(** val t_parser_types : (string * z) list **)

let t_parser_types =
  ((String ((Ascii (true, true, false, false, true, true, true, false)),
    (String ((Ascii (false, false, true, false, true, true, true, false)),
    (String ((Ascii (false, true, false, false, true, true, true, false)),
    (String ((Ascii (true, false, false, true, false, true, true, false)),
    (String ((Ascii (false, true, true, true, false, true, true, false)),
    (String ((Ascii (true, true, true, false, false, true, true, false)),
    EmptyString)))))))))))), (Zpos XH)) :: (((String ((Ascii (true, true,
    true, true, false, true, true, false)), (String ((Ascii (true, true,
    false, false, false, true, true, false)), (String ((Ascii (false, false,
    true, false, true, true, true, false)), (String ((Ascii (true, false,
    true, false, false, true, true, false)), (String ((Ascii (false, false,
    true, false, true, true, true, false)), (String ((Ascii (true, true,
    false, false, true, true, true, false)), EmptyString)))))))))))), (Zpos
    (XO XH))) :: (((String ((Ascii (true, false, false, true, false, true,
    true, false)), (String ((Ascii (false, false, false, false, true, true,
    true, false)), (String ((Ascii (true, false, false, false, false, true,
    true, false)), (String ((Ascii (false, false, true, false, false, true,
    true, false)), (String ((Ascii (false, false, true, false, false, true,
    true, false)), (String ((Ascii (false, true, false, false, true, true,
    true, false)), EmptyString)))))))))))), (Zpos (XI XH))) :: (((String
    ((Ascii (false, false, true, false, false, true, true, false)), (String
    ((Ascii (true, false, false, false, false, true, true, false)), (String
    ((Ascii (false, false, true, false, true, true, true, false)), (String
    ((Ascii (true, false, true, false, false, true, true, false)),
    EmptyString)))))))), (Zpos (XO (XO XH)))) :: (((String ((Ascii (true,
    false, false, true, false, true, true, false)), (String ((Ascii (false,
    true, true, true, false, true, true, false)), (String ((Ascii (false,
    false, true, false, true, true, true, false)), (String ((Ascii (true,
    false, true, false, false, true, true, false)), (String ((Ascii (true,
    true, true, false, false, true, true, false)), (String ((Ascii (true,
    false, true, false, false, true, true, false)), (String ((Ascii (false,
    true, false, false, true, true, true, false)), EmptyString)))))))))))))),
    (Zpos (XI (XO XH)))) :: (((String ((Ascii (true, false, false, true,
    false, true, true, false)), (String ((Ascii (false, false, false, false,
    true, true, true, false)), (String ((Ascii (false, true, true, false,
    true, true, true, false)), (String ((Ascii (false, true, true, false,
    true, true, false, false)), (String ((Ascii (true, false, false, false,
    false, true, true, false)), (String ((Ascii (false, false, true, false,
    false, true, true, false)), (String ((Ascii (false, false, true, false,
    false, true, true, false)), (String ((Ascii (false, true, false, false,
    true, true, true, false)), EmptyString)))))))))))))))), (Zpos (XO (XI
    XH)))) :: (((String ((Ascii (true, false, false, true, false, true, true,
    false)), (String ((Ascii (false, false, false, false, true, true, true,
    false)), (String ((Ascii (false, true, true, false, true, true, true,
    false)), (String ((Ascii (false, true, true, false, true, true, false,
    false)), (String ((Ascii (false, false, false, false, true, true, true,
    false)), (String ((Ascii (false, true, false, false, true, true, true,
    false)), (String ((Ascii (true, false, true, false, false, true, true,
    false)), (String ((Ascii (false, true, true, false, false, true, true,
    false)), (String ((Ascii (true, false, false, true, false, true, true,
    false)), (String ((Ascii (false, false, false, true, true, true, true,
    false)), EmptyString)))))))))))))))))))), (Zpos (XI (XI
    XH)))) :: (((String ((Ascii (true, false, false, true, false, true, true,
    false)), (String ((Ascii (false, true, true, false, false, true, true,
    false)), (String ((Ascii (true, false, false, true, false, true, true,
    false)), (String ((Ascii (false, false, true, false, false, true, true,
    false)), EmptyString)))))))), (Zpos (XO (XO (XO XH))))) :: (((String
    ((Ascii (true, false, false, true, false, true, true, false)), (String
    ((Ascii (false, true, true, true, false, true, true, false)), (String
    ((Ascii (false, false, true, false, true, true, true, false)), (String
    ((Ascii (true, false, true, false, false, true, true, false)), (String
    ((Ascii (true, true, true, false, false, true, true, false)), (String
    ((Ascii (true, false, true, false, false, true, true, false)), (String
    ((Ascii (false, true, false, false, true, true, true, false)), (String
    ((Ascii (false, true, true, false, true, true, false, false)), (String
    ((Ascii (false, false, true, false, true, true, false, false)),
    EmptyString)))))))))))))))))), (Zpos (XI (XO (XO XH))))) :: (((String
    ((Ascii (false, true, true, false, true, true, true, false)), (String
    ((Ascii (true, true, false, false, true, true, true, false)), (String
    ((Ascii (true, false, false, false, false, true, true, false)),
    EmptyString)))))), (Zpos (XO (XI (XO XH))))) :: (((String ((Ascii (true,
    false, true, false, false, true, true, false)), (String ((Ascii (false,
    false, true, false, true, true, true, false)), (String ((Ascii (false,
    false, false, true, false, true, true, false)), (String ((Ascii (true,
    false, true, false, false, true, true, false)), (String ((Ascii (false,
    true, false, false, true, true, true, false)), EmptyString)))))))))),
    (Zpos (XI (XI (XO XH))))) :: (((String ((Ascii (true, false, false,
    false, false, true, true, false)), (String ((Ascii (false, true, false,
    false, false, true, true, false)), (String ((Ascii (true, false, false,
    true, false, true, true, false)), (String ((Ascii (false, true, true,
    true, false, true, true, false)), (String ((Ascii (true, false, false,
    false, false, true, true, false)), (String ((Ascii (false, true, false,
    false, true, true, true, false)), (String ((Ascii (true, false, false,
    true, true, true, true, false)), EmptyString)))))))))))))), (Zpos (XO (XO
    (XI XH))))) :: (((String ((Ascii (false, true, false, false, false, true,
    true, false)), (String ((Ascii (true, false, false, true, true, true,
    true, false)), (String ((Ascii (false, false, true, false, true, true,
    true, false)), (String ((Ascii (true, false, true, false, false, true,
    true, false)), EmptyString)))))))), (Zpos (XI (XO (XI
    XH))))) :: (((String ((Ascii (true, true, false, false, true, true, true,
    false)), (String ((Ascii (false, false, false, true, false, true, true,
    false)), (String ((Ascii (true, true, true, true, false, true, true,
    false)), (String ((Ascii (false, true, false, false, true, true, true,
    false)), (String ((Ascii (false, false, true, false, true, true, true,
    false)), EmptyString)))))))))), (Zpos (XO (XI (XI XH))))) :: (((String
    ((Ascii (true, true, false, false, true, true, true, false)), (String
    ((Ascii (true, false, false, true, false, true, true, false)), (String
    ((Ascii (true, true, true, false, false, true, true, false)), (String
    ((Ascii (false, true, true, true, false, true, true, false)), (String
    ((Ascii (true, false, true, false, false, true, true, false)), (String
    ((Ascii (false, false, true, false, false, true, true, false)),
    EmptyString)))))))))))), (Zpos (XI (XI (XI XH))))) :: (((String ((Ascii
    (false, false, true, false, true, true, true, false)), (String ((Ascii
    (false, false, true, true, false, true, true, false)), (String ((Ascii
    (false, true, true, false, true, true, true, false)), EmptyString)))))),
    (Zpos (XO (XO (XO (XO XH)))))) :: (((String ((Ascii (true, false, false,
    true, false, true, true, false)), (String ((Ascii (false, false, false,
    false, true, true, true, false)), (String ((Ascii (false, true, true,
    false, true, true, true, false)), (String ((Ascii (false, false, true,
    false, true, true, false, false)), (String ((Ascii (false, false, false,
    false, true, true, true, false)), (String ((Ascii (false, true, false,
    false, true, true, true, false)), (String ((Ascii (true, false, true,
    false, false, true, true, false)), (String ((Ascii (false, true, true,
    false, false, true, true, false)), (String ((Ascii (true, false, false,
    true, false, true, true, false)), (String ((Ascii (false, false, false,
    true, true, true, true, false)), EmptyString)))))))))))))))))))), (Zpos
    (XI (XO (XO (XO XH)))))) :: []))))))))))))))))

(** val t_string : z **)

let t_string =
  Zpos XH

(** val t_octets : z **)

let t_octets =
  Zpos (XO XH)

(** val t_ipaddr : z **)

let t_ipaddr =
  Zpos (XI XH)

(** val t_date : z **)

let t_date =
  Zpos (XO (XO XH))

(** val t_integer : z **)

let t_integer =
  Zpos (XI (XO XH))

(** val t_ipv6addr : z **)

let t_ipv6addr =
  Zpos (XO (XI XH))

(** val t_ipv6prefix : z **)

let t_ipv6prefix =
  Zpos (XI (XI XH))

(** val t_ifid : z **)

let t_ifid =
  Zpos (XO (XO (XO XH)))

(** val t_integer64 : z **)

let t_integer64 =
  Zpos (XI (XO (XO XH)))

(** val t_vsa : z **)

let t_vsa =
  Zpos (XO (XI (XO XH)))

(** val t_byte : z **)

let t_byte =
  Zpos (XI (XO (XI XH)))

(** val t_short : z **)

let t_short =
  Zpos (XO (XI (XI XH)))

type gattr = { ga_name : bytes; ga_ident : bytes; ga_oid : z list;
               ga_type : z; ga_size : z option; ga_enc : z option;
               ga_tag : bool option; ga_concat : bool option }

type gvalue = { gl_attr : bytes; gl_name : bytes; gl_ident : bytes; gl_num : z }

type gvendor = { gn_name : bytes; gn_ident : bytes; gn_num : z; gn_tlen : 
                 z; gn_llen : z; gn_attrs : gattr list; gn_vals : gvalue list }

type gdict = { gd_attrs : gattr list; gd_vals : gvalue list;
               gd_vendors : gvendor list }

type gopts = { go_ignore : bytes list; go_ext : (bytes * bytes) list }

(** val e_conflict : n **)

let e_conflict =
  Npos XH

(** val e_attr : n **)

let e_attr =
  Npos (XO XH)

(** val e_unknown : n **)

let e_unknown =
  Npos (XI XH)

(** val e_vendor : n **)

let e_vendor =
  Npos (XO (XO XH))

(** val e_vattr : n **)

let e_vattr =
  Npos (XI (XO XH))

(** val e_range : n **)

let e_range =
  Npos (XO (XI XH))

(** val e_valconflict : n **)

let e_valconflict =
  Npos (XI (XI XH))

(** val mem : bytes -> bytes list -> bool **)

let mem x l =
  existsb (beq x) l

(** val has_tag : gattr -> bool **)

let has_tag a =
  match a.ga_tag with
  | Some b -> b
  | None -> false

(** val is_concat : gattr -> bool **)

let is_concat a =
  match a.ga_concat with
  | Some b -> b
  | None -> false

(** val is_str : z -> bool **)

let is_str t =
  (||) (Z.eqb t t_string) (Z.eqb t t_octets)

(** val salted : gattr -> bool **)

let salted a =
  match a.ga_enc with
  | Some e -> Z.eqb e (Zpos (XO XH))
  | None -> false

(** val some : 'a1 option -> bool **)

let some = function
| Some _ -> true
| None -> false

(** val is_int : z -> bool **)

let is_int t =
  (||) ((||) (Z.eqb t t_short) (Z.eqb t t_integer)) (Z.eqb t t_integer64)

(** val enc_supported : gattr -> z -> bool **)

let enc_supported a e =
  if is_str a.ga_type
  then true
  else if (||) (Z.eqb a.ga_type t_ipaddr) (Z.eqb a.ga_type t_ipv6addr)
       then Z.eqb e (Zpos (XO XH))
       else if is_int a.ga_type
            then (&&) (Z.eqb e (Zpos (XO XH))) (negb (has_tag a))
            else false

(** val common_invalid : gattr -> bool **)

let common_invalid a =
  (||)
    ((||)
      ((||)
        ((||) (negb (Nat.eqb (length a.ga_oid) (S O)))
          (match a.ga_enc with
           | Some e -> negb (enc_supported a e)
           | None -> false))
        ((&&) (some a.ga_size) (negb (is_str a.ga_type))))
      (match a.ga_enc with
       | Some e ->
         (&&) (negb (Z.eqb e (Zpos XH))) (negb (Z.eqb e (Zpos (XO XH))))
       | None -> false))
    ((&&) (has_tag a)
      (negb ((||) (is_str a.ga_type) (Z.eqb a.ga_type t_integer))))

(** val supported : z -> bool **)

let supported t =
  (||)
    ((||)
      ((||)
        ((||)
          ((||)
            ((||)
              ((||)
                ((||) ((||) (is_str t) (Z.eqb t t_ipaddr))
                  (Z.eqb t t_ipv6addr)) (Z.eqb t t_ipv6prefix))
              (Z.eqb t t_ifid)) (Z.eqb t t_date)) (Z.eqb t t_short))
        (Z.eqb t t_integer)) (Z.eqb t t_integer64)) (Z.eqb t t_byte)

(** val invalid_top : gattr -> bool **)

let invalid_top a =
  (||)
    ((||) (common_invalid a)
      ((&&) (is_concat a)
        ((||)
          ((||) ((||) (negb (is_str a.ga_type)) (some a.ga_enc))
            (some a.ga_tag)) (some a.ga_size))))
    (negb ((||) (supported a.ga_type) (Z.eqb a.ga_type t_vsa)))

(** val invalid_vendor_attr : gattr -> bool **)

let invalid_vendor_attr a =
  (||)
    ((||)
      ((||) (common_invalid a)
        (match a.ga_oid with
         | [] -> true
         | n0 :: l ->
           (match l with
            | [] ->
              (||) (Z.ltb n0 Z0)
                (Z.ltb (Zpos (XI (XI (XI (XI (XI (XI (XI XH)))))))) n0)
            | _ :: _ -> true))) (is_concat a)) (negb (supported a.ga_type))

(** val check_attrs :
    (gattr -> bool) -> n -> bytes list -> bytes list -> gattr list -> (gattr
    list * bytes list) res **)

let rec check_attrs invalid e ignore seen = function
| [] -> Ok ([], seen)
| a :: r ->
  if mem a.ga_name ignore
  then check_attrs invalid e ignore seen r
  else if mem a.ga_ident seen
       then Err e_conflict
       else if invalid a
            then Err e
            else (match check_attrs invalid e ignore (a.ga_ident :: seen) r with
                  | Ok a0 -> let (kept, seen') = a0 in Ok ((a :: kept), seen')
                  | x -> x)

(** val insert : ('a1 -> 'a1 -> bool) -> 'a1 -> 'a1 list -> 'a1 list **)

let rec insert lt x l = match l with
| [] -> x :: []
| y :: r -> if lt x y then x :: l else y :: (insert lt x r)

(** val sort : ('a1 -> 'a1 -> bool) -> 'a1 list -> 'a1 list **)

let sort lt l =
  fold_right (insert lt) [] l

(** val oid_lt : nat -> z list -> z list -> bool **)

let rec oid_lt fuel a b =
  match fuel with
  | O -> false
  | S f ->
    (match a with
     | [] ->
       (match b with
        | [] -> false
        | _ :: _ ->
          let x = match a with
                  | [] -> Z0
                  | x :: _ -> x in
          let y = match b with
                  | [] -> Z0
                  | y :: _ -> y in
          if negb (Z.eqb x y) then Z.ltb x y else oid_lt f (tl a) (tl b))
     | _ :: _ ->
       let x = match a with
               | [] -> Z0
               | x :: _ -> x in
       let y = match b with
               | [] -> Z0
               | y :: _ -> y in
       if negb (Z.eqb x y) then Z.ltb x y else oid_lt f (tl a) (tl b))

(** val bytes_lt : bytes -> bytes -> bool **)

let rec bytes_lt a b =
  match a with
  | [] -> (match b with
           | [] -> false
           | _ :: _ -> true)
  | x :: a' ->
    (match b with
     | [] -> false
     | y :: b' ->
       if N.ltb x y then true else if N.ltb y x then false else bytes_lt a' b')

(** val oid_cmp_lt : z list -> z list -> bool **)

let oid_cmp_lt a b =
  oid_lt (S (add (length a) (length b))) a b

(** val attr_lt : gattr -> gattr -> bool **)

let attr_lt a b =
  if oid_cmp_lt a.ga_oid b.ga_oid
  then true
  else if oid_cmp_lt b.ga_oid a.ga_oid
       then false
       else bytes_lt a.ga_name b.ga_name

(** val value_lt : gvalue -> gvalue -> bool **)

let value_lt a b =
  if negb (Z.eqb a.gl_num b.gl_num)
  then Z.ltb a.gl_num b.gl_num
  else if negb (beq a.gl_attr b.gl_attr)
       then bytes_lt a.gl_attr b.gl_attr
       else bytes_lt a.gl_name b.gl_name

(** val split_values :
    bytes list -> bytes list -> bytes list -> gvalue list -> (gvalue
    list * gvalue list) res **)

let rec split_values ignore local ext = function
| [] -> Ok ([], [])
| v :: r ->
  if mem v.gl_attr ignore
  then split_values ignore local ext r
  else (match split_values ignore local ext r with
        | Ok a ->
          let (lo, ex) = a in
          if mem v.gl_attr local
          then Ok ((v :: lo), ex)
          else if mem v.gl_attr ext then Ok (lo, (v :: ex)) else Err e_unknown
        | x -> x)

(** val max_of : z -> z option **)

let max_of t =
  if Z.eqb t t_short
  then Some (Zpos (XI (XI (XI (XI (XI (XI (XI (XI (XI (XI (XI (XI (XI (XI (XI
         XH))))))))))))))))
  else if Z.eqb t t_integer
       then Some (Zpos (XI (XI (XI (XI (XI (XI (XI (XI (XI (XI (XI (XI (XI
              (XI (XI (XI (XI (XI (XI (XI (XI (XI (XI (XI (XI (XI (XI (XI (XI
              (XI (XI XH))))))))))))))))))))))))))))))))
       else if Z.eqb t t_integer64
            then Some (Zpos (XI (XI (XI (XI (XI (XI (XI (XI (XI (XI (XI (XI
                   (XI (XI (XI (XI (XI (XI (XI (XI (XI (XI (XI (XI (XI (XI
                   (XI (XI (XI (XI (XI (XI (XI (XI (XI (XI (XI (XI (XI (XI
                   (XI (XI (XI (XI (XI (XI (XI (XI (XI (XI (XI (XI (XI (XI
                   (XI (XI (XI (XI (XI (XI (XI (XI (XI
                   XH))))))))))))))))))))))))))))))))))))))))))))))))))))))))))))))))
            else None

(** val check_vals : z -> (bytes * z) list -> gvalue list -> n option **)

let rec check_vals max0 seen = function
| [] -> None
| v :: r ->
  if Z.ltb max0 v.gl_num
  then Some e_range
  else if existsb (fun s ->
            (&&) (beq (fst s) v.gl_ident) (negb (Z.eqb (snd s) v.gl_num)))
            seen
       then Some e_valconflict
       else check_vals max0 ((v.gl_ident, v.gl_num) :: seen) r

(** val check_values : gattr -> gvalue list -> n option **)

let check_values a vals =
  match max_of a.ga_type with
  | Some m -> check_vals m [] (filter (fun v -> beq v.gl_attr a.ga_name) vals)
  | None -> None

(** val first_error : ('a1 -> n option) -> 'a1 list -> n option **)

let rec first_error f = function
| [] -> None
| x :: r -> (match f x with
             | Some e -> Some e
             | None -> first_error f r)

type fname =
| FAdd
| FAddString
| FGet
| FGetString
| FGets
| FGetStrings
| FLookup
| FLookupString
| FSet
| FSetString
| FDel

type vtype =
| VBytes
| VString
| VIP
| VHW
| VNet
| VTime
| VNamed
| VByte

type gdecl =
| DTypeConst of bytes * z
| DVendorConst of bytes * z
| DExtInit of bytes * (bytes * z) list
| DIntType of bytes * z
| DValueConst of bytes * bytes * z
| DStrings of bytes
| DStringer of bytes
| DFunc of bytes * fname * bool * bool * vtype
| DVendorFunc of bytes * z

(** val dedup : gvalue list -> gvalue list **)

let rec dedup = function
| [] -> []
| v :: r ->
  (match dedup r with
   | [] -> v :: []
   | w :: r' -> if Z.eqb v.gl_num w.gl_num then w :: r' else v :: (w :: r'))

(** val values_of_attr : gattr -> gvalue list -> gvalue list **)

let values_of_attr a vals =
  dedup (filter (fun v -> beq v.gl_attr a.ga_name) vals)

(** val funcs : gattr -> gvalue list -> gdecl list **)

let funcs a vals =
  let id = a.ga_ident in
  let t = a.ga_type in
  let tg = has_tag a in
  let q = salted a in
  if is_str t
  then if is_concat a
       then (DFunc (id, FGet, false, false, VBytes)) :: ((DFunc (id,
              FGetString, false, false, VString)) :: ((DFunc (id, FLookup,
              false, false, VBytes)) :: ((DFunc (id, FLookupString, false,
              false, VString)) :: ((DFunc (id, FSet, false, false,
              VBytes)) :: ((DFunc (id, FSetString, false, false,
              VString)) :: ((DFunc (id, FDel, false, false,
              VBytes)) :: []))))))
       else (DFunc (id, FAdd, tg, false, VBytes)) :: ((DFunc (id, FAddString,
              tg, false, VString)) :: ((DFunc (id, FGet, tg, q,
              VBytes)) :: ((DFunc (id, FGetString, tg, q,
              VString)) :: ((DFunc (id, FGets, tg, q, VBytes)) :: ((DFunc
              (id, FGetStrings, tg, q, VString)) :: ((DFunc (id, FLookup, tg,
              q, VBytes)) :: ((DFunc (id, FLookupString, tg, q,
              VString)) :: ((DFunc (id, FSet, tg, false, VBytes)) :: ((DFunc
              (id, FSetString, tg, false, VString)) :: ((DFunc (id, FDel,
              false, false, VBytes)) :: []))))))))))
  else if (||) (Z.eqb t t_ipaddr) (Z.eqb t t_ipv6addr)
       then (DFunc (id, FAdd, false, false, VIP)) :: ((DFunc (id, FGet,
              false, q, VIP)) :: ((DFunc (id, FGets, false, q,
              VIP)) :: ((DFunc (id, FLookup, false, q, VIP)) :: ((DFunc (id,
              FSet, false, false, VIP)) :: ((DFunc (id, FDel, false, false,
              VIP)) :: [])))))
       else if (||)
                 ((||) ((||) (Z.eqb t t_ipv6prefix) (Z.eqb t t_ifid))
                   (Z.eqb t t_date)) (Z.eqb t t_byte)
            then let vt =
                   if Z.eqb t t_ipv6prefix
                   then VNet
                   else if Z.eqb t t_ifid
                        then VHW
                        else if Z.eqb t t_date then VTime else VByte
                 in
                 (DFunc (id, FAdd, false, false, vt)) :: ((DFunc (id, FGet,
                 false, false, vt)) :: ((DFunc (id, FGets, false, false,
                 vt)) :: ((DFunc (id, FLookup, false, false, vt)) :: ((DFunc
                 (id, FSet, false, false, vt)) :: ((DFunc (id, FDel, false,
                 false, vt)) :: [])))))
            else if (||) ((||) (Z.eqb t t_short) (Z.eqb t t_integer))
                      (Z.eqb t t_integer64)
                 then let bits =
                        if Z.eqb t t_short
                        then Zpos (XO (XO (XO (XO XH))))
                        else if Z.eqb t t_integer
                             then Zpos (XO (XO (XO (XO (XO XH)))))
                             else Zpos (XO (XO (XO (XO (XO (XO XH))))))
                      in
                      app ((DIntType (id, bits)) :: [])
                        (app
                          (map (fun v -> DValueConst (id, v.gl_ident,
                            v.gl_num)) (values_of_attr a vals)) ((DStrings
                          id) :: ((DStringer id) :: ((DFunc (id, FAdd, tg,
                          false, VNamed)) :: ((DFunc (id, FGet, tg, q,
                          VNamed)) :: ((DFunc (id, FGets, tg, q,
                          VNamed)) :: ((DFunc (id, FLookup, tg, q,
                          VNamed)) :: ((DFunc (id, FSet, tg, false,
                          VNamed)) :: ((DFunc (id, FDel, false, false,
                          VNamed)) :: [])))))))))
                 else []

type cvendor = { cv_name : bytes; cv_ident : bytes; cv_num : z;
                 cv_attrs : gattr list; cv_vals : gvalue list }

(** val cvendor_lt : cvendor -> cvendor -> bool **)

let cvendor_lt a b =
  if negb (Z.eqb a.cv_num b.cv_num)
  then Z.ltb a.cv_num b.cv_num
  else bytes_lt a.cv_name b.cv_name

(** val check_vendors :
    bytes list -> bytes list -> gvendor list -> cvendor list res **)

let rec check_vendors ignore seen = function
| [] -> Ok []
| v :: r ->
  if (||) (negb (Z.eqb v.gn_llen (Zpos XH)))
       (negb (Z.eqb v.gn_tlen (Zpos XH)))
  then Err e_vendor
  else (match check_attrs invalid_vendor_attr e_vattr ignore seen v.gn_attrs with
        | Ok a ->
          let (kept, seen') = a in
          let attrs0 = sort attr_lt kept in
          let vals = sort value_lt v.gn_vals in
          (match first_error (fun a0 -> check_values a0 vals) attrs0 with
           | Some e -> Err e
           | None ->
             (match check_vendors ignore seen' r with
              | Ok cs ->
                Ok ({ cv_name = v.gn_name; cv_ident = v.gn_ident; cv_num =
                  v.gn_num; cv_attrs = attrs0; cv_vals = vals } :: cs)
              | x -> x))
        | Err x -> Err x
        | Panic -> Panic
        | OutOfFuel -> OutOfFuel)

(** val ext_values : gvalue list -> (bytes * bytes) -> gvalue list **)

let ext_values exts e =
  sort value_lt (filter (fun v -> beq v.gl_attr (fst e)) exts)

(** val emit :
    gattr list -> (bytes * bytes) list -> gvalue list -> gvalue list ->
    cvendor list -> gdecl list **)

let emit attrs0 ext values exts vendors =
  app (map (fun a -> DTypeConst (a.ga_ident, (hd Z0 a.ga_oid))) attrs0)
    (app (map (fun c -> DVendorConst (c.cv_ident, c.cv_num)) vendors)
      (app
        (map (fun e -> DExtInit ((snd e),
          (map (fun v -> (v.gl_ident, v.gl_num)) (ext_values exts e)))) ext)
        (app (flat_map (fun a -> funcs a values) attrs0)
          (flat_map (fun c ->
            app
              (map (fun x -> DVendorFunc (c.cv_ident, x)) (Z0 :: ((Zpos
                XH) :: ((Zpos (XO XH)) :: ((Zpos (XI XH)) :: ((Zpos (XO (XO
                XH))) :: []))))))
              (flat_map (fun a -> funcs a c.cv_vals) c.cv_attrs)) vendors))))

(** val gen : gopts -> gdict -> gdecl list res **)

let gen o d =
  match check_attrs invalid_top e_attr o.go_ignore [] d.gd_attrs with
  | Ok a ->
    let (kept, seen) = a in
    let attrs0 = sort attr_lt kept in
    let ext = sort (fun a0 b -> bytes_lt (fst a0) (fst b)) o.go_ext in
    (match split_values o.go_ignore (map (fun g -> g.ga_name) attrs0)
             (map fst ext) d.gd_vals with
     | Ok a0 ->
       let (locals, exts) = a0 in
       let values = sort value_lt locals in
       let ext_vals = ext_values exts in
       (match first_error (fun a1 -> check_values a1 values) attrs0 with
        | Some e -> Err e
        | None ->
          (match first_error (fun e ->
                   check_vals (Zpos (XI (XI (XI (XI (XI (XI (XI (XI (XI (XI
                     (XI (XI (XI (XI (XI (XI (XI (XI (XI (XI (XI (XI (XI (XI
                     (XI (XI (XI (XI (XI (XI (XI (XI (XI (XI (XI (XI (XI (XI
                     (XI (XI (XI (XI (XI (XI (XI (XI (XI (XI (XI (XI (XI (XI
                     (XI (XI (XI (XI (XI (XI (XI (XI (XI (XI (XI
                     XH))))))))))))))))))))))))))))))))))))))))))))))))))))))))))))))))
                     [] (ext_vals e)) ext with
           | Some e -> Err e
           | None ->
             (match check_vendors o.go_ignore seen d.gd_vendors with
              | Ok cvs ->
                let vendors = sort cvendor_lt cvs in
                Ok (emit attrs0 ext values exts vendors)
              | Err x -> Err x
              | Panic -> Panic
              | OutOfFuel -> OutOfFuel)))
     | Err x -> Err x
     | Panic -> Panic
     | OutOfFuel -> OutOfFuel)
  | Err x -> Err x
  | Panic -> Panic
  | OutOfFuel -> OutOfFuel

type avp = { atype : z; aval : bytes }

type attrs = avp list

(** val zlen : 'a1 list -> z **)

let zlen l =
  Z.of_nat (length l)

(** val parse_attrs_f : nat -> bytes -> attrs res **)

let rec parse_attrs_f fuel b =
  match fuel with
  | O -> OutOfFuel
  | S f ->
    if negb (holds (gd g_ParseAttributes O) (zlen b))
    then Ok []
    else if holds (gd g_ParseAttributes (S O)) (zlen b)
         then Err e_attr_short
         else (match b with
               | [] -> Panic
               | t :: l0 ->
                 (match l0 with
                  | [] -> Panic
                  | l :: _ ->
                    let len = Z.of_N l in
                    if (||)
                         ((||) (Z.gtb len (zlen b))
                           (holds (gd g_ParseAttributes (S (S O))) len))
                         (holds (gd g_ParseAttributes (S (S (S O)))) len)
                    then Err e_attr_len
                    else let n0 = Z.to_nat len in
                         if (||) (Nat.ltb n0 (S (S O)))
                              (Nat.ltb (length b) n0)
                         then Panic
                         else (match parse_attrs_f f (skipn n0 b) with
                               | Ok tl0 ->
                                 Ok ({ atype = (Z.of_N t); aval =
                                   (skipn (S (S O)) (firstn n0 b)) } :: tl0)
                               | x -> x)))

(** val parse_attrs : bytes -> attrs res **)

let parse_attrs b =
  parse_attrs_f (S (length b)) b

(** val add0 : z -> bytes -> attrs -> attrs **)

let add0 key0 v l =
  app l ({ atype = key0; aval = v } :: [])

(** val del_loop : nat -> z -> nat -> attrs -> attrs res **)

let rec del_loop fuel key0 i l =
  match fuel with
  | O -> OutOfFuel
  | S f ->
    if Nat.ltb i (length l)
    then (match nth_error l i with
          | Some a ->
            if Z.eqb a.atype key0
            then del_loop f key0 i (remove_at i l)
            else del_loop f key0 (S i) l
          | None -> Panic)
    else Ok l

(** val del : z -> attrs -> attrs res **)

let del key0 l =
  del_loop (S (length l)) key0 O l

(** val lookup : z -> attrs -> bytes option **)

let rec lookup key0 = function
| [] -> None
| a :: r -> if Z.eqb a.atype key0 then Some a.aval else lookup key0 r

(** val get : z -> attrs -> bytes **)

let get key0 l =
  match lookup key0 l with
  | Some v -> v
  | None -> []

(** val set_loop : nat -> z -> bytes -> nat -> bool -> attrs -> attrs res **)

let rec set_loop fuel key0 v i found l =
  match fuel with
  | O -> OutOfFuel
  | S f ->
    if Nat.ltb i (length l)
    then (match nth_error l i with
          | Some a ->
            if Z.eqb a.atype key0
            then if found
                 then set_loop f key0 v i true (remove_at i l)
                 else set_loop f key0 v (S i) true
                        (update_at i { atype = key0; aval = v } l)
            else set_loop f key0 v (S i) found l
          | None -> Panic)
    else Ok (if found then l else add0 key0 v l)

(** val set : z -> bytes -> attrs -> attrs res **)

let set key0 v l =
  set_loop (S (length l)) key0 v O false l

(** val skip_type : guard list -> avp -> bool **)

let skip_type g a =
  (||) (holds (gd g O) a.atype) (holds (gd g (S O)) a.atype)

(** val tlv : avp -> bytes **)

let tlv a =
  (zbyte a.atype) :: ((zbyte (Z.add (Zpos (XO XH)) (zlen a.aval))) :: a.aval)

(** val encode_to : attrs -> bytes -> bytes res **)

let rec encode_to l buf =
  match l with
  | [] -> Ok buf
  | a :: r ->
    if (||) (skip_type g_Attributes_encodeTo a)
         (holds (gd g_Attributes_encodeTo (S (S O))) (zlen a.aval))
    then encode_to r buf
    else let size = add (S (S O)) (length a.aval) in
         if Nat.ltb (length buf) size
         then Panic
         else (match encode_to r (skipn size buf) with
               | Ok rest -> Ok (app (tlv a) rest)
               | x -> x)

(** val enc_len_acc : attrs -> nat -> nat res **)

let rec enc_len_acc l n0 =
  match l with
  | [] -> Ok n0
  | a :: r ->
    if skip_type g_AttributesEncodedLen a
    then enc_len_acc r n0
    else if holds (gd g_AttributesEncodedLen (S (S O))) (zlen a.aval)
         then Err e_attr_big
         else enc_len_acc r (add n0 (add (S (S O)) (length a.aval)))

(** val enc_len : attrs -> nat res **)

let enc_len l =
  enc_len_acc l O

type packet = { code : z; ident : n; auth : bytes; secret : bytes;
                pattrs : attrs }

(** val parse : bytes -> bytes -> packet res **)

let parse b sec =
  if holds (gd g_Parse O) (zlen b)
  then Err e_short
  else (match b with
        | [] -> Panic
        | c :: l ->
          (match l with
           | [] -> Panic
           | i :: l0 ->
             (match l0 with
              | [] -> Panic
              | l1 :: l3 ->
                (match l3 with
                 | [] -> Panic
                 | l2 :: rest ->
                   let len = Z.of_N (be_dec (l1 :: (l2 :: []))) in
                   if (||)
                        ((||) (holds (gd g_Parse (S O)) len)
                          (holds (gd g_Parse (S (S O))) len))
                        (Z.ltb (zlen b) len)
                   then Err e_badlen
                   else let n0 = Z.to_nat len in
                        if (||)
                             (Nat.ltb n0 (S (S (S (S (S (S (S (S (S (S (S (S
                               (S (S (S (S (S (S (S (S O)))))))))))))))))))))
                             (Nat.ltb (length b) n0)
                        then Panic
                        else (match parse_attrs
                                      (skipn (S (S (S (S (S (S (S (S (S (S (S
                                        (S (S (S (S (S (S (S (S (S
                                        O)))))))))))))))))))) (firstn n0 b)) with
                              | Ok at_ ->
                                Ok { code = (Z.of_N c); ident = i; auth =
                                  (firstn (S (S (S (S (S (S (S (S (S (S (S (S
                                    (S (S (S (S O)))))))))))))))) rest);
                                  secret = sec; pattrs = at_ }
                              | Err e -> Err e
                              | Panic -> Panic
                              | OutOfFuel -> OutOfFuel)))))

(** val marshal : packet -> bytes res **)

let marshal p =
  match enc_len p.pattrs with
  | Ok n0 ->
    let size =
      add (S (S (S (S (S (S (S (S (S (S (S (S (S (S (S (S (S (S (S (S
        O)))))))))))))))))))) n0
    in
    if holds (gd g_Packet_MarshalBinary O) (Z.of_nat size)
    then Err e_pkt_big
    else (match encode_to p.pattrs (repeat N0 n0) with
          | Ok body ->
            Ok
              ((zbyte p.code) :: (p.ident :: (app
                                               (be_enc (S (S O))
                                                 (Z.to_N
                                                   (Z.modulo (Z.of_nat size)
                                                     (Zpos (XO (XO (XO (XO
                                                     (XO (XO (XO (XO (XO (XO
                                                     (XO (XO (XO (XO (XO (XO
                                                     XH))))))))))))))))))))
                                               (app p.auth body))))
          | x -> x)
  | Err e -> Err e
  | Panic -> Panic
  | OutOfFuel -> OutOfFuel

(** val zeros16 : bytes **)

let zeros16 =
  repeat N0 (S (S (S (S (S (S (S (S (S (S (S (S (S (S (S (S O))))))))))))))))

(** val put_auth : bytes -> bytes -> bytes **)

let put_auth b h =
  app (firstn (S (S (S (S O)))) b)
    (app h
      (skipn (S (S (S (S (S (S (S (S (S (S (S (S (S (S (S (S (S (S (S (S
        O)))))))))))))))))))) b))

(** val encode : (bytes -> bytes) -> packet -> bytes res **)

let encode h p =
  match marshal p with
  | Ok b ->
    if zmem p.code (sw sW_Packet_Encode O O)
    then Ok b
    else if zmem p.code (sw sW_Packet_Encode O (S O))
         then let a =
                if zmem p.code (sw sW_Packet_Encode (S O) O)
                then zeros16
                else p.auth
              in
              Ok
              (put_auth b
                (h
                  (app (firstn (S (S (S (S O)))) b)
                    (app a
                      (app
                        (skipn (S (S (S (S (S (S (S (S (S (S (S (S (S (S (S
                          (S (S (S (S (S O)))))))))))))))))))) b) p.secret)))))
         else Err e_unknown_code
  | x -> x

(** val is_authentic_response :
    (bytes -> bytes) -> bytes -> bytes -> bytes -> bool **)

let is_authentic_response h response0 request0 sec =
  if (||)
       ((||) (holds (gd g_IsAuthenticResponse O) (zlen response0))
         (holds (gd g_IsAuthenticResponse (S O)) (zlen request0)))
       (holds (gd g_IsAuthenticResponse (S (S O))) (zlen sec))
  then false
  else beq
         (h
           (app (firstn (S (S (S (S O)))) response0)
             (app
               (firstn (S (S (S (S (S (S (S (S (S (S (S (S (S (S (S (S
                 O)))))))))))))))) (skipn (S (S (S (S O)))) request0))
               (app
                 (skipn (S (S (S (S (S (S (S (S (S (S (S (S (S (S (S (S (S (S
                   (S (S O)))))))))))))))))))) response0) sec))))
         (firstn (S (S (S (S (S (S (S (S (S (S (S (S (S (S (S (S
           O)))))))))))))))) (skipn (S (S (S (S O)))) response0))

(** val is_authentic_request : (bytes -> bytes) -> bytes -> bytes -> bool **)

let is_authentic_request h request0 sec =
  if (||) (holds (gd g_IsAuthenticRequest O) (zlen request0))
       (holds (gd g_IsAuthenticRequest (S O)) (zlen sec))
  then false
  else (match request0 with
        | [] -> false
        | c :: _ ->
          if zmem (Z.of_N c) (sw sW_IsAuthenticRequest O O)
          then true
          else if zmem (Z.of_N c) (sw sW_IsAuthenticRequest O (S O))
               then beq
                      (h
                        (app (firstn (S (S (S (S O)))) request0)
                          (app zeros16
                            (app
                              (skipn (S (S (S (S (S (S (S (S (S (S (S (S (S
                                (S (S (S (S (S (S (S O))))))))))))))))))))
                                request0) sec))))
                      (firstn (S (S (S (S (S (S (S (S (S (S (S (S (S (S (S (S
                        O)))))))))))))))) (skipn (S (S (S (S O)))) request0))
               else false)

(** val response : packet -> z -> packet **)

let response p c =
  { code = c; ident = p.ident; auth = p.auth; secret = p.secret; pattrs = [] }

(** val new_packet : z -> bytes -> bytes -> packet res **)

let new_packet c sec = function
| [] -> Panic
| i :: rest ->
  if Nat.eqb (length rest) (S (S (S (S (S (S (S (S (S (S (S (S (S (S (S (S
       O))))))))))))))))
  then Ok { code = c; ident = i; auth = rest; secret = sec; pattrs = [] }
  else Panic

(** val dec_uint : guard list -> bytes -> n res **)

let dec_uint g a =
  if holds (gd g O) (zlen a) then Err e_invalid else Ok (be_dec a)

(** val integer : bytes -> n res **)

let integer =
  dec_uint g_Integer

(** val short : bytes -> n res **)

let short =
  dec_uint g_Short

(** val integer64 : bytes -> n res **)

let integer64 =
  dec_uint g_Integer64

(** val new_integer : n -> bytes **)

let new_integer i =
  be_enc (S (S (S (S O)))) i

(** val new_short : n -> bytes **)

let new_short i =
  be_enc (S (S O)) i

(** val new_integer64 : n -> bytes **)

let new_integer64 i =
  be_enc (S (S (S (S (S (S (S (S O)))))))) i

(** val new_string : bytes -> bytes res **)

let new_string s =
  if holds (gd g_NewString O) (zlen s) then Err e_invalid else Ok s

(** val new_bytes : bytes -> bytes res **)

let new_bytes b =
  if holds (gd g_NewBytes O) (zlen b) then Err e_invalid else Ok b

(** val all_zero : bytes -> bool **)

let all_zero l =
  forallb (fun b -> N.eqb b N0) l

(** val to4 : bytes -> bytes option **)

let to4 ip =
  if Nat.eqb (length ip) (S (S (S (S O))))
  then Some ip
  else if (&&)
            ((&&)
              (Nat.eqb (length ip) (S (S (S (S (S (S (S (S (S (S (S (S (S (S
                (S (S O)))))))))))))))))
              (all_zero (firstn (S (S (S (S (S (S (S (S (S (S O)))))))))) ip)))
            (beq
              (firstn (S (S O))
                (skipn (S (S (S (S (S (S (S (S (S (S O)))))))))) ip)) ((Npos
              (XI (XI (XI (XI (XI (XI (XI XH)))))))) :: ((Npos (XI (XI (XI
              (XI (XI (XI (XI XH)))))))) :: [])))
       then Some (skipn (S (S (S (S (S (S (S (S (S (S (S (S O)))))))))))) ip)
       else None

(** val v4_in_v6_prefix : bytes **)

let v4_in_v6_prefix =
  app (repeat N0 (S (S (S (S (S (S (S (S (S (S O))))))))))) ((Npos (XI (XI
    (XI (XI (XI (XI (XI XH)))))))) :: ((Npos (XI (XI (XI (XI (XI (XI (XI
    XH)))))))) :: []))

(** val to16 : bytes -> bytes option **)

let to16 ip =
  if Nat.eqb (length ip) (S (S (S (S O))))
  then Some (app v4_in_v6_prefix ip)
  else if Nat.eqb (length ip) (S (S (S (S (S (S (S (S (S (S (S (S (S (S (S (S
            O))))))))))))))))
       then Some ip
       else None

(** val ipaddr : bytes -> bytes res **)

let ipaddr a =
  if holds (gd g_IPAddr O) (zlen a) then Err e_invalid else Ok a

(** val new_ipaddr : bytes -> bytes res **)

let new_ipaddr ip =
  match to4 ip with
  | Some a -> Ok a
  | None -> Err e_invalid

(** val ipv6addr : bytes -> bytes res **)

let ipv6addr a =
  if holds (gd g_IPv6Addr O) (zlen a) then Err e_invalid else Ok a

(** val new_ipv6addr : bytes -> bytes res **)

let new_ipv6addr ip =
  match to16 ip with
  | Some a -> Ok a
  | None -> Err e_invalid

(** val ifid : bytes -> bytes res **)

let ifid a =
  if holds (gd g_IFID O) (zlen a) then Err e_invalid else Ok a

(** val new_ifid : bytes -> bytes res **)

let new_ifid addr =
  if holds (gd g_NewIFID O) (zlen addr) then Err e_invalid else Ok addr

(** val date : bytes -> z res **)

let date a =
  if holds (gd g_Date O) (zlen a)
  then Err e_invalid
  else Ok (Z.of_N (be_dec a))

(** val new_date : z -> bytes res **)

let new_date unix =
  if (||) (holds (gd g_NewDate O) unix) (holds (gd g_NewDate (S O)) unix)
  then Err e_invalid
  else Ok
         (be_enc (S (S (S (S O))))
           (Z.to_N
             (Z.modulo unix (Zpos (XO (XO (XO (XO (XO (XO (XO (XO (XO (XO (XO
               (XO (XO (XO (XO (XO (XO (XO (XO (XO (XO (XO (XO (XO (XO (XO
               (XO (XO (XO (XO (XO (XO XH))))))))))))))))))))))))))))))))))))

(** val vendor_specific : bytes -> (n * bytes) res **)

let vendor_specific a =
  if holds (gd g_VendorSpecific O) (zlen a)
  then Err e_invalid
  else Ok ((be_dec (firstn (S (S (S (S O)))) a)), (skipn (S (S (S (S O)))) a))

(** val new_vendor_specific : n -> bytes -> bytes res **)

let new_vendor_specific id v =
  if (||) (holds (gd g_NewVendorSpecific O) (zlen v))
       (holds (gd g_NewVendorSpecific (S O)) (zlen v))
  then Err e_invalid
  else Ok (app (be_enc (S (S (S (S O)))) id) v)

(** val tlv_dec : bytes -> (n * bytes) res **)

let tlv_dec a =
  if (||) (holds (gd g_TLV O) (zlen a)) (holds (gd g_TLV (S O)) (zlen a))
  then Err e_invalid
  else (match a with
        | [] -> Panic
        | t :: l0 ->
          (match l0 with
           | [] -> Panic
           | l :: v ->
             if negb (Z.eqb (Z.of_N l) (zlen a))
             then Err e_invalid
             else Ok (t, v)))

(** val new_tlv : n -> bytes -> bytes res **)

let new_tlv t v =
  if (||) (holds (gd g_NewTLV O) (zlen v))
       (holds (gd g_NewTLV (S O)) (zlen v))
  then Err e_invalid
  else Ok (t :: ((zbyte (Z.add (Zpos (XO XH)) (zlen v))) :: v))

(** val byte_ones : n -> nat option **)

let byte_ones v =
  if N.eqb v N0
  then Some O
  else if N.eqb v (Npos (XO (XO (XO (XO (XO (XO (XO XH))))))))
       then Some (S O)
       else if N.eqb v (Npos (XO (XO (XO (XO (XO (XO (XI XH))))))))
            then Some (S (S O))
            else if N.eqb v (Npos (XO (XO (XO (XO (XO (XI (XI XH))))))))
                 then Some (S (S (S O)))
                 else if N.eqb v (Npos (XO (XO (XO (XO (XI (XI (XI XH))))))))
                      then Some (S (S (S (S O))))
                      else if N.eqb v (Npos (XO (XO (XO (XI (XI (XI (XI
                                XH))))))))
                           then Some (S (S (S (S (S O)))))
                           else if N.eqb v (Npos (XO (XO (XI (XI (XI (XI (XI
                                     XH))))))))
                                then Some (S (S (S (S (S (S O))))))
                                else if N.eqb v (Npos (XO (XI (XI (XI (XI (XI
                                          (XI XH))))))))
                                     then Some (S (S (S (S (S (S (S O)))))))
                                     else if N.eqb v (Npos (XI (XI (XI (XI
                                               (XI (XI (XI XH))))))))
                                          then Some (S (S (S (S (S (S (S (S
                                                 O))))))))
                                          else None

(** val mask_ones : bytes -> nat option **)

let rec mask_ones = function
| [] -> Some O
| v :: r ->
  if N.eqb v (Npos (XI (XI (XI (XI (XI (XI (XI XH))))))))
  then (match mask_ones r with
        | Some n0 -> Some (add (S (S (S (S (S (S (S (S O)))))))) n0)
        | None -> None)
  else (match byte_ones v with
        | Some k -> if all_zero r then Some k else None
        | None -> None)

(** val mask_size : bytes -> nat * nat **)

let mask_size m =
  match mask_ones m with
  | Some n0 -> (n0, (mul (S (S (S (S (S (S (S (S O)))))))) (length m)))
  | None -> (O, O)

(** val keep_top : n -> nat -> n **)

let keep_top b k =
  N.mul
    (N.div b
      (N.pow (Npos (XO XH))
        (N.of_nat (sub (S (S (S (S (S (S (S (S O)))))))) k))))
    (N.pow (Npos (XO XH))
      (N.of_nat (sub (S (S (S (S (S (S (S (S O)))))))) k)))

(** val new_ipv6prefix : bytes -> bytes -> bytes res **)

let new_ipv6prefix ip mask0 =
  if holds (gd g_NewIPv6Prefix O) (zlen ip)
  then Err e_invalid
  else let (ones0, bits) = mask_size mask0 in
       if holds (gd g_NewIPv6Prefix (S O)) (Z.of_nat bits)
       then Err e_invalid
       else let n0 =
              Nat.div (add ones0 (S (S (S (S (S (S (S O)))))))) (S (S (S (S
                (S (S (S (S O))))))))
            in
            let body = firstn n0 ip in
            let body' =
              if holds (gd g_NewIPv6Prefix (S (S O)))
                   (Z.of_nat
                     (Nat.modulo ones0 (S (S (S (S (S (S (S (S O))))))))))
              then (match rev body with
                    | [] -> body
                    | last :: r ->
                      app (rev r)
                        ((keep_top last
                           (Nat.modulo ones0 (S (S (S (S (S (S (S (S
                             O)))))))))) :: []))
              else body
            in
            Ok (N0 :: ((zbyte (Z.of_nat ones0)) :: body'))

(** val cidr_mask : nat -> nat -> bytes **)

let rec cidr_mask ones0 = function
| O -> []
| S n' ->
  if Nat.leb (S (S (S (S (S (S (S (S O)))))))) ones0
  then (Npos (XI (XI (XI (XI (XI (XI (XI
         XH)))))))) :: (cidr_mask
                         (sub ones0 (S (S (S (S (S (S (S (S O))))))))) n')
  else (N.sub (Npos (XI (XI (XI (XI (XI (XI (XI XH))))))))
         (N.sub
           (N.pow (Npos (XO XH))
             (N.of_nat (sub (S (S (S (S (S (S (S (S O)))))))) ones0))) (Npos
           XH))) :: (cidr_mask O n')

(** val low_zero : n -> nat -> bool **)

let low_zero b bit =
  N.eqb
    (N.modulo b
      (N.pow (Npos (XO XH))
        (N.of_nat (sub (S (S (S (S (S (S (S (S O)))))))) bit)))) N0

(** val ipv6prefix : bytes -> (bytes * bytes) res **)

let ipv6prefix a =
  if (||) (holds (gd g_IPv6Prefix O) (zlen a))
       (holds (gd g_IPv6Prefix (S O)) (zlen a))
  then Err e_invalid
  else (match a with
        | [] -> Panic
        | _ :: l ->
          (match l with
           | [] -> Panic
           | pl :: data ->
             if holds (gd g_IPv6Prefix (S (S O))) (Z.of_N pl)
             then Err e_invalid
             else let ip =
                    firstn (S (S (S (S (S (S (S (S (S (S (S (S (S (S (S (S
                      O))))))))))))))))
                      (pad_to (S (S (S (S (S (S (S (S (S (S (S (S (S (S (S (S
                        O)))))))))))))))) data)
                  in
                  let p = N.to_nat pl in
                  let tail =
                    skipn (Nat.div p (S (S (S (S (S (S (S (S O))))))))) ip
                  in
                  let ok =
                    match tail with
                    | [] -> true
                    | b :: r ->
                      (&&)
                        (low_zero b
                          (Nat.modulo p (S (S (S (S (S (S (S (S O))))))))))
                        (all_zero r)
                  in
                  if ok
                  then Ok (ip,
                         (cidr_mask p (S (S (S (S (S (S (S (S (S (S (S (S (S
                           (S (S (S O))))))))))))))))))
                  else Err e_invalid))

(** val slice : bytes -> nat -> nat -> bytes res **)

let slice a lo hi =
  if (||) (Nat.ltb hi lo) (Nat.ltb (length a) hi)
  then Panic
  else Ok (firstn (sub hi lo) (skipn lo a))

(** val xor_at : bytes -> nat -> bytes -> bytes **)

let xor_at enc i p =
  app (firstn i enc) (xor_pad (skipn i enc) (skipn i p))

(** val nup_loop :
    (bytes -> bytes) -> nat -> bytes -> bytes -> bytes -> nat -> bytes res **)

let rec nup_loop h fuel sec pt enc i =
  match fuel with
  | O -> OutOfFuel
  | S f ->
    if Nat.ltb i (length pt)
    then (match slice enc
                  (sub i (S (S (S (S (S (S (S (S (S (S (S (S (S (S (S (S
                    O))))))))))))))))) i with
          | Ok prev ->
            let enc' = app enc (h (app sec prev)) in
            nup_loop h f sec pt (xor_at enc' i pt)
              (add i (S (S (S (S (S (S (S (S (S (S (S (S (S (S (S (S
                O)))))))))))))))))
          | _ -> Panic)
    else Ok enc

(** val new_user_password :
    (bytes -> bytes) -> bytes -> bytes -> bytes -> bytes res **)

let new_user_password h pt sec ra =
  if holds (gd g_NewUserPassword O) (zlen pt)
  then Err e_invalid
  else if holds (gd g_NewUserPassword (S O)) (zlen sec)
       then Err e_invalid
       else if holds (gd g_NewUserPassword (S (S O))) (zlen ra)
            then Err e_invalid
            else let enc = h (app sec ra) in
                 nup_loop h (S (length pt)) sec pt (xor_at enc O pt) (S (S (S
                   (S (S (S (S (S (S (S (S (S (S (S (S (S O))))))))))))))))

(** val up_loop :
    (bytes -> bytes) -> nat -> bytes -> bytes -> bytes -> nat -> bytes res **)

let rec up_loop h fuel sec a dec i =
  match fuel with
  | O -> OutOfFuel
  | S f ->
    if Nat.ltb i (length a)
    then (match slice a
                  (sub i (S (S (S (S (S (S (S (S (S (S (S (S (S (S (S (S
                    O))))))))))))))))) i with
          | Ok prev ->
            (match slice a i
                     (add i (S (S (S (S (S (S (S (S (S (S (S (S (S (S (S (S
                       O))))))))))))))))) with
             | Ok cur ->
               let dec' = app dec (h (app sec prev)) in
               up_loop h f sec a
                 (app (firstn i dec') (xor_pad (skipn i dec') cur))
                 (add i (S (S (S (S (S (S (S (S (S (S (S (S (S (S (S (S
                   O)))))))))))))))))
             | _ -> Panic)
          | _ -> Panic)
    else Ok dec

(** val user_password :
    (bytes -> bytes) -> bytes -> bytes -> bytes -> bytes res **)

let user_password h a sec ra =
  if (||)
       ((||) (holds (gd g_UserPassword O) (zlen a))
         (holds (gd g_UserPassword (S O)) (zlen a)))
       (holds (gd g_UserPassword (S (S O)))
         (Z.modulo (zlen a) (Zpos (XO (XO (XO (XO XH)))))))
  then Err e_invalid
  else if holds (gd g_UserPassword (S (S (S O)))) (zlen sec)
       then Err e_invalid
       else if holds (gd g_UserPassword (S (S (S (S O))))) (zlen ra)
            then Err e_invalid
            else (match slice a O (S (S (S (S (S (S (S (S (S (S (S (S (S (S
                          (S (S O)))))))))))))))) with
                  | Ok first ->
                    let dec = xor_pad (h (app sec ra)) first in
                    (match up_loop h (S (length a)) sec a dec (S (S (S (S (S
                             (S (S (S (S (S (S (S (S (S (S (S
                             O)))))))))))))))) with
                     | Ok d -> Ok (take_until_nul d)
                     | x -> x)
                  | _ -> Panic)

(** val xor_block : bytes -> nat -> bytes -> bytes res **)

let xor_block attr0 off b =
  if Nat.ltb (length attr0)
       (add off (S (S (S (S (S (S (S (S (S (S (S (S (S (S (S (S
         O)))))))))))))))))
  then Panic
  else Ok
         (app (firstn off attr0)
           (app
             (xor_pad
               (firstn (S (S (S (S (S (S (S (S (S (S (S (S (S (S (S (S
                 O)))))))))))))))) (skipn off attr0)) b)
             (skipn
               (add off (S (S (S (S (S (S (S (S (S (S (S (S (S (S (S (S
                 O))))))))))))))))) attr0)))

(** val ntp_loop :
    (bytes -> bytes) -> nat -> nat -> bytes -> bytes -> bytes -> bytes ->
    bytes res **)

let rec ntp_loop h n0 chunk sec ra salt attr0 =
  match n0 with
  | O -> Ok attr0
  | S n' ->
    let h0 =
      if Nat.eqb chunk O
      then Ok (h (app sec (app ra salt)))
      else (match slice attr0
                    (add (S (S O))
                      (mul (sub chunk (S O)) (S (S (S (S (S (S (S (S (S (S (S
                        (S (S (S (S (S O))))))))))))))))))
                    (add (S (S O))
                      (mul chunk (S (S (S (S (S (S (S (S (S (S (S (S (S (S (S
                        (S O)))))))))))))))))) with
            | Ok prev -> Ok (h (app sec prev))
            | _ -> Panic)
    in
    (match h0 with
     | Ok b ->
       (match xor_block attr0
                (add (S (S O))
                  (mul chunk (S (S (S (S (S (S (S (S (S (S (S (S (S (S (S (S
                    O)))))))))))))))))) b with
        | Ok attr' -> ntp_loop h n' (S chunk) sec ra salt attr'
        | _ -> Panic)
     | _ -> Panic)

(** val salt_msb_set : n -> bool **)

let salt_msb_set b =
  N.leb (Npos (XO (XO (XO (XO (XO (XO (XO XH))))))))
    (N.modulo b (Npos (XO (XO (XO (XO (XO (XO (XO (XO XH))))))))))

(** val new_tunnel_password :
    (bytes -> bytes) -> bytes -> bytes -> bytes -> bytes -> bytes res **)

let new_tunnel_password h pw salt sec ra =
  if holds (gd g_NewTunnelPassword O) (zlen pw)
  then Err e_invalid
  else if holds (gd g_NewTunnelPassword (S O)) (zlen salt)
       then Err e_invalid
       else (match salt with
             | [] -> Panic
             | s0 :: _ ->
               if negb (salt_msb_set s0)
               then Err e_invalid
               else if holds (gd g_NewTunnelPassword (S (S (S O)))) (zlen sec)
                    then Err e_invalid
                    else if holds (gd g_NewTunnelPassword (S (S (S (S O)))))
                              (zlen ra)
                         then Err e_invalid
                         else let chunks0 =
                                Nat.div
                                  (sub
                                    (add (add (S O) (length pw)) (S (S (S (S
                                      (S (S (S (S (S (S (S (S (S (S (S (S
                                      O))))))))))))))))) (S O)) (S (S (S (S
                                  (S (S (S (S (S (S (S (S (S (S (S (S
                                  O))))))))))))))))
                              in
                              let chunks1 =
                                if Nat.eqb chunks0 O then S O else chunks0
                              in
                              let attr0 =
                                app (firstn (S (S O)) salt)
                                  (pad_to
                                    (mul chunks1 (S (S (S (S (S (S (S (S (S
                                      (S (S (S (S (S (S (S O)))))))))))))))))
                                    ((zbyte (zlen pw)) :: pw))
                              in
                              ntp_loop h chunks1 O sec ra salt attr0)

(** val tp_loop :
    (bytes -> bytes) -> nat -> nat -> bytes -> bytes -> bytes -> bytes ->
    bytes -> bytes res **)

let rec tp_loop h n0 chunk sec ra salt a plain =
  match n0 with
  | O -> Ok plain
  | S n' ->
    let h0 =
      if Nat.eqb chunk O
      then Ok (h (app sec (app ra salt)))
      else (match slice a
                    (mul (sub chunk (S O)) (S (S (S (S (S (S (S (S (S (S (S
                      (S (S (S (S (S O)))))))))))))))))
                    (mul chunk (S (S (S (S (S (S (S (S (S (S (S (S (S (S (S
                      (S O))))))))))))))))) with
            | Ok prev -> Ok (h (app sec prev))
            | _ -> Panic)
    in
    (match h0 with
     | Ok b ->
       (match slice a
                (mul chunk (S (S (S (S (S (S (S (S (S (S (S (S (S (S (S (S
                  O)))))))))))))))))
                (add
                  (mul chunk (S (S (S (S (S (S (S (S (S (S (S (S (S (S (S (S
                    O))))))))))))))))) (S (S (S (S (S (S (S (S (S (S (S (S (S
                  (S (S (S O))))))))))))))))) with
        | Ok cur ->
          tp_loop h n' (S chunk) sec ra salt a (app plain (xor_pad cur b))
        | _ -> Panic)
     | _ -> Panic)

(** val tunnel_password :
    (bytes -> bytes) -> bytes -> bytes -> bytes -> (bytes * bytes) res **)

let tunnel_password h a sec ra =
  if (||)
       ((||) (holds (gd g_TunnelPassword O) (zlen a))
         (holds (gd g_TunnelPassword (S O)) (zlen a)))
       (holds (gd g_TunnelPassword (S (S O)))
         (Z.modulo (Z.sub (zlen a) (Zpos (XO XH))) (Zpos (XO (XO (XO (XO
           XH)))))))
  then Err e_invalid
  else if holds (gd g_TunnelPassword (S (S (S O)))) (zlen sec)
       then Err e_invalid
       else if holds (gd g_TunnelPassword (S (S (S (S O))))) (zlen ra)
            then Err e_invalid
            else (match a with
                  | [] -> Panic
                  | a0 :: _ ->
                    if negb (salt_msb_set a0)
                    then Err e_invalid
                    else (match slice a O (S (S O)) with
                          | Ok salt ->
                            let a' = skipn (S (S O)) a in
                            let chunks0 =
                              Nat.div (length a') (S (S (S (S (S (S (S (S (S
                                (S (S (S (S (S (S (S O))))))))))))))))
                            in
                            (match tp_loop h chunks0 O sec ra salt a' [] with
                             | Ok plain ->
                               (match plain with
                                | [] -> Panic
                                | pl :: _ ->
                                  if Z.gtb (Z.of_N pl)
                                       (Z.sub (zlen plain) (Zpos XH))
                                  then Err e_invalid
                                  else (match slice plain (S O)
                                                (N.to_nat
                                                  (N.modulo
                                                    (N.add (Npos XH) pl)
                                                    (Npos (XO (XO (XO (XO (XO
                                                    (XO (XO (XO XH))))))))))) with
                                        | Ok pw -> Ok (pw, salt)
                                        | _ -> Panic))
                             | Err e -> Err e
                             | Panic -> Panic
                             | OutOfFuel -> OutOfFuel)
                          | _ -> Panic))

(** val vSA_TYPE : z **)

let vSA_TYPE =
  Zpos (XO (XI (XO (XI XH))))

(** val walk : nat -> bytes -> (n * bytes) list * bytes **)

let rec walk fuel vsa =
  match fuel with
  | O -> ([], vsa)
  | S f ->
    (match vsa with
     | [] -> ([], vsa)
     | t :: l0 ->
       (match l0 with
        | [] -> ([], vsa)
        | l :: l1 ->
          (match l1 with
           | [] -> ([], vsa)
           | _ :: _ ->
             let n0 = N.to_nat l in
             if (||) (Nat.ltb (length vsa) n0) (Nat.ltb n0 (S (S (S O))))
             then ([], vsa)
             else let (subs, rest) = walk f (skipn n0 vsa) in
                  (((t, (firstn n0 vsa)) :: subs), rest))))

(** val subattrs : bytes -> (n * bytes) list * bytes **)

let subattrs payload =
  walk (length payload) payload

(** val vsa_payload : n -> avp -> bytes option **)

let vsa_payload vid a =
  if negb (Z.eqb a.atype vSA_TYPE)
  then None
  else (match vendor_specific a.aval with
        | Ok a0 ->
          let (id, payload) = a0 in
          if N.eqb id vid then Some payload else None
        | _ -> None)

(** val values_of : n -> (n * bytes) list -> bytes list **)

let values_of typ subs =
  map (fun s -> skipn (S (S O)) (snd s))
    (filter (fun s -> N.eqb (fst s) typ) subs)

(** val gets_vendor : n -> n -> attrs -> bytes list **)

let gets_vendor vid typ l =
  flat_map (fun a ->
    match vsa_payload vid a with
    | Some payload -> values_of typ (fst (subattrs payload))
    | None -> []) l

(** val vendor_tlv : n -> bytes -> bytes **)

let vendor_tlv typ a =
  typ :: ((zbyte (Z.add (Zpos (XO XH)) (zlen a))) :: a)

(** val add_vendor : n -> n -> bytes -> attrs -> attrs res **)

let add_vendor vid typ a l =
  if Nat.eqb (length a) O
  then Err e_invalid
  else (match new_vendor_specific vid (vendor_tlv typ a) with
        | Ok vsa -> Ok (add0 vSA_TYPE vsa l)
        | Err e -> Err e
        | Panic -> Panic
        | OutOfFuel -> OutOfFuel)

(** val strip : n -> bytes -> bool * bytes **)

let strip typ payload =
  let (subs, rest) = subattrs payload in
  ((existsb (fun s -> N.eqb (fst s) typ) subs),
  (app (flat_map snd (filter (fun s -> negb (N.eqb (fst s) typ)) subs)) rest))

(** val del_vendor : n -> n -> attrs -> attrs **)

let rec del_vendor vid typ = function
| [] -> []
| a :: r ->
  (match vsa_payload vid a with
   | Some payload ->
     let (removed, kept) = strip typ payload in
     if negb removed
     then a :: (del_vendor vid typ r)
     else (match kept with
           | [] -> del_vendor vid typ r
           | _ :: _ ->
             { atype = a.atype; aval =
               (app (firstn (S (S (S (S O)))) a.aval) kept) } :: (del_vendor
                                                                   vid typ r))
   | None -> a :: (del_vendor vid typ r))

(** val set_vendor : n -> n -> bytes -> attrs -> attrs res **)

let set_vendor vid typ a l =
  if Nat.eqb (length a) O
  then Err e_invalid
  else (match new_vendor_specific vid (vendor_tlv typ a) with
        | Ok vsa -> Ok (add0 vSA_TYPE vsa (del_vendor vid typ l))
        | Err e -> Err e
        | Panic -> Panic
        | OutOfFuel -> OutOfFuel)

type hkind =
| KBytes
| KConcat
| KIP4
| KIP6
| KIFID
| KPrefix
| KDate
| KInt of nat
| KByte

type hdesc = { h_type : z; h_kind : hkind; h_tag : bool; h_enc : z;
               h_size : z option; h_vendor : n option }

type gv = { g_b : bytes; g_u : z; g_mask : bytes }

(** val gv_b : bytes -> gv **)

let gv_b b =
  { g_b = b; g_u = Z0; g_mask = [] }

(** val gv_u : z -> gv **)

let gv_u u =
  { g_b = []; g_u = u; g_mask = [] }

(** val e_noattr : n **)

let e_noattr =
  Npos (XO (XO (XO (XI (XO XH)))))

(** val forced_salt : bytes -> bytes **)

let forced_salt = function
| [] -> []
| s0 :: r -> (N.coq_lor s0 (Npos (XO (XO (XO (XO (XO (XO (XO XH))))))))) :: r

(** val tp_wrap :
    (bytes -> bytes) -> packet -> bytes -> bytes -> bytes res **)

let tp_wrap hs p salt a =
  new_tunnel_password hs a (forced_salt salt) p.secret p.auth

(** val h_encode :
    (bytes -> bytes) -> hdesc -> packet -> bytes -> n -> gv -> bytes res **)

let h_encode hs d p salt tag v =
  match d.h_kind with
  | KBytes ->
    let size_ok =
      match d.h_size with
      | Some n0 -> Z.eqb (zlen v.g_b) n0
      | None -> true
    in
    if negb size_ok
    then Err e_invalid
    else bind
           (if Z.eqb d.h_enc (Zpos XH)
            then new_user_password hs v.g_b p.secret p.auth
            else if Z.eqb d.h_enc (Zpos (XO XH))
                 then tp_wrap hs p salt v.g_b
                 else new_bytes v.g_b) (fun a ->
           if (&&) d.h_tag (N.leb tag (Npos (XI (XI (XI (XI XH))))))
           then if Nat.ltb (S (S (S (S (S (S (S (S (S (S (S (S (S (S (S (S (S
                     (S (S (S (S (S (S (S (S (S (S (S (S (S (S (S (S (S (S (S
                     (S (S (S (S (S (S (S (S (S (S (S (S (S (S (S (S (S (S (S
                     (S (S (S (S (S (S (S (S (S (S (S (S (S (S (S (S (S (S (S
                     (S (S (S (S (S (S (S (S (S (S (S (S (S (S (S (S (S (S (S
                     (S (S (S (S (S (S (S (S (S (S (S (S (S (S (S (S (S (S (S
                     (S (S (S (S (S (S (S (S (S (S (S (S (S (S (S (S (S (S (S
                     (S (S (S (S (S (S (S (S (S (S (S (S (S (S (S (S (S (S (S
                     (S (S (S (S (S (S (S (S (S (S (S (S (S (S (S (S (S (S (S
                     (S (S (S (S (S (S (S (S (S (S (S (S (S (S (S (S (S (S (S
                     (S (S (S (S (S (S (S (S (S (S (S (S (S (S (S (S (S (S (S
                     (S (S (S (S (S (S (S (S (S (S (S (S (S (S (S (S (S (S (S
                     (S (S (S (S (S (S (S (S (S (S (S (S (S (S (S (S (S (S (S
                     (S (S (S (S (S (S (S
                     O))))))))))))))))))))))))))))))))))))))))))))))))))))))))))))))))))))))))))))))))))))))))))))))))))))))))))))))))))))))))))))))))))))))))))))))))))))))))))))))))))))))))))))))))))))))))))))))))))))))))))))))))))))))))))))))))))))))))))))))))))))))))))))
                     (length a)
                then Err e_invalid
                else Ok (tag :: a)
           else Ok a)
  | KConcat -> Ok v.g_b
  | KIP4 ->
    bind (new_ipaddr v.g_b) (fun a ->
      if Z.eqb d.h_enc (Zpos (XO XH)) then tp_wrap hs p salt a else Ok a)
  | KIP6 ->
    bind (new_ipv6addr v.g_b) (fun a ->
      if Z.eqb d.h_enc (Zpos (XO XH)) then tp_wrap hs p salt a else Ok a)
  | KIFID -> new_ifid v.g_b
  | KPrefix -> new_ipv6prefix v.g_b v.g_mask
  | KDate -> new_date v.g_u
  | KInt n0 ->
    let a = be_enc n0 (Z.to_N v.g_u) in
    if d.h_tag
    then if Z.gtb v.g_u (Zpos (XI (XI (XI (XI (XI (XI (XI (XI (XI (XI (XI (XI
              (XI (XI (XI (XI (XI (XI (XI (XI (XI (XI (XI
              XH))))))))))))))))))))))))
         then Err e_invalid
         else Ok
                ((if (&&) (N.leb (Npos XH) tag)
                       (N.leb tag (Npos (XI (XI (XI (XI XH))))))
                  then tag
                  else N0) :: (skipn (S O) a))
    else if Z.eqb d.h_enc (Zpos (XO XH)) then tp_wrap hs p salt a else Ok a
  | KByte -> Ok ((Z.to_N v.g_u) :: [])

(** val chunks : nat -> bytes -> bytes list **)

let rec chunks fuel v =
  match fuel with
  | O -> []
  | S f ->
    (match v with
     | [] -> []
     | _ :: _ ->
       (firstn (S (S (S (S (S (S (S (S (S (S (S (S (S (S (S (S (S (S (S (S (S
         (S (S (S (S (S (S (S (S (S (S (S (S (S (S (S (S (S (S (S (S (S (S (S
         (S (S (S (S (S (S (S (S (S (S (S (S (S (S (S (S (S (S (S (S (S (S (S
         (S (S (S (S (S (S (S (S (S (S (S (S (S (S (S (S (S (S (S (S (S (S (S
         (S (S (S (S (S (S (S (S (S (S (S (S (S (S (S (S (S (S (S (S (S (S (S
         (S (S (S (S (S (S (S (S (S (S (S (S (S (S (S (S (S (S (S (S (S (S (S
         (S (S (S (S (S (S (S (S (S (S (S (S (S (S (S (S (S (S (S (S (S (S (S
         (S (S (S (S (S (S (S (S (S (S (S (S (S (S (S (S (S (S (S (S (S (S (S
         (S (S (S (S (S (S (S (S (S (S (S (S (S (S (S (S (S (S (S (S (S (S (S
         (S (S (S (S (S (S (S (S (S (S (S (S (S (S (S (S (S (S (S (S (S (S (S
         (S (S (S (S (S (S (S (S (S (S (S (S (S (S (S (S (S (S (S (S (S (S (S
         (S (S
         O)))))))))))))))))))))))))))))))))))))))))))))))))))))))))))))))))))))))))))))))))))))))))))))))))))))))))))))))))))))))))))))))))))))))))))))))))))))))))))))))))))))))))))))))))))))))))))))))))))))))))))))))))))))))))))))))))))))))))))))))))))))))))))))
         v) :: (chunks f
                 (skipn (S (S (S (S (S (S (S (S (S (S (S (S (S (S (S (S (S (S
                   (S (S (S (S (S (S (S (S (S (S (S (S (S (S (S (S (S (S (S
                   (S (S (S (S (S (S (S (S (S (S (S (S (S (S (S (S (S (S (S
                   (S (S (S (S (S (S (S (S (S (S (S (S (S (S (S (S (S (S (S
                   (S (S (S (S (S (S (S (S (S (S (S (S (S (S (S (S (S (S (S
                   (S (S (S (S (S (S (S (S (S (S (S (S (S (S (S (S (S (S (S
                   (S (S (S (S (S (S (S (S (S (S (S (S (S (S (S (S (S (S (S
                   (S (S (S (S (S (S (S (S (S (S (S (S (S (S (S (S (S (S (S
                   (S (S (S (S (S (S (S (S (S (S (S (S (S (S (S (S (S (S (S
                   (S (S (S (S (S (S (S (S (S (S (S (S (S (S (S (S (S (S (S
                   (S (S (S (S (S (S (S (S (S (S (S (S (S (S (S (S (S (S (S
                   (S (S (S (S (S (S (S (S (S (S (S (S (S (S (S (S (S (S (S
                   (S (S (S (S (S (S (S (S (S (S (S (S (S (S (S (S (S (S (S
                   (S (S (S (S (S (S (S
                   O)))))))))))))))))))))))))))))))))))))))))))))))))))))))))))))))))))))))))))))))))))))))))))))))))))))))))))))))))))))))))))))))))))))))))))))))))))))))))))))))))))))))))))))))))))))))))))))))))))))))))))))))))))))))))))))))))))))))))))))))))))))))))))))
                   v)))

(** val h_add :
    (bytes -> bytes) -> hdesc -> packet -> bytes -> n -> gv -> packet res **)

let h_add hs d p salt tag v =
  bind (h_encode hs d p salt tag v) (fun a ->
    match d.h_vendor with
    | Some vid ->
      bind (add_vendor vid (Z.to_N d.h_type) a p.pattrs) (fun l -> Ok
        { code = p.code; ident = p.ident; auth = p.auth; secret = p.secret;
        pattrs = l })
    | None ->
      Ok { code = p.code; ident = p.ident; auth = p.auth; secret = p.secret;
        pattrs = (add0 d.h_type a p.pattrs) })

(** val h_set :
    (bytes -> bytes) -> hdesc -> packet -> bytes -> n -> gv -> packet res **)

let h_set hs d p salt tag v =
  bind (h_encode hs d p salt tag v) (fun a ->
    match d.h_kind with
    | KConcat ->
      bind (del d.h_type p.pattrs) (fun l -> Ok { code = p.code; ident =
        p.ident; auth = p.auth; secret = p.secret; pattrs =
        (app l
          (map (fun c -> { atype = d.h_type; aval = c })
            (chunks (S (length a)) a))) })
    | _ ->
      (match d.h_vendor with
       | Some vid ->
         bind (set_vendor vid (Z.to_N d.h_type) a p.pattrs) (fun l -> Ok
           { code = p.code; ident = p.ident; auth = p.auth; secret =
           p.secret; pattrs = l })
       | None ->
         bind (set d.h_type a p.pattrs) (fun l -> Ok { code = p.code; ident =
           p.ident; auth = p.auth; secret = p.secret; pattrs = l })))

(** val h_del : hdesc -> packet -> packet res **)

let h_del d p =
  match d.h_vendor with
  | Some vid ->
    Ok { code = p.code; ident = p.ident; auth = p.auth; secret = p.secret;
      pattrs = (del_vendor vid (Z.to_N d.h_type) p.pattrs) }
  | None ->
    bind (del d.h_type p.pattrs) (fun l -> Ok { code = p.code; ident =
      p.ident; auth = p.auth; secret = p.secret; pattrs = l })

(** val h_decode :
    (bytes -> bytes) -> hdesc -> packet -> packet -> bytes -> (n * gv) res **)

let h_decode hs d p q a =
  match d.h_kind with
  | KIP4 ->
    bind
      (if Z.eqb d.h_enc (Zpos (XO XH))
       then bind (tunnel_password hs a p.secret q.auth) (fun r -> Ok (fst r))
       else Ok a) (fun a' -> bind (ipaddr a') (fun v -> Ok (N0, (gv_b v))))
  | KIP6 ->
    bind
      (if Z.eqb d.h_enc (Zpos (XO XH))
       then bind (tunnel_password hs a p.secret q.auth) (fun r -> Ok (fst r))
       else Ok a) (fun a' -> bind (ipv6addr a') (fun v -> Ok (N0, (gv_b v))))
  | KIFID -> bind (ifid a) (fun v -> Ok (N0, (gv_b v)))
  | KPrefix ->
    bind (ipv6prefix a) (fun r -> Ok (N0, { g_b = (fst r); g_u = Z0; g_mask =
      (snd r) }))
  | KDate -> bind (date a) (fun u -> Ok (N0, (gv_u u)))
  | KInt n0 ->
    (match a with
     | [] ->
       let tag = N0 in
       bind
         (if (&&) (negb d.h_tag) (Z.eqb d.h_enc (Zpos (XO XH)))
          then bind (tunnel_password hs a p.secret q.auth) (fun r -> Ok
                 (fst r))
          else Ok a) (fun a'' ->
         if negb (Nat.eqb (length a'') n0)
         then Err e_invalid
         else Ok (tag, (gv_u (Z.of_N (be_dec a'')))))
     | t :: r ->
       if (&&) d.h_tag (N.leb t (Npos (XI (XI (XI (XI XH))))))
       then let a' = N0 :: r in
            bind
              (if (&&) (negb d.h_tag) (Z.eqb d.h_enc (Zpos (XO XH)))
               then bind (tunnel_password hs a' p.secret q.auth) (fun r0 ->
                      Ok (fst r0))
               else Ok a') (fun a'' ->
              if negb (Nat.eqb (length a'') n0)
              then Err e_invalid
              else Ok (t, (gv_u (Z.of_N (be_dec a'')))))
       else let tag = N0 in
            bind
              (if (&&) (negb d.h_tag) (Z.eqb d.h_enc (Zpos (XO XH)))
               then bind (tunnel_password hs a p.secret q.auth) (fun r0 -> Ok
                      (fst r0))
               else Ok a) (fun a'' ->
              if negb (Nat.eqb (length a'') n0)
              then Err e_invalid
              else Ok (tag, (gv_u (Z.of_N (be_dec a''))))))
  | KByte ->
    (match a with
     | [] -> Err e_invalid
     | b :: l ->
       (match l with
        | [] -> Ok (N0, (gv_u (Z.of_N b)))
        | _ :: _ -> Err e_invalid))
  | _ ->
    (match a with
     | [] ->
       let tag = N0 in
       bind
         (if Z.eqb d.h_enc (Zpos XH)
          then user_password hs a p.secret p.auth
          else if Z.eqb d.h_enc (Zpos (XO XH))
               then bind (tunnel_password hs a p.secret q.auth) (fun r -> Ok
                      (fst r))
               else Ok a) (fun v ->
         match d.h_size with
         | Some n0 ->
           if negb (Z.eqb (zlen v) n0)
           then Err e_invalid
           else Ok (tag, (gv_b v))
         | None -> Ok (tag, (gv_b v)))
     | t :: r ->
       if (&&) d.h_tag (N.leb t (Npos (XI (XI (XI (XI XH))))))
       then bind
              (if Z.eqb d.h_enc (Zpos XH)
               then user_password hs r p.secret p.auth
               else if Z.eqb d.h_enc (Zpos (XO XH))
                    then bind (tunnel_password hs r p.secret q.auth)
                           (fun r0 -> Ok (fst r0))
                    else Ok r) (fun v ->
              match d.h_size with
              | Some n0 ->
                if negb (Z.eqb (zlen v) n0)
                then Err e_invalid
                else Ok (t, (gv_b v))
              | None -> Ok (t, (gv_b v)))
       else let tag = N0 in
            bind
              (if Z.eqb d.h_enc (Zpos XH)
               then user_password hs a p.secret p.auth
               else if Z.eqb d.h_enc (Zpos (XO XH))
                    then bind (tunnel_password hs a p.secret q.auth)
                           (fun r0 -> Ok (fst r0))
                    else Ok a) (fun v ->
              match d.h_size with
              | Some n0 ->
                if negb (Z.eqb (zlen v) n0)
                then Err e_invalid
                else Ok (tag, (gv_b v))
              | None -> Ok (tag, (gv_b v))))

(** val h_raw : hdesc -> packet -> bytes list **)

let h_raw d p =
  match d.h_vendor with
  | Some vid -> gets_vendor vid (Z.to_N d.h_type) p.pattrs
  | None ->
    map (fun a -> a.aval) (filter (fun a -> Z.eqb a.atype d.h_type) p.pattrs)

(** val h_lookup :
    (bytes -> bytes) -> hdesc -> packet -> packet -> (n * gv) res **)

let h_lookup hs d p q =
  match d.h_kind with
  | KConcat ->
    (match h_raw d p with
     | [] -> Err e_noattr
     | b :: l0 -> Ok (N0, (gv_b (concat (b :: l0)))))
  | _ ->
    (match h_raw d p with
     | [] -> Err e_noattr
     | a :: _ -> h_decode hs d p q a)

(** val decode_all :
    (bytes -> bytes) -> hdesc -> packet -> packet -> bytes list -> (n * gv)
    list res **)

let rec decode_all hs d p q = function
| [] -> Ok []
| a :: r ->
  bind (h_decode hs d p q a) (fun x ->
    bind (decode_all hs d p q r) (fun xs -> Ok (x :: xs)))

(** val h_gets :
    (bytes -> bytes) -> hdesc -> packet -> packet -> (n * gv) list res **)

let h_gets hs d p q =
  decode_all hs d p q (h_raw d p)

type heap = bytes list

type slice0 = { s_addr : nat; s_off : nat; s_len : nat }

(** val cell : heap -> nat -> bytes **)

let cell h a =
  nth a h []

(** val rd : heap -> slice0 -> bytes **)

let rd h s =
  firstn s.s_len (skipn s.s_off (cell h s.s_addr))

(** val alloc : heap -> bytes -> heap * slice0 **)

let alloc h b =
  ((app h (b :: [])), { s_addr = (length h); s_off = O; s_len = (length b) })

(** val set_nth : nat -> 'a1 -> 'a1 list -> 'a1 list **)

let rec set_nth n0 x = function
| [] -> []
| y :: r -> (match n0 with
             | O -> x :: r
             | S n' -> y :: (set_nth n' x r))

(** val wr : heap -> slice0 -> nat -> n -> heap **)

let wr h s i v =
  if Nat.ltb i s.s_len
  then set_nth s.s_addr (set_nth (add s.s_off i) v (cell h s.s_addr)) h
  else h

type mpacket = { mp_code : z; mp_ident : n; mp_auth : bytes;
                 mp_secret : slice0; mp_attrs : (z * slice0) list }

(** val pview : heap -> mpacket -> packet **)

let pview h m =
  { code = m.mp_code; ident = m.mp_ident; auth = m.mp_auth; secret =
    (rd h m.mp_secret); pattrs =
    (map (fun a -> { atype = (fst a); aval = (rd h (snd a)) }) m.mp_attrs) }

(** val sub_slices : n -> slice0 -> nat -> (n * bytes) list -> slice0 list **)

let rec sub_slices typ base off = function
| [] -> []
| p :: r ->
  let (t, tlv0) = p in
  app
    (if N.eqb t typ
     then { s_addr = base.s_addr; s_off =
            (add (add base.s_off off) (S (S O))); s_len =
            (sub (length tlv0) (S (S O))) } :: []
     else []) (sub_slices typ base (add off (length tlv0)) r)

(** val m_raw : hdesc -> heap -> mpacket -> slice0 list **)

let m_raw d h m =
  match d.h_vendor with
  | Some vid ->
    flat_map (fun a ->
      match vsa_payload vid { atype = (fst a); aval = (rd h (snd a)) } with
      | Some payload ->
        sub_slices (Z.to_N d.h_type) (snd a) (S (S (S (S O))))
          (fst (subattrs payload))
      | None -> []) m.mp_attrs
  | None -> map snd (filter (fun a -> Z.eqb (fst a) d.h_type) m.mp_attrs)

(** val is_tagged_int : hdesc -> bool **)

let is_tagged_int d =
  (&&) d.h_tag (match d.h_kind with
                | KInt _ -> true
                | _ -> false)

type mval = { v_tag : n; v_b : slice0; v_u : z; v_mask : slice0 }

(** val give : heap -> (n * gv) -> heap * mval **)

let give h x =
  let (h1, sb) = alloc h (snd x).g_b in
  let (h2, sm) = alloc h1 (snd x).g_mask in
  (h2, { v_tag = (fst x); v_b = sb; v_u = (snd x).g_u; v_mask = sm })

(** val clear_tag : bool -> hdesc -> heap -> slice0 -> heap **)

let clear_tag legacy d h s =
  if (&&) legacy (is_tagged_int d)
  then (match rd h s with
        | [] -> h
        | t :: _ ->
          if N.leb t (Npos (XI (XI (XI (XI XH))))) then wr h s O N0 else h)
  else h

(** val m_lookup :
    (bytes -> bytes) -> bool -> hdesc -> heap -> mpacket -> packet ->
    heap * mval res **)

let m_lookup hs legacy d h m q =
  match m_raw d h m with
  | [] -> (h, (Err e_noattr))
  | s :: _ ->
    (match d.h_kind with
     | KConcat ->
       let (h', v) = give h (N0, (gv_b (concat (map (rd h) (m_raw d h m)))))
       in
       (h', (Ok v))
     | _ ->
       let r = h_decode hs d (pview h m) q (rd h s) in
       let h1 = clear_tag legacy d h s in
       (match r with
        | Ok x -> let (h', v) = give h1 x in (h', (Ok v))
        | Err e -> (h1, (Err e))
        | Panic -> (h1, Panic)
        | OutOfFuel -> (h1, OutOfFuel)))

(** val m_gets_loop :
    (bytes -> bytes) -> bool -> hdesc -> heap -> mpacket -> packet -> slice0
    list -> heap * mval list res **)

let rec m_gets_loop hs legacy d h m q = function
| [] -> (h, (Ok []))
| s :: r ->
  let x = h_decode hs d (pview h m) q (rd h s) in
  let h1 = clear_tag legacy d h s in
  (match x with
   | Ok x0 ->
     let (h2, v) = give h1 x0 in
     let (h3, e) = m_gets_loop hs legacy d h2 m q r in
     (match e with
      | Ok vs -> (h3, (Ok (v :: vs)))
      | _ -> (h3, e))
   | Err e -> (h1, (Err e))
   | Panic -> (h1, Panic)
   | OutOfFuel -> (h1, OutOfFuel))

(** val m_gets :
    (bytes -> bytes) -> bool -> hdesc -> heap -> mpacket -> packet ->
    heap * mval list res **)

let m_gets hs legacy d h m q =
  m_gets_loop hs legacy d h m q (m_raw d h m)

(** val val_view : heap -> mval -> n * gv **)

let val_view h v =
  (v.v_tag, { g_b = (rd h v.v_b); g_u = v.v_u; g_mask = (rd h v.v_mask) })

(** val e_nonauth : n **)

let e_nonauth =
  Npos (XI (XO (XO XH)))

type outcome =
| Returned of packet * nat
| Failed of n * nat
| Waiting of z

(** val over_budget : z -> nat -> z -> bool **)

let over_budget max_errors g count =
  (&&) (holds (gd g_Client_Exchange g) max_errors) (Z.geb count max_errors)

(** val client_loop :
    (bytes -> bytes) -> z -> bool -> bytes -> bytes -> bytes list -> z -> nat
    -> outcome **)

let rec client_loop h max_errors skip_verify wire sec ds count i =
  match ds with
  | [] -> Waiting count
  | d :: r ->
    let d0 = firstn (Z.to_nat k_MaxPacketLength) d in
    (match parse d0 sec with
     | Ok p ->
       if (&&) (negb skip_verify) (negb (is_authentic_response h d0 wire sec))
       then let count0 = Z.add count (Zpos XH) in
            if over_budget max_errors (S (S O)) count0
            then Failed (e_nonauth, i)
            else client_loop h max_errors skip_verify wire sec r count0 (S i)
       else Returned (p, i)
     | Err e ->
       let count0 = Z.add count (Zpos XH) in
       if over_budget max_errors (S O) count0
       then Failed (e, i)
       else client_loop h max_errors skip_verify wire sec r count0 (S i)
     | Panic -> Failed ((Npos (XO (XI (XO (XO (XO (XI XH))))))), i)
     | OutOfFuel -> Failed ((Npos (XI (XI (XO (XO (XO (XI XH))))))), i))

(** val exchange_recv :
    (bytes -> bytes) -> z -> bool -> bytes -> bytes -> bytes list -> outcome **)

let exchange_recv h max_errors skip_verify wire sec ds =
  client_loop h max_errors skip_verify wire sec ds Z0 O

type xret =
| XPacket of packet
| XErr of n
| XCtxErr
| XNetErr

type mpc =
| M_start
| M_dialled
| M_reading of z
| M_returned of xret

type hpc =
| Hp_none
| Hp_running
| Hp_exited

type xstate = { xmain : mpc; xhelper : hpc; ctx_done : bool;
                derived_done : bool; conn_closed : bool;
                ticker_stopped : bool; sent : bytes list }

type xevent =
| XStep
| XDialFail
| XDatagram of bytes
| XReadErr
| XTick
| XCtxDone
| XHelper

(** val xinit : xstate **)

let xinit =
  { xmain = M_start; xhelper = Hp_none; ctx_done = false; derived_done =
    false; conn_closed = false; ticker_stopped = false; sent = [] }

(** val set_main : xstate -> mpc -> xstate **)

let set_main s m =
  { xmain = m; xhelper = s.xhelper; ctx_done = s.ctx_done; derived_done =
    s.derived_done; conn_closed = s.conn_closed; ticker_stopped =
    s.ticker_stopped; sent = s.sent }

(** val do_return : xstate -> xret -> xstate **)

let do_return s r =
  { xmain = (M_returned r); xhelper = s.xhelper; ctx_done = s.ctx_done;
    derived_done = true; conn_closed = true; ticker_stopped = true; sent =
    s.sent }

(** val write : xstate -> bytes -> bytes list **)

let write s w =
  if s.conn_closed then s.sent else app s.sent (w :: [])

(** val xstep :
    (bytes -> bytes) -> z -> z -> bool -> packet -> xstate -> xevent -> xstate **)

let xstep h retry max_errors skip_verify request0 s = function
| XStep ->
  (match s.xmain with
   | M_start ->
     (match encode h request0 with
      | Ok _ -> set_main s M_dialled
      | Err e0 ->
        { xmain = (M_returned (XErr e0)); xhelper = Hp_none; ctx_done =
          s.ctx_done; derived_done = s.derived_done; conn_closed = true;
          ticker_stopped = true; sent = s.sent }
      | _ ->
        { xmain = (M_returned (XErr (Npos (XO (XI (XO (XO (XO (XI
          XH))))))))); xhelper = Hp_none; ctx_done = s.ctx_done;
          derived_done = s.derived_done; conn_closed = true; ticker_stopped =
          true; sent = s.sent })
   | M_dialled ->
     (match encode h request0 with
      | Ok w ->
        { xmain = (M_reading Z0); xhelper = Hp_running; ctx_done =
          s.ctx_done; derived_done = s.derived_done; conn_closed =
          s.conn_closed; ticker_stopped =
          (negb (holds (gd g_Client_Exchange O) retry)); sent = (write s w) }
      | _ -> s)
   | M_reading _ ->
     if s.conn_closed
     then do_return s (if s.derived_done then XCtxErr else XNetErr)
     else s
   | M_returned _ -> s)
| XDialFail ->
  (match s.xmain with
   | M_dialled ->
     { xmain = (M_returned (if s.ctx_done then XCtxErr else XNetErr));
       xhelper = Hp_none; ctx_done = s.ctx_done; derived_done =
       s.derived_done; conn_closed = true; ticker_stopped = true; sent =
       s.sent }
   | _ -> s)
| XDatagram d ->
  (match s.xmain with
   | M_reading count ->
     if s.conn_closed
     then s
     else (match encode h request0 with
           | Ok w ->
             (match client_loop h max_errors skip_verify w request0.secret
                      (d :: []) count O with
              | Returned (p, _) -> do_return s (XPacket p)
              | Failed (e0, _) -> do_return s (XErr e0)
              | Waiting c -> set_main s (M_reading c))
           | _ -> s)
   | _ -> s)
| XReadErr ->
  (match s.xmain with
   | M_reading _ -> do_return s (if s.derived_done then XCtxErr else XNetErr)
   | _ -> s)
| XTick ->
  (match s.xhelper with
   | Hp_running ->
     (match encode h request0 with
      | Ok w ->
        if s.ticker_stopped
        then s
        else { xmain = s.xmain; xhelper = s.xhelper; ctx_done = s.ctx_done;
               derived_done = s.derived_done; conn_closed = s.conn_closed;
               ticker_stopped = s.ticker_stopped; sent = (write s w) }
      | _ -> s)
   | _ -> s)
| XCtxDone ->
  { xmain = s.xmain; xhelper = s.xhelper; ctx_done = true; derived_done =
    true; conn_closed = s.conn_closed; ticker_stopped = s.ticker_stopped;
    sent = s.sent }
| XHelper ->
  (match s.xhelper with
   | Hp_running ->
     if s.derived_done
     then { xmain = s.xmain; xhelper = Hp_exited; ctx_done = s.ctx_done;
            derived_done = s.derived_done; conn_closed = true;
            ticker_stopped = s.ticker_stopped; sent = s.sent }
     else s
   | _ -> s)

(** val xrun :
    (bytes -> bytes) -> z -> z -> bool -> packet -> xstate -> xevent list ->
    xstate **)

let rec xrun h retry max_errors skip_verify request0 s = function
| [] -> s
| e :: r ->
  xrun h retry max_errors skip_verify request0
    (xstep h retry max_errors skip_verify request0 s e) r

type str = bytes

(** val s2b : string -> str **)

let s2b s =
  map n_of_ascii (list_ascii_of_string s)

type attr = { a_name : str; a_oid : z list; a_type : z; a_size : z option;
              a_encrypt : z option; a_has_tag : bool; a_concat : bool }

type value = { v_attr : str; v_name : str; v_number : z }

type vendor = { vn_name : str; vn_number : z; vn_format : (z * z) option;
                vn_attrs : attr list; vn_values : value list }

type dict = { d_attrs : attr list; d_values : value list;
              d_vendors : vendor list }

(** val empty_dict : dict **)

let empty_dict =
  { d_attrs = []; d_values = []; d_vendors = [] }

(** val pE_oid : n **)

let pE_oid =
  Npos XH

(** val pE_type : n **)

let pE_type =
  Npos (XO XH)

(** val pE_dupflag : n **)

let pE_dupflag =
  Npos (XI XH)

(** val pE_enctype : n **)

let pE_enctype =
  Npos (XO (XO XH))

(** val pE_flag : n **)

let pE_flag =
  Npos (XI (XO XH))

(** val pE_dupattr : n **)

let pE_dupattr =
  Npos (XO (XI XH))

(** val pE_valnum : n **)

let pE_valnum =
  Npos (XI (XI XH))

(** val pE_vendnum : n **)

let pE_vendnum =
  Npos (XO (XO (XO XH)))

(** val pE_vendfmt : n **)

let pE_vendfmt =
  Npos (XI (XO (XO XH)))

(** val pE_dupvendor : n **)

let pE_dupvendor =
  Npos (XO (XI (XO XH)))

(** val pE_nested : n **)

let pE_nested =
  Npos (XI (XI (XO XH)))

(** val pE_unkvendor : n **)

let pE_unkvendor =
  Npos (XO (XO (XI XH)))

(** val pE_unmatched : n **)

let pE_unmatched =
  Npos (XI (XO (XI XH)))

(** val pE_badend : n **)

let pE_badend =
  Npos (XO (XI (XI XH)))

(** val pE_incl_in_block : n **)

let pE_incl_in_block =
  Npos (XI (XI (XI XH)))

(** val pE_open : n **)

let pE_open =
  Npos (XO (XO (XO (XO XH))))

(** val pE_recursive : n **)

let pE_recursive =
  Npos (XI (XO (XO (XO XH))))

(** val pE_unkline : n **)

let pE_unkline =
  Npos (XO (XI (XO (XO XH))))

(** val pE_unclosed : n **)

let pE_unclosed =
  Npos (XI (XI (XO (XO XH))))

(** val pE_scan : n **)

let pE_scan =
  Npos (XO (XO (XI (XO XH))))

type perr =
| ParseErr of n * str * nat
| PlainErr of n

type 'a pres =
| POk of 'a
| PFail of perr
| PFuel

(** val frev : 'a1 list -> 'a1 list **)

let frev l =
  rev_append l []

(** val is_space : n -> bool **)

let is_space b =
  (||)
    ((||)
      ((||)
        ((||)
          ((||) (N.eqb b (Npos (XI (XO (XO XH)))))
            (N.eqb b (Npos (XO (XI (XO XH))))))
          (N.eqb b (Npos (XI (XI (XO XH))))))
        (N.eqb b (Npos (XO (XO (XI XH))))))
      (N.eqb b (Npos (XI (XO (XI XH))))))
    (N.eqb b (Npos (XO (XO (XO (XO (XO XH)))))))

(** val fields_acc : n list -> bytes -> str list **)

let rec fields_acc cur = function
| [] -> (match cur with
         | [] -> []
         | _ :: _ -> (frev cur) :: [])
| b :: r ->
  if is_space b
  then (match cur with
        | [] -> fields_acc [] r
        | _ :: _ -> (frev cur) :: (fields_acc [] r))
  else fields_acc (b :: cur) r

(** val fields : bytes -> str list **)

let fields s =
  fields_acc [] s

(** val drop_cr : bytes -> bytes **)

let drop_cr l =
  match frev l with
  | [] -> l
  | n0 :: r ->
    (match n0 with
     | N0 -> l
     | Npos p ->
       (match p with
        | XI p0 ->
          (match p0 with
           | XO p1 ->
             (match p1 with
              | XI p2 -> (match p2 with
                          | XH -> frev r
                          | _ -> l)
              | _ -> l)
           | _ -> l)
        | _ -> l))

(** val lines_acc : n list -> bytes -> bytes list **)

let rec lines_acc cur = function
| [] -> (match cur with
         | [] -> []
         | _ :: _ -> (drop_cr (frev cur)) :: [])
| b :: r ->
  if N.eqb b (Npos (XO (XI (XO XH))))
  then (drop_cr (frev cur)) :: (lines_acc [] r)
  else lines_acc (b :: cur) r

(** val scan_lines : bytes -> bytes list **)

let scan_lines s =
  lines_acc [] s

(** val max_token : n **)

let max_token =
  Npos (XO (XO (XO (XO (XO (XO (XO (XO (XO (XO (XO (XO (XO (XO (XO (XO
    XH))))))))))))))))

(** val strip_comment : bytes -> bytes **)

let rec strip_comment = function
| [] -> []
| b :: r ->
  if N.eqb b (Npos (XI (XI (XO (XO (XO XH))))))
  then []
  else b :: (strip_comment r)

(** val digit_val : n -> z option **)

let digit_val b =
  if (&&) (N.leb (Npos (XO (XO (XO (XO (XI XH)))))) b)
       (N.leb b (Npos (XI (XO (XO (XI (XI XH)))))))
  then Some (Z.sub (Z.of_N b) (Zpos (XO (XO (XO (XO (XI XH)))))))
  else if (&&) (N.leb (Npos (XI (XO (XO (XO (XO (XI XH))))))) b)
            (N.leb b (Npos (XO (XI (XI (XO (XO (XI XH))))))))
       then Some (Z.sub (Z.of_N b) (Zpos (XI (XI (XI (XO (XI (XO XH))))))))
       else if (&&) (N.leb (Npos (XI (XO (XO (XO (XO (XO XH))))))) b)
                 (N.leb b (Npos (XO (XI (XI (XO (XO (XO XH))))))))
            then Some (Z.sub (Z.of_N b) (Zpos (XI (XI (XI (XO (XI XH)))))))
            else None

(** val digits_val : z -> z -> bytes -> z option **)

let rec digits_val base acc = function
| [] -> Some acc
| b :: r ->
  (match digit_val b with
   | Some d ->
     if Z.ltb d base
     then digits_val base (Z.add (Z.mul acc base) d) r
     else None
   | None -> None)

(** val parse_uint32 : z -> bytes -> z option **)

let parse_uint32 base s = match s with
| [] -> None
| _ :: _ ->
  (match digits_val base Z0 s with
   | Some v ->
     if Z.ltb v (Zpos (XO (XO (XO (XO (XO (XO (XO (XO (XO (XO (XO (XO (XO (XO
          (XO (XO (XO (XO (XO (XO (XO (XO (XO (XO (XO (XO (XO (XO (XO (XO (XO
          (XO XH)))))))))))))))))))))))))))))))))
     then Some v
     else None
   | None -> None)

(** val int32_body : bool -> bytes -> z option **)

let int32_body neg body = match body with
| [] -> None
| _ :: _ ->
  (match digits_val (Zpos (XO (XI (XO XH)))) Z0 body with
   | Some v ->
     if neg
     then if Z.leb v (Zpos (XO (XO (XO (XO (XO (XO (XO (XO (XO (XO (XO (XO
               (XO (XO (XO (XO (XO (XO (XO (XO (XO (XO (XO (XO (XO (XO (XO
               (XO (XO (XO (XO XH))))))))))))))))))))))))))))))))
          then Some (Z.opp v)
          else None
     else if Z.ltb v (Zpos (XO (XO (XO (XO (XO (XO (XO (XO (XO (XO (XO (XO
               (XO (XO (XO (XO (XO (XO (XO (XO (XO (XO (XO (XO (XO (XO (XO
               (XO (XO (XO (XO XH))))))))))))))))))))))))))))))))
          then Some v
          else None
   | None -> None)

(** val parse_int32 : bytes -> z option **)

let parse_int32 s = match s with
| [] -> None
| b :: r ->
  if N.eqb b (Npos (XI (XI (XO (XI (XO XH))))))
  then int32_body false r
  else if N.eqb b (Npos (XI (XO (XI (XI (XO XH))))))
       then int32_body true r
       else int32_body false s

(** val parse_oid_aux : bool -> z list -> bytes -> z list option **)

let rec parse_oid_aux first acc = function
| [] -> Some (frev acc)
| b :: r ->
  if N.eqb b (Npos (XO (XI (XI (XI (XO XH))))))
  then if first
       then None
       else (match r with
             | [] -> None
             | n0 :: _ ->
               if (&&) (N.leb (Npos (XO (XO (XO (XO (XI XH)))))) n0)
                    (N.leb n0 (Npos (XI (XO (XO (XI (XI XH)))))))
               then parse_oid_aux false (Z0 :: acc) r
               else None)
  else if (&&) (N.leb (Npos (XO (XO (XO (XO (XI XH)))))) b)
            (N.leb b (Npos (XI (XO (XO (XI (XI XH)))))))
       then let acc' = if first then Z0 :: [] else acc in
            (match acc' with
             | [] -> None
             | x :: t ->
               parse_oid_aux false
                 ((Z.add (Z.mul x (Zpos (XO (XI (XO XH)))))
                    (Z.sub (Z.of_N b) (Zpos (XO (XO (XO (XO (XI XH)))))))) :: t)
                 r)
       else None

(** val parse_oid : bytes -> z list **)

let parse_oid s =
  match parse_oid_aux true [] s with
  | Some o -> o
  | None -> []

(** val lower : n -> n **)

let lower b =
  if (&&) (N.leb (Npos (XI (XO (XO (XO (XO (XO XH))))))) b)
       (N.leb b (Npos (XO (XI (XO (XI (XI (XO XH))))))))
  then N.add b (Npos (XO (XO (XO (XO (XO XH))))))
  else b

(** val equal_fold : bytes -> bytes -> bool **)

let equal_fold a b =
  beq (map lower a) (map lower b)

(** val lookup_type : (string * z) list -> bytes -> z option **)

let rec lookup_type tbl t =
  match tbl with
  | [] -> None
  | p :: r ->
    let (n0, v) = p in
    if equal_fold t (s2b n0) then Some v else lookup_type r t

(** val split_on : n -> n list -> bytes -> bytes list **)

let rec split_on sep cur = function
| [] -> (frev cur) :: []
| b :: r ->
  if N.eqb b sep
  then (frev cur) :: (split_on sep [] r)
  else split_on sep (b :: cur) r

(** val has_prefix : bytes -> bytes -> bool **)

let has_prefix p s =
  beq (firstn (length p) s) p

(** val apply_flags : bytes list -> attr -> attr res **)

let rec apply_flags fl a =
  match fl with
  | [] -> Ok a
  | f :: r ->
    if has_prefix
         (s2b (String ((Ascii (true, false, true, false, false, true, true,
           false)), (String ((Ascii (false, true, true, true, false, true,
           true, false)), (String ((Ascii (true, true, false, false, false,
           true, true, false)), (String ((Ascii (false, true, false, false,
           true, true, true, false)), (String ((Ascii (true, false, false,
           true, true, true, true, false)), (String ((Ascii (false, false,
           false, false, true, true, true, false)), (String ((Ascii (false,
           false, true, false, true, true, true, false)), (String ((Ascii
           (true, false, true, true, true, true, false, false)),
           EmptyString))))))))))))))))) f
    then (match a.a_encrypt with
          | Some _ -> Err pE_dupflag
          | None ->
            (match parse_int32 (skipn (S (S (S (S (S (S (S (S O)))))))) f) with
             | Some v ->
               apply_flags r { a_name = a.a_name; a_oid = a.a_oid; a_type =
                 a.a_type; a_size = a.a_size; a_encrypt = (Some v);
                 a_has_tag = a.a_has_tag; a_concat = a.a_concat }
             | None -> Err pE_enctype))
    else if beq f
              (s2b (String ((Ascii (false, false, false, true, false, true,
                true, false)), (String ((Ascii (true, false, false, false,
                false, true, true, false)), (String ((Ascii (true, true,
                false, false, true, true, true, false)), (String ((Ascii
                (true, true, true, true, true, false, true, false)), (String
                ((Ascii (false, false, true, false, true, true, true,
                false)), (String ((Ascii (true, false, false, false, false,
                true, true, false)), (String ((Ascii (true, true, true,
                false, false, true, true, false)), EmptyString)))))))))))))))
         then if a.a_has_tag
              then Err pE_dupflag
              else apply_flags r { a_name = a.a_name; a_oid = a.a_oid;
                     a_type = a.a_type; a_size = a.a_size; a_encrypt =
                     a.a_encrypt; a_has_tag = true; a_concat = a.a_concat }
         else if beq f
                   (s2b (String ((Ascii (true, true, false, false, false,
                     true, true, false)), (String ((Ascii (true, true, true,
                     true, false, true, true, false)), (String ((Ascii
                     (false, true, true, true, false, true, true, false)),
                     (String ((Ascii (true, true, false, false, false, true,
                     true, false)), (String ((Ascii (true, false, false,
                     false, false, true, true, false)), (String ((Ascii
                     (false, false, true, false, true, true, true, false)),
                     EmptyString)))))))))))))
              then if a.a_concat
                   then Err pE_dupflag
                   else apply_flags r { a_name = a.a_name; a_oid = a.a_oid;
                          a_type = a.a_type; a_size = a.a_size; a_encrypt =
                          a.a_encrypt; a_has_tag = a.a_has_tag; a_concat =
                          true }
              else Err pE_flag

(** val parse_attribute :
    bytes -> bytes -> bytes -> bytes option -> attr res **)

let parse_attribute f1 f2 f3 f4 =
  let oid = parse_oid f2 in
  (match oid with
   | [] -> Err pE_oid
   | _ :: _ ->
     let typ_size =
       if equal_fold f3
            (s2b (String ((Ascii (true, true, false, false, true, true, true,
              false)), (String ((Ascii (false, false, true, false, true,
              true, true, false)), (String ((Ascii (false, true, false,
              false, true, true, true, false)), (String ((Ascii (true, false,
              false, true, false, true, true, false)), (String ((Ascii
              (false, true, true, true, false, true, true, false)), (String
              ((Ascii (true, true, true, false, false, true, true, false)),
              EmptyString)))))))))))))
       then Some (k_dictionary_AttributeString, None)
       else if equal_fold f3
                 (s2b (String ((Ascii (true, true, true, true, false, true,
                   true, false)), (String ((Ascii (true, true, false, false,
                   false, true, true, false)), (String ((Ascii (false, false,
                   true, false, true, true, true, false)), (String ((Ascii
                   (true, false, true, false, false, true, true, false)),
                   (String ((Ascii (false, false, true, false, true, true,
                   true, false)), (String ((Ascii (true, true, false, false,
                   true, true, true, false)), EmptyString)))))))))))))
            then Some (k_dictionary_AttributeOctets, None)
            else if (&&)
                      ((&&)
                        (holds (gd g_dictionary_Parser_parseAttribute (S O))
                          (Z.of_nat (length f3)))
                        (equal_fold (firstn (S (S (S (S (S (S (S O))))))) f3)
                          (s2b (String ((Ascii (true, true, true, true,
                            false, true, true, false)), (String ((Ascii
                            (true, true, false, false, false, true, true,
                            false)), (String ((Ascii (false, false, true,
                            false, true, true, true, false)), (String ((Ascii
                            (true, false, true, false, false, true, true,
                            false)), (String ((Ascii (false, false, true,
                            false, true, true, true, false)), (String ((Ascii
                            (true, true, false, false, true, true, true,
                            false)), (String ((Ascii (true, true, false,
                            true, true, false, true, false)),
                            EmptyString)))))))))))))))))
                      (beq (skipn (sub (length f3) (S O)) f3) ((Npos (XI (XO
                        (XI (XI (XI (XO XH))))))) :: []))
                 then (match parse_int32
                               (skipn (S (S (S (S (S (S (S O)))))))
                                 (firstn (sub (length f3) (S O)) f3)) with
                       | Some n0 ->
                         Some (k_dictionary_AttributeOctets, (Some n0))
                       | None -> None)
                 else (match lookup_type t_parser_types f3 with
                       | Some t -> Some (t, None)
                       | None -> None)
     in
     (match typ_size with
      | Some p ->
        let (t, sz) = p in
        let a = { a_name = f1; a_oid = oid; a_type = t; a_size = sz;
          a_encrypt = None; a_has_tag = false; a_concat = false }
        in
        (match f4 with
         | Some fl ->
           apply_flags (split_on (Npos (XO (XO (XI (XI (XO XH)))))) [] fl) a
         | None -> Ok a)
      | None -> Err pE_type))

(** val parse_value : bytes -> bytes -> bytes -> value res **)

let parse_value f1 f2 f3 =
  let n0 =
    if has_prefix
         (s2b (String ((Ascii (false, false, false, false, true, true, false,
           false)), (String ((Ascii (false, false, false, true, true, true,
           true, false)), EmptyString))))) f3
    then parse_uint32 (Zpos (XO (XO (XO (XO XH))))) (skipn (S (S O)) f3)
    else parse_uint32 (Zpos (XO (XI (XO XH)))) f3
  in
  (match n0 with
   | Some v -> Ok { v_attr = f1; v_name = f2; v_number = v }
   | None -> Err pE_valnum)

(** val parse_vendor : bytes -> bytes -> bytes option -> vendor res **)

let parse_vendor f1 f2 f3 =
  match parse_int32 f2 with
  | Some n0 ->
    (match f3 with
     | Some fm ->
       let c7 = Z.of_N (nth (S (S (S (S (S (S (S O))))))) fm N0) in
       let c8 = Z.of_N (nth (S (S (S (S (S (S (S (S O)))))))) fm N0) in
       let c9 = Z.of_N (nth (S (S (S (S (S (S (S (S (S O))))))))) fm N0) in
       if (||)
            (negb
              (has_prefix
                (s2b (String ((Ascii (false, true, true, false, false, true,
                  true, false)), (String ((Ascii (true, true, true, true,
                  false, true, true, false)), (String ((Ascii (false, true,
                  false, false, true, true, true, false)), (String ((Ascii
                  (true, false, true, true, false, true, true, false)),
                  (String ((Ascii (true, false, false, false, false, true,
                  true, false)), (String ((Ascii (false, false, true, false,
                  true, true, true, false)), (String ((Ascii (true, false,
                  true, true, true, true, false, false)),
                  EmptyString))))))))))))))) fm))
            (holds (gd g_dictionary_Parser_parseVendor (S O))
              (Z.of_nat (length fm)))
       then Err pE_vendfmt
       else if (||)
                 ((||)
                   (holds (gd g_dictionary_Parser_parseVendor (S (S O))) c8)
                   ((&&)
                     ((&&)
                       (holds
                         (gd g_dictionary_Parser_parseVendor (S (S (S O))))
                         c7)
                       (holds
                         (gd g_dictionary_Parser_parseVendor (S (S (S (S
                           O))))) c7))
                     (holds
                       (gd g_dictionary_Parser_parseVendor (S (S (S (S (S
                         O)))))) c7)))
                 ((||)
                   (holds
                     (gd g_dictionary_Parser_parseVendor (S (S (S (S (S (S
                       O))))))) c9)
                   (holds
                     (gd g_dictionary_Parser_parseVendor (S (S (S (S (S (S (S
                       O)))))))) c9))
            then Err pE_vendfmt
            else Ok { vn_name = f1; vn_number = n0; vn_format = (Some
                   ((Z.sub c7 (Zpos (XO (XO (XO (XO (XI XH))))))),
                   (Z.sub c9 (Zpos (XO (XO (XO (XO (XI XH)))))))));
                   vn_attrs = []; vn_values = [] }
     | None ->
       Ok { vn_name = f1; vn_number = n0; vn_format = None; vn_attrs = [];
         vn_values = [] })
  | None -> Err pE_vendnum

(** val oid_eqb : z list -> z list -> bool **)

let oid_eqb a b =
  (&&) (Nat.eqb (length a) (length b))
    (forallb (fun p -> Z.eqb (fst p) (snd p)) (combine a b))

(** val attr_by_name : attr list -> str -> attr option **)

let rec attr_by_name l n0 =
  match l with
  | [] -> None
  | a :: r -> if beq a.a_name n0 then Some a else attr_by_name r n0

(** val attr_by_oid : attr list -> z list -> attr option **)

let rec attr_by_oid l o =
  match l with
  | [] -> None
  | a :: r -> if oid_eqb a.a_oid o then Some a else attr_by_oid r o

(** val vendor_index_by_name : vendor list -> str -> nat -> nat option **)

let rec vendor_index_by_name l n0 i =
  match l with
  | [] -> None
  | v :: r ->
    if beq v.vn_name n0 then Some i else vendor_index_by_name r n0 (S i)

(** val vendor_by_name_or_number : vendor list -> str -> z -> bool **)

let vendor_by_name_or_number l n0 k =
  existsb (fun v -> (||) (beq v.vn_name n0) (Z.eqb v.vn_number k)) l

(** val opt_z_eqb : z option -> z option -> bool **)

let opt_z_eqb a b =
  match a with
  | Some x -> (match b with
               | Some y -> Z.eqb x y
               | None -> false)
  | None -> (match b with
             | Some _ -> false
             | None -> true)

(** val attr_equals : attr -> attr -> bool **)

let attr_equals a b =
  (&&)
    ((&&)
      ((&&)
        ((&&)
          ((&&) ((&&) (beq a.a_name b.a_name) (oid_eqb a.a_oid b.a_oid))
            (Z.eqb a.a_type b.a_type)) (opt_z_eqb a.a_size b.a_size))
        (opt_z_eqb a.a_encrypt b.a_encrypt)) (eqb0 a.a_has_tag b.a_has_tag))
    (eqb0 a.a_concat b.a_concat)

(** val upd_vendor : dict -> nat -> (vendor -> vendor) -> dict **)

let upd_vendor d i f =
  match nth_error d.d_vendors i with
  | Some v ->
    { d_attrs = d.d_attrs; d_values = d.d_values; d_vendors =
      (update_at i (f v) d.d_vendors) }
  | None -> d

type line_act =
| LSkip
| LAttr of bytes * bytes * bytes * bytes option
| LValue of bytes * bytes * bytes
| LVendor of bytes * bytes * bytes option
| LBegin of bytes
| LEnd of bytes
| LInclude of bytes
| LUnknown

(** val classify_line : bytes -> line_act **)

let classify_line line =
  let l = strip_comment line in
  (match l with
   | [] -> LSkip
   | _ :: _ ->
     (match fields l with
      | [] -> LSkip
      | k :: l0 ->
        (match l0 with
         | [] -> LUnknown
         | a :: l1 ->
           (match l1 with
            | [] ->
              if beq k
                   (s2b (String ((Ascii (false, true, false, false, false,
                     false, true, false)), (String ((Ascii (true, false,
                     true, false, false, false, true, false)), (String
                     ((Ascii (true, true, true, false, false, false, true,
                     false)), (String ((Ascii (true, false, false, true,
                     false, false, true, false)), (String ((Ascii (false,
                     true, true, true, false, false, true, false)), (String
                     ((Ascii (true, false, true, true, false, true, false,
                     false)), (String ((Ascii (false, true, true, false,
                     true, false, true, false)), (String ((Ascii (true,
                     false, true, false, false, false, true, false)), (String
                     ((Ascii (false, true, true, true, false, false, true,
                     false)), (String ((Ascii (false, false, true, false,
                     false, false, true, false)), (String ((Ascii (true,
                     true, true, true, false, false, true, false)), (String
                     ((Ascii (false, true, false, false, true, false, true,
                     false)), EmptyString)))))))))))))))))))))))))
              then LBegin a
              else if beq k
                        (s2b (String ((Ascii (true, false, true, false,
                          false, false, true, false)), (String ((Ascii
                          (false, true, true, true, false, false, true,
                          false)), (String ((Ascii (false, false, true,
                          false, false, false, true, false)), (String ((Ascii
                          (true, false, true, true, false, true, false,
                          false)), (String ((Ascii (false, true, true, false,
                          true, false, true, false)), (String ((Ascii (true,
                          false, true, false, false, false, true, false)),
                          (String ((Ascii (false, true, true, true, false,
                          false, true, false)), (String ((Ascii (false,
                          false, true, false, false, false, true, false)),
                          (String ((Ascii (true, true, true, true, false,
                          false, true, false)), (String ((Ascii (false, true,
                          false, false, true, false, true, false)),
                          EmptyString)))))))))))))))))))))
                   then LEnd a
                   else if beq k
                             (s2b (String ((Ascii (false, false, true, false,
                               false, true, false, false)), (String ((Ascii
                               (true, false, false, true, false, false, true,
                               false)), (String ((Ascii (false, true, true,
                               true, false, false, true, false)), (String
                               ((Ascii (true, true, false, false, false,
                               false, true, false)), (String ((Ascii (false,
                               false, true, true, false, false, true,
                               false)), (String ((Ascii (true, false, true,
                               false, true, false, true, false)), (String
                               ((Ascii (false, false, true, false, false,
                               false, true, false)), (String ((Ascii (true,
                               false, true, false, false, false, true,
                               false)), EmptyString)))))))))))))))))
                        then LInclude a
                        else LUnknown
            | b :: l2 ->
              (match l2 with
               | [] ->
                 if beq k
                      (s2b (String ((Ascii (false, true, true, false, true,
                        false, true, false)), (String ((Ascii (true, false,
                        true, false, false, false, true, false)), (String
                        ((Ascii (false, true, true, true, false, false, true,
                        false)), (String ((Ascii (false, false, true, false,
                        false, false, true, false)), (String ((Ascii (true,
                        true, true, true, false, false, true, false)),
                        (String ((Ascii (false, true, false, false, true,
                        false, true, false)), EmptyString)))))))))))))
                 then LVendor (a, b, None)
                 else LUnknown
               | c :: l3 ->
                 (match l3 with
                  | [] ->
                    if beq k
                         (s2b (String ((Ascii (true, false, false, false,
                           false, false, true, false)), (String ((Ascii
                           (false, false, true, false, true, false, true,
                           false)), (String ((Ascii (false, false, true,
                           false, true, false, true, false)), (String ((Ascii
                           (false, true, false, false, true, false, true,
                           false)), (String ((Ascii (true, false, false,
                           true, false, false, true, false)), (String ((Ascii
                           (false, true, false, false, false, false, true,
                           false)), (String ((Ascii (true, false, true,
                           false, true, false, true, false)), (String ((Ascii
                           (false, false, true, false, true, false, true,
                           false)), (String ((Ascii (true, false, true,
                           false, false, false, true, false)),
                           EmptyString)))))))))))))))))))
                    then LAttr (a, b, c, None)
                    else if beq k
                              (s2b (String ((Ascii (false, true, true, false,
                                true, false, true, false)), (String ((Ascii
                                (true, false, false, false, false, false,
                                true, false)), (String ((Ascii (false, false,
                                true, true, false, false, true, false)),
                                (String ((Ascii (true, false, true, false,
                                true, false, true, false)), (String ((Ascii
                                (true, false, true, false, false, false,
                                true, false)), EmptyString)))))))))))
                         then LValue (a, b, c)
                         else if beq k
                                   (s2b (String ((Ascii (false, true, true,
                                     false, true, false, true, false)),
                                     (String ((Ascii (true, false, true,
                                     false, false, false, true, false)),
                                     (String ((Ascii (false, true, true,
                                     true, false, false, true, false)),
                                     (String ((Ascii (false, false, true,
                                     false, false, false, true, false)),
                                     (String ((Ascii (true, true, true, true,
                                     false, false, true, false)), (String
                                     ((Ascii (false, true, false, false,
                                     true, false, true, false)),
                                     EmptyString)))))))))))))
                              then LVendor (a, b, (Some c))
                              else LUnknown
                  | e :: l4 ->
                    (match l4 with
                     | [] ->
                       if beq k
                            (s2b (String ((Ascii (true, false, false, false,
                              false, false, true, false)), (String ((Ascii
                              (false, false, true, false, true, false, true,
                              false)), (String ((Ascii (false, false, true,
                              false, true, false, true, false)), (String
                              ((Ascii (false, true, false, false, true,
                              false, true, false)), (String ((Ascii (true,
                              false, false, true, false, false, true,
                              false)), (String ((Ascii (false, true, false,
                              false, false, false, true, false)), (String
                              ((Ascii (true, false, true, false, true, false,
                              true, false)), (String ((Ascii (false, false,
                              true, false, true, false, true, false)),
                              (String ((Ascii (true, false, true, false,
                              false, false, true, false)),
                              EmptyString)))))))))))))))))))
                       then LAttr (a, b, c, (Some e))
                       else LUnknown
                     | _ :: _ -> LUnknown)))))))

type ioev =
| EvOpen of str
| EvClose of str
| EvReclose of str

(** val apply_simple :
    bool -> dict -> nat option -> line_act -> (dict * nat option) res **)

let apply_simple ignore_identical d vb = function
| LSkip -> Ok (d, vb)
| LAttr (f1, f2, f3, f4) ->
  (match parse_attribute f1 f2 f3 f4 with
   | Ok a ->
     let scope =
       match vb with
       | Some i ->
         (match nth_error d.d_vendors i with
          | Some v -> v.vn_attrs
          | None -> [])
       | None -> d.d_attrs
     in
     (match attr_by_name scope a.a_name with
      | Some ex ->
        if (&&) ignore_identical (attr_equals a ex)
        then Ok (d, vb)
        else Err pE_dupattr
      | None ->
        (match vb with
         | Some i ->
           Ok
             ((upd_vendor d i (fun v -> { vn_name = v.vn_name; vn_number =
                v.vn_number; vn_format = v.vn_format; vn_attrs =
                (app v.vn_attrs (a :: [])); vn_values = v.vn_values })), vb)
         | None ->
           Ok ({ d_attrs = (app d.d_attrs (a :: [])); d_values = d.d_values;
             d_vendors = d.d_vendors }, vb)))
   | Err e -> Err e
   | Panic -> Panic
   | OutOfFuel -> OutOfFuel)
| LValue (f1, f2, f3) ->
  (match parse_value f1 f2 f3 with
   | Ok v ->
     (match vb with
      | Some i ->
        Ok
          ((upd_vendor d i (fun w -> { vn_name = w.vn_name; vn_number =
             w.vn_number; vn_format = w.vn_format; vn_attrs = w.vn_attrs;
             vn_values = (app w.vn_values (v :: [])) })), vb)
      | None ->
        Ok ({ d_attrs = d.d_attrs; d_values = (app d.d_values (v :: []));
          d_vendors = d.d_vendors }, vb))
   | Err e -> Err e
   | Panic -> Panic
   | OutOfFuel -> OutOfFuel)
| LVendor (f1, f2, f3) ->
  (match parse_vendor f1 f2 f3 with
   | Ok v ->
     if vendor_by_name_or_number d.d_vendors v.vn_name v.vn_number
     then Err pE_dupvendor
     else Ok ({ d_attrs = d.d_attrs; d_values = d.d_values; d_vendors =
            (app d.d_vendors (v :: [])) }, vb)
   | Err e -> Err e
   | Panic -> Panic
   | OutOfFuel -> OutOfFuel)
| LBegin n0 ->
  (match vb with
   | Some _ -> Err pE_nested
   | None ->
     (match vendor_index_by_name d.d_vendors n0 O with
      | Some i -> Ok (d, (Some i))
      | None -> Err pE_unkvendor))
| LEnd n0 ->
  (match vb with
   | Some i ->
     (match nth_error d.d_vendors i with
      | Some v -> if beq v.vn_name n0 then Ok (d, None) else Err pE_badend
      | None -> Panic)
   | None -> Err pE_unmatched)
| LInclude _ -> Panic
| LUnknown -> Err pE_unkline

(** val too_long : bytes -> bool **)

let too_long l =
  N.leb max_token (N.of_nat (length l))

type recur_t =
  str list -> str -> bytes -> dict -> ioev list -> dict pres * ioev list

(** val parse_lines :
    bool -> (str -> (str * bytes) option) -> recur_t -> str list -> str ->
    bytes list -> nat -> nat option -> dict -> ioev list -> dict pres * ioev
    list **)

let rec parse_lines ignore_identical opener recur path fname0 ls lineNo vb d tr =
  match ls with
  | [] ->
    (match vb with
     | Some _ ->
       ((PFail (ParseErr (pE_unclosed, fname0, (sub lineNo (S O))))), tr)
     | None -> ((POk d), tr))
  | l :: rest ->
    if too_long l
    then ((PFail (PlainErr pE_scan)), tr)
    else (match classify_line l with
          | LInclude n0 ->
            (match vb with
             | Some _ ->
               ((PFail (ParseErr (pE_incl_in_block, fname0, lineNo))), tr)
             | None ->
               (match opener n0 with
                | Some p ->
                  let (cn, body) = p in
                  let tr1 = app tr ((EvOpen cn) :: []) in
                  if existsb (beq cn) path
                  then ((PFail (ParseErr (pE_recursive, fname0, lineNo))),
                         (app tr1 ((EvClose cn) :: [])))
                  else let (p0, tr2) = recur (cn :: path) cn body d tr1 in
                       (match p0 with
                        | POk d' ->
                          parse_lines ignore_identical opener recur path
                            fname0 rest (S lineNo) None d'
                            (app tr2 ((EvClose cn) :: ((EvReclose cn) :: [])))
                        | PFail e ->
                          ((PFail e), (app tr2 ((EvClose cn) :: [])))
                        | PFuel -> (PFuel, tr2))
                | None -> ((PFail (ParseErr (pE_open, fname0, lineNo))), tr)))
          | x ->
            (match apply_simple ignore_identical d vb x with
             | Ok a ->
               let (d', vb') = a in
               parse_lines ignore_identical opener recur path fname0 rest (S
                 lineNo) vb' d' tr
             | Err e -> ((PFail (ParseErr (e, fname0, lineNo))), tr)
             | _ ->
               ((PFail (PlainErr (Npos (XI (XI (XO (XO (XO (XI XH))))))))),
                 tr)))

(** val parse_file :
    bool -> (str -> (str * bytes) option) -> nat -> recur_t **)

let rec parse_file ignore_identical opener fuel x x0 x1 x2 tr =
  match fuel with
  | O -> (PFuel, tr)
  | S fu ->
    parse_lines ignore_identical opener
      (parse_file ignore_identical opener fu) x x0 (scan_lines x1) (S O) None
      x2 tr

(** val parse_root :
    bool -> (str -> (str * bytes) option) -> nat -> str -> bytes -> dict
    pres * ioev list **)

let parse_root ignore_identical opener fuel fname0 text =
  parse_file ignore_identical opener fuel (fname0 :: []) fname0 text
    empty_dict []

type heap0 = vendor list

type pdict = { p_attrs : attr list; p_values : value list;
               p_vendors : nat list }

(** val deref : heap0 -> nat -> vendor **)

let deref h p =
  nth p h { vn_name = []; vn_number = Z0; vn_format = None; vn_attrs = [];
    vn_values = [] }

(** val view : heap0 -> pdict -> dict **)

let view h d =
  { d_attrs = d.p_attrs; d_values = d.p_values; d_vendors =
    (map (deref h) d.p_vendors) }

(** val ptr_by_name : heap0 -> nat list -> str -> nat option **)

let rec ptr_by_name h ps n0 =
  match ps with
  | [] -> None
  | p :: r ->
    if beq (deref h p).vn_name n0 then Some p else ptr_by_name h r n0

(** val ptr_by_number : heap0 -> nat list -> z -> nat option **)

let rec ptr_by_number h ps k =
  match ps with
  | [] -> None
  | p :: r ->
    if Z.eqb (deref h p).vn_number k then Some p else ptr_by_number h r k

(** val index_by_number : heap0 -> nat list -> z -> nat -> nat option **)

let rec index_by_number h ps k i =
  match ps with
  | [] -> None
  | p :: r ->
    if Z.eqb (deref h p).vn_number k
    then Some i
    else index_by_number h r k (S i)

(** val opt_nat_eqb : nat option -> nat option -> bool **)

let opt_nat_eqb a b =
  match a with
  | Some x -> (match b with
               | Some y -> Nat.eqb x y
               | None -> false)
  | None -> (match b with
             | Some _ -> false
             | None -> true)

(** val attr_clash : attr list -> attr -> bool **)

let attr_clash existing a =
  match attr_by_name existing a.a_name with
  | Some _ -> true
  | None ->
    (match attr_by_oid existing a.a_oid with
     | Some _ -> true
     | None -> false)

(** val e_merge_attr : n **)

let e_merge_attr =
  Npos (XI (XI (XI (XI XH))))

(** val e_merge_vendor : n **)

let e_merge_vendor =
  Npos (XO (XO (XO (XO (XO XH)))))

(** val e_merge_vattr : n **)

let e_merge_vattr =
  Npos (XI (XO (XO (XO (XO XH)))))

(** val check_attrs0 : pdict -> pdict -> bool **)

let check_attrs0 d1 d2 =
  existsb (attr_clash d1.p_attrs) d2.p_attrs

(** val check_vendors0 : heap0 -> pdict -> nat list -> n option **)

let rec check_vendors0 h d1 = function
| [] -> None
| p :: r ->
  let v = deref h p in
  let bn = ptr_by_name h d1.p_vendors v.vn_name in
  let bk = ptr_by_number h d1.p_vendors v.vn_number in
  if negb (opt_nat_eqb bn bk)
  then Some e_merge_vendor
  else (match bn with
        | Some q ->
          if existsb (attr_clash (deref h q).vn_attrs) v.vn_attrs
          then Some e_merge_vattr
          else check_vendors0 h d1 r
        | None -> check_vendors0 h d1 r)

(** val assemble :
    bool -> heap0 -> nat list -> nat list -> heap0 * nat list **)

let rec assemble legacy h ps = function
| [] -> (h, ps)
| p :: r ->
  let v = deref h p in
  (match index_by_number h ps v.vn_number O with
   | Some i ->
     let q = nth i ps O in
     let e = deref h q in
     let combined = { vn_name = e.vn_name; vn_number = e.vn_number;
       vn_format = e.vn_format; vn_attrs = (app e.vn_attrs v.vn_attrs);
       vn_values = (app e.vn_values v.vn_values) }
     in
     if legacy
     then assemble legacy (update_at q combined h) ps r
     else assemble legacy (app h (combined :: []))
            (update_at i (length h) ps) r
   | None -> assemble legacy h (app ps (p :: [])) r)

(** val merge : bool -> heap0 -> pdict -> pdict -> (heap0 * pdict) res **)

let merge legacy h d1 d2 =
  if check_attrs0 d1 d2
  then Err e_merge_attr
  else (match check_vendors0 h d1 d2.p_vendors with
        | Some e -> Err e
        | None ->
          let (h', ps) = assemble legacy h d1.p_vendors d2.p_vendors in
          Ok (h', { p_attrs = (app d1.p_attrs d2.p_attrs); p_values =
          (app d1.p_values d2.p_values); p_vendors = ps }))

(** val load : heap0 -> dict -> heap0 * pdict **)

let load h d =
  ((app h d.d_vendors), { p_attrs = d.d_attrs; p_values = d.d_values;
    p_vendors = (seq (length h) (length d.d_vendors)) })

(** val popcount : n -> nat **)

let popcount b =
  length
    (filter (fun i -> N.testbit b (N.of_nat i))
      (seq O (S (S (S (S (S (S (S (S O))))))))))

(** val parity_pad : bytes -> bytes **)

let parity_pad key0 =
  let inn = be_dec key0 in
  map (fun i ->
    let o =
      N.modulo
        (N.mul
          (N.modulo
            (N.div inn
              (N.pow (Npos (XO XH))
                (N.of_nat
                  (mul (S (S (S (S (S (S (S O)))))))
                    (sub (S (S (S (S (S (S (S O))))))) i))))) (Npos (XO (XO
            (XO (XO (XO (XO (XO (XO XH)))))))))) (Npos (XO XH))) (Npos (XO
        (XO (XO (XO (XO (XO (XO (XO XH)))))))))
    in
    if Nat.even (popcount o) then N.coq_lor o (Npos XH) else o)
    (seq O (S (S (S (S (S (S (S (S O)))))))))

(** val des_crypt : (bytes -> bytes -> bytes) -> bytes -> bytes -> bytes **)

let des_crypt dES key0 clear =
  let k =
    if holds (gd g_rfc2759_DESCrypt O) (Z.of_nat (length key0))
    then parity_pad key0
    else key0
  in
  dES k (firstn (S (S (S (S (S (S (S (S O)))))))) clear)

(** val challenge_hash :
    (bytes -> bytes) -> bytes -> bytes -> bytes -> bytes **)

let challenge_hash sHA1 peer auth0 user =
  firstn (S (S (S (S (S (S (S (S O)))))))) (sHA1 (app peer (app auth0 user)))

(** val nt_password_hash : (bytes -> bytes) -> bytes -> bytes **)

let nt_password_hash mD4 =
  mD4

(** val challenge_response :
    (bytes -> bytes -> bytes) -> bytes -> bytes -> bytes **)

let challenge_response dES challenge hash =
  let z0 =
    firstn (S (S (S (S (S (S (S (S (S (S (S (S (S (S (S (S (S (S (S (S (S
      O)))))))))))))))))))))
      (app hash
        (repeat N0 (S (S (S (S (S (S (S (S (S (S (S (S (S (S (S (S (S (S (S
          (S (S O)))))))))))))))))))))))
  in
  app (des_crypt dES (firstn (S (S (S (S (S (S (S O))))))) z0) challenge)
    (app
      (des_crypt dES
        (firstn (S (S (S (S (S (S (S O)))))))
          (skipn (S (S (S (S (S (S (S O))))))) z0)) challenge)
      (des_crypt dES
        (firstn (S (S (S (S (S (S (S O)))))))
          (skipn (S (S (S (S (S (S (S (S (S (S (S (S (S (S O)))))))))))))) z0))
        challenge))

(** val generate_nt_response :
    (bytes -> bytes) -> (bytes -> bytes) -> (bytes -> bytes) -> (bytes ->
    bytes -> bytes) -> bytes -> bytes -> bytes -> bytes -> bytes **)

let generate_nt_response sHA1 mD4 uTF16 dES auth0 peer user pw =
  challenge_response dES (challenge_hash sHA1 peer auth0 user)
    (nt_password_hash mD4 (uTF16 pw))

(** val hex_upper_digit : n -> n **)

let hex_upper_digit n0 =
  if N.ltb n0 (Npos (XO (XI (XO XH))))
  then N.add (Npos (XO (XO (XO (XO (XI XH)))))) n0
  else N.add (Npos (XI (XI (XI (XO (XI XH)))))) n0

(** val hex_upper : bytes -> bytes **)

let hex_upper b =
  flat_map (fun x ->
    (hex_upper_digit (N.div x (Npos (XO (XO (XO (XO XH))))))) :: ((hex_upper_digit
                                                                    (N.modulo
                                                                    x (Npos
                                                                    (XO (XO
                                                                    (XO (XO
                                                                    XH))))))) :: []))
    b

(** val generate_authenticator_response :
    (bytes -> bytes) -> (bytes -> bytes) -> (bytes -> bytes) -> bytes ->
    bytes -> bytes -> bytes -> bytes -> bytes **)

let generate_authenticator_response sHA1 mD4 uTF16 auth0 peer ntresp user pw =
  let hh = nt_password_hash mD4 (nt_password_hash mD4 (uTF16 pw)) in
  let digest = sHA1 (app hh (app ntresp b_rfc2759_magic1)) in
  let challenge = challenge_hash sHA1 peer auth0 user in
  app ((Npos (XI (XI (XO (XO (XI (XO XH))))))) :: ((Npos (XI (XO (XI (XI (XI
    XH)))))) :: []))
    (hex_upper (sHA1 (app digest (app challenge b_rfc2759_magic2))))

(** val get_master_key : (bytes -> bytes) -> bytes -> bytes -> bytes **)

let get_master_key sHA1 hh ntresp =
  firstn (S (S (S (S (S (S (S (S (S (S (S (S (S (S (S (S O))))))))))))))))
    (sHA1 (app hh (app ntresp b_rfc3079_magic1)))

(** val get_asymmetric_start_key :
    (bytes -> bytes) -> bytes -> nat -> bool -> bytes res **)

let get_asymmetric_start_key sHA1 master keylen is_send =
  if holds (gd g_rfc3079_GetAsymmetricStartKey O) (Z.of_nat (length master))
  then Err e_invalid
  else let d =
         sHA1
           (app master
             (app b_rfc3079_shaPad1
               (app (if is_send then b_rfc3079_magic3 else b_rfc3079_magic2)
                 b_rfc3079_shaPad2)))
       in
       if Nat.ltb (length d) keylen then Panic else Ok (firstn keylen d)

(** val make_key :
    (bytes -> bytes) -> (bytes -> bytes) -> (bytes -> bytes) -> bytes ->
    bytes -> bool -> bytes res **)

let make_key sHA1 mD4 uTF16 ntresp pw is_send =
  if holds (gd g_rfc3079_MakeKey O) (Z.of_nat (length ntresp))
  then Err e_invalid
  else let h = nt_password_hash mD4 (uTF16 pw) in
       get_asymmetric_start_key sHA1
         (get_master_key sHA1 (nt_password_hash mD4 h) ntresp)
         (Z.to_nat k_rfc3079_KeyLength128Bit) is_send

(** val txt : string -> bytes **)

let txt s =
  map n_of_ascii (list_ascii_of_string s)

(** val rfc_magic1 : bytes **)

let rfc_magic1 =
  txt (String ((Ascii (true, false, true, true, false, false, true, false)),
    (String ((Ascii (true, false, false, false, false, true, true, false)),
    (String ((Ascii (true, true, true, false, false, true, true, false)),
    (String ((Ascii (true, false, false, true, false, true, true, false)),
    (String ((Ascii (true, true, false, false, false, true, true, false)),
    (String ((Ascii (false, false, false, false, false, true, false, false)),
    (String ((Ascii (true, true, false, false, true, true, true, false)),
    (String ((Ascii (true, false, true, false, false, true, true, false)),
    (String ((Ascii (false, true, false, false, true, true, true, false)),
    (String ((Ascii (false, true, true, false, true, true, true, false)),
    (String ((Ascii (true, false, true, false, false, true, true, false)),
    (String ((Ascii (false, true, false, false, true, true, true, false)),
    (String ((Ascii (false, false, false, false, false, true, false, false)),
    (String ((Ascii (false, false, true, false, true, true, true, false)),
    (String ((Ascii (true, true, true, true, false, true, true, false)),
    (String ((Ascii (false, false, false, false, false, true, false, false)),
    (String ((Ascii (true, true, false, false, false, true, true, false)),
    (String ((Ascii (false, false, true, true, false, true, true, false)),
    (String ((Ascii (true, false, false, true, false, true, true, false)),
    (String ((Ascii (true, false, true, false, false, true, true, false)),
    (String ((Ascii (false, true, true, true, false, true, true, false)),
    (String ((Ascii (false, false, true, false, true, true, true, false)),
    (String ((Ascii (false, false, false, false, false, true, false, false)),
    (String ((Ascii (true, true, false, false, true, true, true, false)),
    (String ((Ascii (true, false, false, true, false, true, true, false)),
    (String ((Ascii (true, true, true, false, false, true, true, false)),
    (String ((Ascii (false, true, true, true, false, true, true, false)),
    (String ((Ascii (true, false, false, true, false, true, true, false)),
    (String ((Ascii (false, true, true, true, false, true, true, false)),
    (String ((Ascii (true, true, true, false, false, true, true, false)),
    (String ((Ascii (false, false, false, false, false, true, false, false)),
    (String ((Ascii (true, true, false, false, false, true, true, false)),
    (String ((Ascii (true, true, true, true, false, true, true, false)),
    (String ((Ascii (false, true, true, true, false, true, true, false)),
    (String ((Ascii (true, true, false, false, true, true, true, false)),
    (String ((Ascii (false, false, true, false, true, true, true, false)),
    (String ((Ascii (true, false, false, false, false, true, true, false)),
    (String ((Ascii (false, true, true, true, false, true, true, false)),
    (String ((Ascii (false, false, true, false, true, true, true, false)),
    EmptyString))))))))))))))))))))))))))))))))))))))))))))))))))))))))))))))))))))))))))))))

(** val rfc_magic2 : bytes **)

let rfc_magic2 =
  txt (String ((Ascii (false, false, false, false, true, false, true,
    false)), (String ((Ascii (true, false, false, false, false, true, true,
    false)), (String ((Ascii (false, false, true, false, false, true, true,
    false)), (String ((Ascii (false, false, false, false, false, true, false,
    false)), (String ((Ascii (false, false, true, false, true, true, true,
    false)), (String ((Ascii (true, true, true, true, false, true, true,
    false)), (String ((Ascii (false, false, false, false, false, true, false,
    false)), (String ((Ascii (true, false, true, true, false, true, true,
    false)), (String ((Ascii (true, false, false, false, false, true, true,
    false)), (String ((Ascii (true, true, false, true, false, true, true,
    false)), (String ((Ascii (true, false, true, false, false, true, true,
    false)), (String ((Ascii (false, false, false, false, false, true, false,
    false)), (String ((Ascii (true, false, false, true, false, true, true,
    false)), (String ((Ascii (false, false, true, false, true, true, true,
    false)), (String ((Ascii (false, false, false, false, false, true, false,
    false)), (String ((Ascii (false, false, true, false, false, true, true,
    false)), (String ((Ascii (true, true, true, true, false, true, true,
    false)), (String ((Ascii (false, false, false, false, false, true, false,
    false)), (String ((Ascii (true, false, true, true, false, true, true,
    false)), (String ((Ascii (true, true, true, true, false, true, true,
    false)), (String ((Ascii (false, true, false, false, true, true, true,
    false)), (String ((Ascii (true, false, true, false, false, true, true,
    false)), (String ((Ascii (false, false, false, false, false, true, false,
    false)), (String ((Ascii (false, false, true, false, true, true, true,
    false)), (String ((Ascii (false, false, false, true, false, true, true,
    false)), (String ((Ascii (true, false, false, false, false, true, true,
    false)), (String ((Ascii (false, true, true, true, false, true, true,
    false)), (String ((Ascii (false, false, false, false, false, true, false,
    false)), (String ((Ascii (true, true, true, true, false, true, true,
    false)), (String ((Ascii (false, true, true, true, false, true, true,
    false)), (String ((Ascii (true, false, true, false, false, true, true,
    false)), (String ((Ascii (false, false, false, false, false, true, false,
    false)), (String ((Ascii (true, false, false, true, false, true, true,
    false)), (String ((Ascii (false, false, true, false, true, true, true,
    false)), (String ((Ascii (true, false, true, false, false, true, true,
    false)), (String ((Ascii (false, true, false, false, true, true, true,
    false)), (String ((Ascii (true, false, false, false, false, true, true,
    false)), (String ((Ascii (false, false, true, false, true, true, true,
    false)), (String ((Ascii (true, false, false, true, false, true, true,
    false)), (String ((Ascii (true, true, true, true, false, true, true,
    false)), (String ((Ascii (false, true, true, true, false, true, true,
    false)),
    EmptyString))))))))))))))))))))))))))))))))))))))))))))))))))))))))))))))))))))))))))))))))))

(** val rfc_mppe_magic1 : bytes **)

let rfc_mppe_magic1 =
  txt (String ((Ascii (false, false, true, false, true, false, true, false)),
    (String ((Ascii (false, false, false, true, false, true, true, false)),
    (String ((Ascii (true, false, false, true, false, true, true, false)),
    (String ((Ascii (true, true, false, false, true, true, true, false)),
    (String ((Ascii (false, false, false, false, false, true, false, false)),
    (String ((Ascii (true, false, false, true, false, true, true, false)),
    (String ((Ascii (true, true, false, false, true, true, true, false)),
    (String ((Ascii (false, false, false, false, false, true, false, false)),
    (String ((Ascii (false, false, true, false, true, true, true, false)),
    (String ((Ascii (false, false, false, true, false, true, true, false)),
    (String ((Ascii (true, false, true, false, false, true, true, false)),
    (String ((Ascii (false, false, false, false, false, true, false, false)),
    (String ((Ascii (true, false, true, true, false, false, true, false)),
    (String ((Ascii (false, false, false, false, true, false, true, false)),
    (String ((Ascii (false, false, false, false, true, false, true, false)),
    (String ((Ascii (true, false, true, false, false, false, true, false)),
    (String ((Ascii (false, false, false, false, false, true, false, false)),
    (String ((Ascii (true, false, true, true, false, false, true, false)),
    (String ((Ascii (true, false, false, false, false, true, true, false)),
    (String ((Ascii (true, true, false, false, true, true, true, false)),
    (String ((Ascii (false, false, true, false, true, true, true, false)),
    (String ((Ascii (true, false, true, false, false, true, true, false)),
    (String ((Ascii (false, true, false, false, true, true, true, false)),
    (String ((Ascii (false, false, false, false, false, true, false, false)),
    (String ((Ascii (true, true, false, true, false, false, true, false)),
    (String ((Ascii (true, false, true, false, false, true, true, false)),
    (String ((Ascii (true, false, false, true, true, true, true, false)),
    EmptyString))))))))))))))))))))))))))))))))))))))))))))))))))))))

(** val rfc_mppe_magic2 : bytes **)

let rfc_mppe_magic2 =
  txt (String ((Ascii (true, true, true, true, false, false, true, false)),
    (String ((Ascii (false, true, true, true, false, true, true, false)),
    (String ((Ascii (false, false, false, false, false, true, false, false)),
    (String ((Ascii (false, false, true, false, true, true, true, false)),
    (String ((Ascii (false, false, false, true, false, true, true, false)),
    (String ((Ascii (true, false, true, false, false, true, true, false)),
    (String ((Ascii (false, false, false, false, false, true, false, false)),
    (String ((Ascii (true, true, false, false, false, true, true, false)),
    (String ((Ascii (false, false, true, true, false, true, true, false)),
    (String ((Ascii (true, false, false, true, false, true, true, false)),
    (String ((Ascii (true, false, true, false, false, true, true, false)),
    (String ((Ascii (false, true, true, true, false, true, true, false)),
    (String ((Ascii (false, false, true, false, true, true, true, false)),
    (String ((Ascii (false, false, false, false, false, true, false, false)),
    (String ((Ascii (true, true, false, false, true, true, true, false)),
    (String ((Ascii (true, false, false, true, false, true, true, false)),
    (String ((Ascii (false, false, true, false, false, true, true, false)),
    (String ((Ascii (true, false, true, false, false, true, true, false)),
    (String ((Ascii (false, false, true, true, false, true, false, false)),
    (String ((Ascii (false, false, false, false, false, true, false, false)),
    (String ((Ascii (false, false, true, false, true, true, true, false)),
    (String ((Ascii (false, false, false, true, false, true, true, false)),
    (String ((Ascii (true, false, false, true, false, true, true, false)),
    (String ((Ascii (true, true, false, false, true, true, true, false)),
    (String ((Ascii (false, false, false, false, false, true, false, false)),
    (String ((Ascii (true, false, false, true, false, true, true, false)),
    (String ((Ascii (true, true, false, false, true, true, true, false)),
    (String ((Ascii (false, false, false, false, false, true, false, false)),
    (String ((Ascii (false, false, true, false, true, true, true, false)),
    (String ((Ascii (false, false, false, true, false, true, true, false)),
    (String ((Ascii (true, false, true, false, false, true, true, false)),
    (String ((Ascii (false, false, false, false, false, true, false, false)),
    (String ((Ascii (true, true, false, false, true, true, true, false)),
    (String ((Ascii (true, false, true, false, false, true, true, false)),
    (String ((Ascii (false, true, true, true, false, true, true, false)),
    (String ((Ascii (false, false, true, false, false, true, true, false)),
    (String ((Ascii (false, false, false, false, false, true, false, false)),
    (String ((Ascii (true, true, false, true, false, true, true, false)),
    (String ((Ascii (true, false, true, false, false, true, true, false)),
    (String ((Ascii (true, false, false, true, true, true, true, false)),
    (String ((Ascii (true, true, false, true, true, true, false, false)),
    (String ((Ascii (false, false, false, false, false, true, false, false)),
    (String ((Ascii (true, true, true, true, false, true, true, false)),
    (String ((Ascii (false, true, true, true, false, true, true, false)),
    (String ((Ascii (false, false, false, false, false, true, false, false)),
    (String ((Ascii (false, false, true, false, true, true, true, false)),
    (String ((Ascii (false, false, false, true, false, true, true, false)),
    (String ((Ascii (true, false, true, false, false, true, true, false)),
    (String ((Ascii (false, false, false, false, false, true, false, false)),
    (String ((Ascii (true, true, false, false, true, true, true, false)),
    (String ((Ascii (true, false, true, false, false, true, true, false)),
    (String ((Ascii (false, true, false, false, true, true, true, false)),
    (String ((Ascii (false, true, true, false, true, true, true, false)),
    (String ((Ascii (true, false, true, false, false, true, true, false)),
    (String ((Ascii (false, true, false, false, true, true, true, false)),
    (String ((Ascii (false, false, false, false, false, true, false, false)),
    (String ((Ascii (true, true, false, false, true, true, true, false)),
    (String ((Ascii (true, false, false, true, false, true, true, false)),
    (String ((Ascii (false, false, true, false, false, true, true, false)),
    (String ((Ascii (true, false, true, false, false, true, true, false)),
    (String ((Ascii (false, false, true, true, false, true, false, false)),
    (String ((Ascii (false, false, false, false, false, true, false, false)),
    (String ((Ascii (true, false, false, true, false, true, true, false)),
    (String ((Ascii (false, false, true, false, true, true, true, false)),
    (String ((Ascii (false, false, false, false, false, true, false, false)),
    (String ((Ascii (true, false, false, true, false, true, true, false)),
    (String ((Ascii (true, true, false, false, true, true, true, false)),
    (String ((Ascii (false, false, false, false, false, true, false, false)),
    (String ((Ascii (false, false, true, false, true, true, true, false)),
    (String ((Ascii (false, false, false, true, false, true, true, false)),
    (String ((Ascii (true, false, true, false, false, true, true, false)),
    (String ((Ascii (false, false, false, false, false, true, false, false)),
    (String ((Ascii (false, true, false, false, true, true, true, false)),
    (String ((Ascii (true, false, true, false, false, true, true, false)),
    (String ((Ascii (true, true, false, false, false, true, true, false)),
    (String ((Ascii (true, false, true, false, false, true, true, false)),
    (String ((Ascii (true, false, false, true, false, true, true, false)),
    (String ((Ascii (false, true, true, false, true, true, true, false)),
    (String ((Ascii (true, false, true, false, false, true, true, false)),
    (String ((Ascii (false, false, false, false, false, true, false, false)),
    (String ((Ascii (true, true, false, true, false, true, true, false)),
    (String ((Ascii (true, false, true, false, false, true, true, false)),
    (String ((Ascii (true, false, false, true, true, true, true, false)),
    (String ((Ascii (false, true, true, true, false, true, false, false)),
    EmptyString))))))))))))))))))))))))))))))))))))))))))))))))))))))))))))))))))))))))))))))))))))))))))))))))))))))))))))))))))))))))))))))))))))))))))))))))))))))))))))))))))))))))

(** val rfc_mppe_magic3 : bytes **)

let rfc_mppe_magic3 =
  txt (String ((Ascii (true, true, true, true, false, false, true, false)),
    (String ((Ascii (false, true, true, true, false, true, true, false)),
    (String ((Ascii (false, false, false, false, false, true, false, false)),
    (String ((Ascii (false, false, true, false, true, true, true, false)),
    (String ((Ascii (false, false, false, true, false, true, true, false)),
    (String ((Ascii (true, false, true, false, false, true, true, false)),
    (String ((Ascii (false, false, false, false, false, true, false, false)),
    (String ((Ascii (true, true, false, false, false, true, true, false)),
    (String ((Ascii (false, false, true, true, false, true, true, false)),
    (String ((Ascii (true, false, false, true, false, true, true, false)),
    (String ((Ascii (true, false, true, false, false, true, true, false)),
    (String ((Ascii (false, true, true, true, false, true, true, false)),
    (String ((Ascii (false, false, true, false, true, true, true, false)),
    (String ((Ascii (false, false, false, false, false, true, false, false)),
    (String ((Ascii (true, true, false, false, true, true, true, false)),
    (String ((Ascii (true, false, false, true, false, true, true, false)),
    (String ((Ascii (false, false, true, false, false, true, true, false)),
    (String ((Ascii (true, false, true, false, false, true, true, false)),
    (String ((Ascii (false, false, true, true, false, true, false, false)),
    (String ((Ascii (false, false, false, false, false, true, false, false)),
    (String ((Ascii (false, false, true, false, true, true, true, false)),
    (String ((Ascii (false, false, false, true, false, true, true, false)),
    (String ((Ascii (true, false, false, true, false, true, true, false)),
    (String ((Ascii (true, true, false, false, true, true, true, false)),
    (String ((Ascii (false, false, false, false, false, true, false, false)),
    (String ((Ascii (true, false, false, true, false, true, true, false)),
    (String ((Ascii (true, true, false, false, true, true, true, false)),
    (String ((Ascii (false, false, false, false, false, true, false, false)),
    (String ((Ascii (false, false, true, false, true, true, true, false)),
    (String ((Ascii (false, false, false, true, false, true, true, false)),
    (String ((Ascii (true, false, true, false, false, true, true, false)),
    (String ((Ascii (false, false, false, false, false, true, false, false)),
    (String ((Ascii (false, true, false, false, true, true, true, false)),
    (String ((Ascii (true, false, true, false, false, true, true, false)),
    (String ((Ascii (true, true, false, false, false, true, true, false)),
    (String ((Ascii (true, false, true, false, false, true, true, false)),
    (String ((Ascii (true, false, false, true, false, true, true, false)),
    (String ((Ascii (false, true, true, false, true, true, true, false)),
    (String ((Ascii (true, false, true, false, false, true, true, false)),
    (String ((Ascii (false, false, false, false, false, true, false, false)),
    (String ((Ascii (true, true, false, true, false, true, true, false)),
    (String ((Ascii (true, false, true, false, false, true, true, false)),
    (String ((Ascii (true, false, false, true, true, true, true, false)),
    (String ((Ascii (true, true, false, true, true, true, false, false)),
    (String ((Ascii (false, false, false, false, false, true, false, false)),
    (String ((Ascii (true, true, true, true, false, true, true, false)),
    (String ((Ascii (false, true, true, true, false, true, true, false)),
    (String ((Ascii (false, false, false, false, false, true, false, false)),
    (String ((Ascii (false, false, true, false, true, true, true, false)),
    (String ((Ascii (false, false, false, true, false, true, true, false)),
    (String ((Ascii (true, false, true, false, false, true, true, false)),
    (String ((Ascii (false, false, false, false, false, true, false, false)),
    (String ((Ascii (true, true, false, false, true, true, true, false)),
    (String ((Ascii (true, false, true, false, false, true, true, false)),
    (String ((Ascii (false, true, false, false, true, true, true, false)),
    (String ((Ascii (false, true, true, false, true, true, true, false)),
    (String ((Ascii (true, false, true, false, false, true, true, false)),
    (String ((Ascii (false, true, false, false, true, true, true, false)),
    (String ((Ascii (false, false, false, false, false, true, false, false)),
    (String ((Ascii (true, true, false, false, true, true, true, false)),
    (String ((Ascii (true, false, false, true, false, true, true, false)),
    (String ((Ascii (false, false, true, false, false, true, true, false)),
    (String ((Ascii (true, false, true, false, false, true, true, false)),
    (String ((Ascii (false, false, true, true, false, true, false, false)),
    (String ((Ascii (false, false, false, false, false, true, false, false)),
    (String ((Ascii (true, false, false, true, false, true, true, false)),
    (String ((Ascii (false, false, true, false, true, true, true, false)),
    (String ((Ascii (false, false, false, false, false, true, false, false)),
    (String ((Ascii (true, false, false, true, false, true, true, false)),
    (String ((Ascii (true, true, false, false, true, true, true, false)),
    (String ((Ascii (false, false, false, false, false, true, false, false)),
    (String ((Ascii (false, false, true, false, true, true, true, false)),
    (String ((Ascii (false, false, false, true, false, true, true, false)),
    (String ((Ascii (true, false, true, false, false, true, true, false)),
    (String ((Ascii (false, false, false, false, false, true, false, false)),
    (String ((Ascii (true, true, false, false, true, true, true, false)),
    (String ((Ascii (true, false, true, false, false, true, true, false)),
    (String ((Ascii (false, true, true, true, false, true, true, false)),
    (String ((Ascii (false, false, true, false, false, true, true, false)),
    (String ((Ascii (false, false, false, false, false, true, false, false)),
    (String ((Ascii (true, true, false, true, false, true, true, false)),
    (String ((Ascii (true, false, true, false, false, true, true, false)),
    (String ((Ascii (true, false, false, true, true, true, true, false)),
    (String ((Ascii (false, true, true, true, false, true, false, false)),
    EmptyString))))))))))))))))))))))))))))))))))))))))))))))))))))))))))))))))))))))))))))))))))))))))))))))))))))))))))))))))))))))))))))))))))))))))))))))))))))))))))))))))))))))))

(** val rfc_shspad1 : bytes **)

let rfc_shspad1 =
  repeat N0 (S (S (S (S (S (S (S (S (S (S (S (S (S (S (S (S (S (S (S (S (S (S
    (S (S (S (S (S (S (S (S (S (S (S (S (S (S (S (S (S (S
    O))))))))))))))))))))))))))))))))))))))))

(** val rfc_shspad2 : bytes **)

let rfc_shspad2 =
  repeat (Npos (XO (XI (XO (XO (XI (XI (XI XH)))))))) (S (S (S (S (S (S (S (S
    (S (S (S (S (S (S (S (S (S (S (S (S (S (S (S (S (S (S (S (S (S (S (S (S
    (S (S (S (S (S (S (S (S O))))))))))))))))))))))))))))))))))))))))

(** val digit128 : bytes -> nat -> n **)

let digit128 key0 i =
  N.modulo
    (N.div (be_dec key0)
      (N.pow (Npos (XO (XO (XO (XO (XO (XO (XO XH))))))))
        (N.of_nat (sub (S (S (S (S (S (S (S O))))))) i)))) (Npos (XO (XO (XO
    (XO (XO (XO (XO XH))))))))

(** val ones : n -> nat **)

let ones b =
  length
    (filter (fun i -> N.testbit b (N.of_nat i))
      (seq O (S (S (S (S (S (S (S (S O))))))))))

(** val with_odd_parity : n -> n **)

let with_odd_parity seven =
  let o = N.mul seven (Npos (XO XH)) in
  if Nat.even (ones o) then N.add o (Npos XH) else o

(** val rfc_des_key : bytes -> bytes **)

let rfc_des_key key7 =
  map (fun i -> with_odd_parity (digit128 key7 i))
    (seq O (S (S (S (S (S (S (S (S O)))))))))

(** val rfc_des_encrypt :
    (bytes -> bytes -> bytes) -> bytes -> bytes -> bytes **)

let rfc_des_encrypt dES clear key7 =
  dES (rfc_des_key key7) clear

(** val rfc_challenge_hash :
    (bytes -> bytes) -> bytes -> bytes -> bytes -> bytes **)

let rfc_challenge_hash sHA1 peer auth0 user =
  firstn (S (S (S (S (S (S (S (S O)))))))) (sHA1 (app peer (app auth0 user)))

(** val rfc_nt_password_hash : (bytes -> bytes) -> bytes -> bytes **)

let rfc_nt_password_hash mD4 =
  mD4

(** val rfc_challenge_response :
    (bytes -> bytes -> bytes) -> bytes -> bytes -> bytes **)

let rfc_challenge_response dES challenge hash16 =
  let z0 = app hash16 (repeat N0 (S (S (S (S (S O)))))) in
  app
    (rfc_des_encrypt dES challenge (firstn (S (S (S (S (S (S (S O))))))) z0))
    (app
      (rfc_des_encrypt dES challenge
        (firstn (S (S (S (S (S (S (S O)))))))
          (skipn (S (S (S (S (S (S (S O))))))) z0)))
      (rfc_des_encrypt dES challenge
        (firstn (S (S (S (S (S (S (S O)))))))
          (skipn (S (S (S (S (S (S (S (S (S (S (S (S (S (S O)))))))))))))) z0))))

(** val rfc_generate_nt_response :
    (bytes -> bytes) -> (bytes -> bytes) -> (bytes -> bytes) -> (bytes ->
    bytes -> bytes) -> bytes -> bytes -> bytes -> bytes -> bytes **)

let rfc_generate_nt_response sHA1 mD4 uTF16 dES auth0 peer user pw =
  rfc_challenge_response dES (rfc_challenge_hash sHA1 peer auth0 user)
    (rfc_nt_password_hash mD4 (uTF16 pw))

(** val up_hex : n -> n **)

let up_hex n0 =
  nth (N.to_nat n0)
    (txt (String ((Ascii (false, false, false, false, true, true, false,
      false)), (String ((Ascii (true, false, false, false, true, true, false,
      false)), (String ((Ascii (false, true, false, false, true, true, false,
      false)), (String ((Ascii (true, true, false, false, true, true, false,
      false)), (String ((Ascii (false, false, true, false, true, true, false,
      false)), (String ((Ascii (true, false, true, false, true, true, false,
      false)), (String ((Ascii (false, true, true, false, true, true, false,
      false)), (String ((Ascii (true, true, true, false, true, true, false,
      false)), (String ((Ascii (false, false, false, true, true, true, false,
      false)), (String ((Ascii (true, false, false, true, true, true, false,
      false)), (String ((Ascii (true, false, false, false, false, false,
      true, false)), (String ((Ascii (false, true, false, false, false,
      false, true, false)), (String ((Ascii (true, true, false, false, false,
      false, true, false)), (String ((Ascii (false, false, true, false,
      false, false, true, false)), (String ((Ascii (true, false, true, false,
      false, false, true, false)), (String ((Ascii (false, true, true, false,
      false, false, true, false)),
      EmptyString))))))))))))))))))))))))))))))))) (Npos (XI (XI (XI (XI (XI
    XH))))))

(** val rfc_hex : bytes -> bytes **)

let rfc_hex b =
  flat_map (fun x ->
    (up_hex (N.div x (Npos (XO (XO (XO (XO XH))))))) :: ((up_hex
                                                           (N.modulo x (Npos
                                                             (XO (XO (XO (XO
                                                             XH))))))) :: []))
    b

(** val rfc_generate_authenticator_response :
    (bytes -> bytes) -> (bytes -> bytes) -> (bytes -> bytes) -> bytes ->
    bytes -> bytes -> bytes -> bytes -> bytes **)

let rfc_generate_authenticator_response sHA1 mD4 uTF16 auth0 peer ntresp user pw =
  let hh = rfc_nt_password_hash mD4 (rfc_nt_password_hash mD4 (uTF16 pw)) in
  let digest = sHA1 (app hh (app ntresp rfc_magic1)) in
  app
    (txt (String ((Ascii (true, true, false, false, true, false, true,
      false)), (String ((Ascii (true, false, true, true, true, true, false,
      false)), EmptyString)))))
    (rfc_hex
      (sHA1
        (app digest
          (app (rfc_challenge_hash sHA1 peer auth0 user) rfc_magic2))))

(** val rfc_get_master_key : (bytes -> bytes) -> bytes -> bytes -> bytes **)

let rfc_get_master_key sHA1 hh ntresp =
  firstn (S (S (S (S (S (S (S (S (S (S (S (S (S (S (S (S O))))))))))))))))
    (sHA1 (app hh (app ntresp rfc_mppe_magic1)))

(** val rfc_get_asymmetric_start_key :
    (bytes -> bytes) -> bytes -> nat -> bool -> bytes **)

let rfc_get_asymmetric_start_key sHA1 master keylen is_send =
  firstn keylen
    (sHA1
      (app master
        (app rfc_shspad1
          (app (if is_send then rfc_mppe_magic3 else rfc_mppe_magic2)
            rfc_shspad2))))

(** val rfc_make_key :
    (bytes -> bytes) -> (bytes -> bytes) -> (bytes -> bytes) -> bytes ->
    bytes -> bool -> bytes **)

let rfc_make_key sHA1 mD4 uTF16 ntresp pw is_send =
  let h = rfc_nt_password_hash mD4 (uTF16 pw) in
  rfc_get_asymmetric_start_key sHA1
    (rfc_get_master_key sHA1 (rfc_nt_password_hash mD4 h) ntresp) (S (S (S (S
    (S (S (S (S (S (S (S (S (S (S (S (S O)))))))))))))))) is_send

(** val spec_get_asymmetric_start_key :
    (bytes -> bytes) -> bytes -> nat -> bool -> bytes res **)

let spec_get_asymmetric_start_key sHA1 master keylen is_send =
  if negb
       (Nat.eqb (length master) (S (S (S (S (S (S (S (S (S (S (S (S (S (S (S
         (S O)))))))))))))))))
  then Err e_invalid
  else Ok (rfc_get_asymmetric_start_key sHA1 master keylen is_send)

(** val spec_make_key :
    (bytes -> bytes) -> (bytes -> bytes) -> (bytes -> bytes) -> bytes ->
    bytes -> bool -> bytes res **)

let spec_make_key sHA1 mD4 uTF16 ntresp pw is_send =
  if negb
       (Nat.eqb (length ntresp) (S (S (S (S (S (S (S (S (S (S (S (S (S (S (S
         (S (S (S (S (S (S (S (S (S O)))))))))))))))))))))))))
  then Err e_invalid
  else Ok (rfc_make_key sHA1 mD4 uTF16 ntresp pw is_send)

type key = n * n

(** val key_eqb : key -> key -> bool **)

let key_eqb a b =
  (&&) (N.eqb (fst a) (fst b)) (N.eqb (snd a) (snd b))

type gstate =
| GDropped
| GRun of key
| GClean of key
| GDone

type dstate = { inflight : key list; gs : gstate list }

(** val dinit : dstate **)

let dinit =
  { inflight = []; gs = [] }

type secret_res =
| SecErr
| Sec of bytes

type request = { r_packet : packet; r_remote : n }

(** val decide :
    (bytes -> bytes) -> bool -> (n -> secret_res) -> n -> bytes -> request
    option **)

let decide h skip_verify secret_of from d =
  match secret_of from with
  | SecErr -> None
  | Sec sec ->
    if holds (gd g_PacketServer_Serve (S (S (S O)))) (zlen sec)
    then None
    else if (&&) (negb skip_verify) (negb (is_authentic_request h d sec))
         then None
         else (match parse d sec with
               | Ok p -> Some { r_packet = p; r_remote = from }
               | _ -> None)

(** val mem0 : key -> key list -> bool **)

let mem0 k l =
  existsb (key_eqb k) l

(** val delete : key -> key list -> key list **)

let rec delete k = function
| [] -> []
| x :: r -> if key_eqb k x then delete k r else x :: (delete k r)

type devent =
| DArrive of n * bytes
| DReturn of nat
| DClean of nat

type dout =
| ODropped
| ODispatched of request
| ONone

(** val dstep :
    (bytes -> bytes) -> bool -> (n -> secret_res) -> dstate -> devent ->
    dstate * dout **)

let dstep h skip_verify secret_of s = function
| DArrive (from, d) ->
  (match decide h skip_verify secret_of from d with
   | Some r ->
     let k = (from, r.r_packet.ident) in
     if mem0 k s.inflight
     then ({ inflight = s.inflight; gs = (app s.gs (GDropped :: [])) },
            ODropped)
     else ({ inflight = (k :: s.inflight); gs =
            (app s.gs ((GRun k) :: [])) }, (ODispatched r))
   | None ->
     ({ inflight = s.inflight; gs = (app s.gs (GDropped :: [])) }, ODropped))
| DReturn g ->
  (match nth_error s.gs g with
   | Some g0 ->
     (match g0 with
      | GRun k ->
        ({ inflight = s.inflight; gs = (update_at g (GClean k) s.gs) }, ONone)
      | _ -> (s, ONone))
   | None -> (s, ONone))
| DClean g ->
  (match nth_error s.gs g with
   | Some g0 ->
     (match g0 with
      | GClean k ->
        ({ inflight = (delete k s.inflight); gs = (update_at g GDone s.gs) },
          ONone)
      | _ -> (s, ONone))
   | None -> (s, ONone))

(** val drun :
    (bytes -> bytes) -> bool -> (n -> secret_res) -> dstate -> devent list ->
    dstate * dout list **)

let rec drun h skip_verify secret_of s = function
| [] -> (s, [])
| e :: r ->
  let (s1, o) = dstep h skip_verify secret_of s e in
  let (s2, os) = drun h skip_verify secret_of s1 r in (s2, (o :: os))

(** val response_write :
    (bytes -> bytes) -> request -> packet -> (n * bytes) res **)

let response_write h r reply =
  match encode h reply with
  | Ok w -> Ok (r.r_remote, w)
  | Err e -> Err e
  | Panic -> Panic
  | OutOfFuel -> OutOfFuel

(** val is_key : z -> avp -> bool **)

let is_key k a =
  Z.eqb a.atype k

(** val not_key : z -> avp -> bool **)

let not_key k a =
  negb (Z.eqb a.atype k)

(** val spec_add : z -> bytes -> attrs -> attrs **)

let spec_add k v l =
  app l ({ atype = k; aval = v } :: [])

(** val spec_del : z -> attrs -> attrs **)

let spec_del k l =
  filter (not_key k) l

(** val spec_lookup : z -> attrs -> bytes option **)

let spec_lookup k l =
  match find (is_key k) l with
  | Some a -> Some a.aval
  | None -> None

(** val spec_set : z -> bytes -> attrs -> attrs **)

let rec spec_set k v = function
| [] -> { atype = k; aval = v } :: []
| a :: r ->
  if is_key k a
  then { atype = k; aval = v } :: (spec_del k r)
  else a :: (spec_set k v r)

(** val in_range : avp -> bool **)

let in_range a =
  (&&) (Z.leb Z0 a.atype)
    (Z.leb a.atype (Zpos (XI (XI (XI (XI (XI (XI (XI XH)))))))))

(** val spec_tlv : avp -> bytes **)

let spec_tlv a =
  (Z.to_N a.atype) :: ((N.of_nat (add (length a.aval) (S (S O)))) :: a.aval)

(** val spec_wire : attrs -> bytes **)

let spec_wire l =
  flat_map spec_tlv (filter in_range l)

type op =
| OAdd of z * bytes
| OSet of z * bytes
| ODel of z
| OGet of z
| OLookup of z

(** val spec_step : attrs -> op -> attrs * bytes option option **)

let spec_step l = function
| OAdd (k, v) -> ((spec_add k v l), None)
| OSet (k, v) -> ((spec_set k v l), None)
| ODel k -> ((spec_del k l), None)
| OGet k -> (l, (Some (spec_lookup k l)))
| OLookup k -> (l, (Some (spec_lookup k l)))

(** val length_field : bytes -> nat **)

let length_field b =
  N.to_nat (be_dec (firstn (S (S O)) (skipn (S (S O)) b)))

(** val spec_tlv_dec_f : nat -> bytes -> attrs res **)

let rec spec_tlv_dec_f fuel b =
  match fuel with
  | O -> OutOfFuel
  | S f ->
    (match b with
     | [] -> Ok []
     | t :: l0 ->
       (match l0 with
        | [] -> Err e_attr_short
        | l :: _ ->
          let len = N.to_nat l in
          if (||) ((||) (Nat.ltb (length b) len) (Nat.ltb len (S (S O))))
               (Nat.ltb (S (S (S (S (S (S (S (S (S (S (S (S (S (S (S (S (S (S
                 (S (S (S (S (S (S (S (S (S (S (S (S (S (S (S (S (S (S (S (S
                 (S (S (S (S (S (S (S (S (S (S (S (S (S (S (S (S (S (S (S (S
                 (S (S (S (S (S (S (S (S (S (S (S (S (S (S (S (S (S (S (S (S
                 (S (S (S (S (S (S (S (S (S (S (S (S (S (S (S (S (S (S (S (S
                 (S (S (S (S (S (S (S (S (S (S (S (S (S (S (S (S (S (S (S (S
                 (S (S (S (S (S (S (S (S (S (S (S (S (S (S (S (S (S (S (S (S
                 (S (S (S (S (S (S (S (S (S (S (S (S (S (S (S (S (S (S (S (S
                 (S (S (S (S (S (S (S (S (S (S (S (S (S (S (S (S (S (S (S (S
                 (S (S (S (S (S (S (S (S (S (S (S (S (S (S (S (S (S (S (S (S
                 (S (S (S (S (S (S (S (S (S (S (S (S (S (S (S (S (S (S (S (S
                 (S (S (S (S (S (S (S (S (S (S (S (S (S (S (S (S (S (S (S (S
                 (S (S (S (S (S (S (S (S (S (S (S (S (S (S (S (S (S
                 O)))))))))))))))))))))))))))))))))))))))))))))))))))))))))))))))))))))))))))))))))))))))))))))))))))))))))))))))))))))))))))))))))))))))))))))))))))))))))))))))))))))))))))))))))))))))))))))))))))))))))))))))))))))))))))))))))))))))))))))))))))))))))))))))
                 len)
          then Err e_attr_len
          else (match spec_tlv_dec_f f (skipn len b) with
                | Ok tl0 ->
                  Ok ({ atype = (Z.of_N t); aval =
                    (skipn (S (S O)) (firstn len b)) } :: tl0)
                | x -> x)))

(** val spec_tlv_dec : bytes -> attrs res **)

let spec_tlv_dec b =
  spec_tlv_dec_f (S (length b)) b

(** val spec_parse :
    bytes -> bytes -> ((((z * n) * bytes) * bytes) * attrs) res **)

let spec_parse b s =
  if Nat.ltb (length b) (S (S (S (S (S (S (S (S (S (S (S (S (S (S (S (S (S (S
       (S (S O))))))))))))))))))))
  then Err e_short
  else let len = length_field b in
       if (||)
            ((||)
              (Nat.ltb len (S (S (S (S (S (S (S (S (S (S (S (S (S (S (S (S (S
                (S (S (S O)))))))))))))))))))))
              (Nat.ltb (S (S (S (S (S (S (S (S (S (S (S (S (S (S (S (S (S (S
                (S (S (S (S (S (S (S (S (S (S (S (S (S (S (S (S (S (S (S (S
                (S (S (S (S (S (S (S (S (S (S (S (S (S (S (S (S (S (S (S (S
                (S (S (S (S (S (S (S (S (S (S (S (S (S (S (S (S (S (S (S (S
                (S (S (S (S (S (S (S (S (S (S (S (S (S (S (S (S (S (S (S (S
                (S (S (S (S (S (S (S (S (S (S (S (S (S (S (S (S (S (S (S (S
                (S (S (S (S (S (S (S (S (S (S (S (S (S (S (S (S (S (S (S (S
                (S (S (S (S (S (S (S (S (S (S (S (S (S (S (S (S (S (S (S (S
                (S (S (S (S (S (S (S (S (S (S (S (S (S (S (S (S (S (S (S (S
                (S (S (S (S (S (S (S (S (S (S (S (S (S (S (S (S (S (S (S (S
                (S (S (S (S (S (S (S (S (S (S (S (S (S (S (S (S (S (S (S (S
                (S (S (S (S (S (S (S (S (S (S (S (S (S (S (S (S (S (S (S (S
                (S (S (S (S (S (S (S (S (S (S (S (S (S (S (S (S (S (S (S (S
                (S (S (S (S (S (S (S (S (S (S (S (S (S (S (S (S (S (S (S (S
                (S (S (S (S (S (S (S (S (S (S (S (S (S (S (S (S (S (S (S (S
                (S (S (S (S (S (S (S (S (S (S (S (S (S (S (S (S (S (S (S (S
                (S (S (S (S (S (S (S (S (S (S (S (S (S (S (S (S (S (S (S (S
                (S (S (S (S (S (S (S (S (S (S (S (S (S (S (S (S (S (S (S (S
                (S (S (S (S (S (S (S (S (S (S (S (S (S (S (S (S (S (S (S (S
                (S (S (S (S (S (S (S (S (S (S (S (S (S (S (S (S (S (S (S (S
                (S (S (S (S (S (S (S (S (S (S (S (S (S (S (S (S (S (S (S (S
                (S (S (S (S (S (S (S (S (S (S (S (S (S (S (S (S (S (S (S (S
                (S (S (S (S (S (S (S (S (S (S (S (S (S (S (S (S (S (S (S (S
                (S (S (S (S (S (S (S (S (S (S (S (S (S (S (S (S (S (S (S (S
                (S (S (S (S (S (S (S (S (S (S (S (S (S (S (S (S (S (S (S (S
                (S (S (S (S (S (S (S (S (S (S (S (S (S (S (S (S (S (S (S (S
                (S (S (S (S (S (S (S (S (S (S (S (S (S (S (S (S (S (S (S (S
                (S (S (S (S (S (S (S (S (S (S (S (S (S (S (S (S (S (S (S (S
                (S (S (S (S (S (S (S (S (S (S (S (S (S (S (S (S (S (S (S (S
                (S (S (S (S (S (S (S (S (S (S (S (S (S (S (S (S (S (S (S (S
                (S (S (S (S (S (S (S (S (S (S (S (S (S (S (S (S (S (S (S (S
                (S (S (S (S (S (S (S (S (S (S (S (S (S (S (S (S (S (S (S (S
                (S (S (S (S (S (S (S (S (S (S (S (S (S (S (S (S (S (S (S (S
                (S (S (S (S (S (S (S (S (S (S (S (S (S (S (S (S (S (S (S (S
                (S (S (S (S (S (S (S (S (S (S (S (S (S (S (S (S (S (S (S (S
                (S (S (S (S (S (S (S (S (S (S (S (S (S (S (S (S (S (S (S (S
                (S (S (S (S (S (S (S (S (S (S (S (S (S (S (S (S (S (S (S (S
                (S (S (S (S (S (S (S (S (S (S (S (S (S (S (S (S (S (S (S (S
                (S (S (S (S (S (S (S (S (S (S (S (S (S (S (S (S (S (S (S (S
                (S (S (S (S (S (S (S (S (S (S (S (S (S (S (S (S (S (S (S (S
                (S (S (S (S (S (S (S (S (S (S (S (S (S (S (S (S (S (S (S (S
                (S (S (S (S (S (S (S (S (S (S (S (S (S (S (S (S (S (S (S (S
                (S (S (S (S (S (S (S (S (S (S (S (S (S (S (S (S (S (S (S (S
                (S (S (S (S (S (S (S (S (S (S (S (S (S (S (S (S (S (S (S (S
                (S (S (S (S (S (S (S (S (S (S (S (S (S (S (S (S (S (S (S (S
                (S (S (S (S (S (S (S (S (S (S (S (S (S (S (S (S (S (S (S (S
                (S (S (S (S (S (S (S (S (S (S (S (S (S (S (S (S (S (S (S (S
                (S (S (S (S (S (S (S (S (S (S (S (S (S (S (S (S (S (S (S (S
                (S (S (S (S (S (S (S (S (S (S (S (S (S (S (S (S (S (S (S (S
                (S (S (S (S (S (S (S (S (S (S (S (S (S (S (S (S (S (S (S (S
                (S (S (S (S (S (S (S (S (S (S (S (S (S (S (S (S (S (S (S (S
                (S (S (S (S (S (S (S (S (S (S (S (S (S (S (S (S (S (S (S (S
                (S (S (S (S (S (S (S (S (S (S (S (S (S (S (S (S (S (S (S (S
                (S (S (S (S (S (S (S (S (S (S (S (S (S (S (S (S (S (S (S (S
                (S (S (S (S (S (S (S (S (S (S (S (S (S (S (S (S (S (S (S (S
                (S (S (S (S (S (S (S (S (S (S (S (S (S (S (S (S (S (S (S (S
                (S (S (S (S (S (S (S (S (S (S (S (S (S (S (S (S (S (S (S (S
                (S (S (S (S (S (S (S (S (S (S (S (S (S (S (S (S (S (S (S (S
                (S (S (S (S (S (S (S (S (S (S (S (S (S (S (S (S (S (S (S (S
                (S (S (S (S (S (S (S (S (S (S (S (S (S (S (S (S (S (S (S (S
                (S (S (S (S (S (S (S (S (S (S (S (S (S (S (S (S (S (S (S (S
                (S (S (S (S (S (S (S (S (S (S (S (S (S (S (S (S (S (S (S (S
                (S (S (S (S (S (S (S (S (S (S (S (S (S (S (S (S (S (S (S (S
                (S (S (S (S (S (S (S (S (S (S (S (S (S (S (S (S (S (S (S (S
                (S (S (S (S (S (S (S (S (S (S (S (S (S (S (S (S (S (S (S (S
                (S (S (S (S (S (S (S (S (S (S (S (S (S (S (S (S (S (S (S (S
                (S (S (S (S (S (S (S (S (S (S (S (S (S (S (S (S (S (S (S (S
                (S (S (S (S (S (S (S (S (S (S (S (S (S (S (S (S (S (S (S (S
                (S (S (S (S (S (S (S (S (S (S (S (S (S (S (S (S (S (S (S (S
                (S (S (S (S (S (S (S (S (S (S (S (S (S (S (S (S (S (S (S (S
                (S (S (S (S (S (S (S (S (S (S (S (S (S (S (S (S (S (S (S (S
                (S (S (S (S (S (S (S (S (S (S (S (S (S (S (S (S (S (S (S (S
                (S (S (S (S (S (S (S (S (S (S (S (S (S (S (S (S (S (S (S (S
                (S (S (S (S (S (S (S (S (S (S (S (S (S (S (S (S (S (S (S (S
                (S (S (S (S (S (S (S (S (S (S (S (S (S (S (S (S (S (S (S (S
                (S (S (S (S (S (S (S (S (S (S (S (S (S (S (S (S (S (S (S (S
                (S (S (S (S (S (S (S (S (S (S (S (S (S (S (S (S (S (S (S (S
                (S (S (S (S (S (S (S (S (S (S (S (S (S (S (S (S (S (S (S (S
                (S (S (S (S (S (S (S (S (S (S (S (S (S (S (S (S (S (S (S (S
                (S (S (S (S (S (S (S (S (S (S (S (S (S (S (S (S (S (S (S (S
                (S (S (S (S (S (S (S (S (S (S (S (S (S (S (S (S (S (S (S (S
                (S (S (S (S (S (S (S (S (S (S (S (S (S (S (S (S (S (S (S (S
                (S (S (S (S (S (S (S (S (S (S (S (S (S (S (S (S (S (S (S (S
                (S (S (S (S (S (S (S (S (S (S (S (S (S (S (S (S (S (S (S (S
                (S (S (S (S (S (S (S (S (S (S (S (S (S (S (S (S (S (S (S (S
                (S (S (S (S (S (S (S (S (S (S (S (S (S (S (S (S (S (S (S (S
                (S (S (S (S (S (S (S (S (S (S (S (S (S (S (S (S (S (S (S (S
                (S (S (S (S (S (S (S (S (S (S (S (S (S (S (S (S (S (S (S (S
                (S (S (S (S (S (S (S (S (S (S (S (S (S (S (S (S (S (S (S (S
                (S (S (S (S (S (S (S (S (S (S (S (S (S (S (S (S (S (S (S (S
                (S (S (S (S (S (S (S (S (S (S (S (S (S (S (S (S (S (S (S (S
                (S (S (S (S (S (S (S (S (S (S (S (S (S (S (S (S (S (S (S (S
                (S (S (S (S (S (S (S (S (S (S (S (S (S (S (S (S (S (S (S (S
                (S (S (S (S (S (S (S (S (S (S (S (S (S (S (S (S (S (S (S (S
                (S (S (S (S (S (S (S (S (S (S (S (S (S (S (S (S (S (S (S (S
                (S (S (S (S (S (S (S (S (S (S (S (S (S (S (S (S (S (S (S (S
                (S (S (S (S (S (S (S (S (S (S (S (S (S (S (S (S (S (S (S (S
                (S (S (S (S (S (S (S (S (S (S (S (S (S (S (S (S (S (S (S (S
                (S (S (S (S (S (S (S (S (S (S (S (S (S (S (S (S (S (S (S (S
                (S (S (S (S (S (S (S (S (S (S (S (S (S (S (S (S (S (S (S (S
                (S (S (S (S (S (S (S (S (S (S (S (S (S (S (S (S (S (S (S (S
                (S (S (S (S (S (S (S (S (S (S (S (S (S (S (S (S (S (S (S (S
                (S (S (S (S (S (S (S (S (S (S (S (S (S (S (S (S (S (S (S (S
                (S (S (S (S (S (S (S (S (S (S (S (S (S (S (S (S (S (S (S (S
                (S (S (S (S (S (S (S (S (S (S (S (S (S (S (S (S (S (S (S (S
                (S (S (S (S (S (S (S (S (S (S (S (S (S (S (S (S (S (S (S (S
                (S (S (S (S (S (S (S (S (S (S (S (S (S (S (S (S (S (S (S (S
                (S (S (S (S (S (S (S (S (S (S (S (S (S (S (S (S (S (S (S (S
                (S (S (S (S (S (S (S (S (S (S (S (S (S (S (S (S (S (S (S (S
                (S (S (S (S (S (S (S (S (S (S (S (S (S (S (S (S (S (S (S (S
                (S (S (S (S (S (S (S (S (S (S (S (S (S (S (S (S (S (S (S (S
                (S (S (S (S (S (S (S (S (S (S (S (S (S (S (S (S (S (S (S (S
                (S (S (S (S (S (S (S (S (S (S (S (S (S (S (S (S (S (S (S (S
                (S (S (S (S (S (S (S (S (S (S (S (S (S (S (S (S (S (S (S (S
                (S (S (S (S (S (S (S (S (S (S (S (S (S (S (S (S (S (S (S (S
                (S (S (S (S (S (S (S (S (S (S (S (S (S (S (S (S (S (S (S (S
                (S (S (S (S (S (S (S (S (S (S (S (S (S (S (S (S (S (S (S (S
                (S (S (S (S (S (S (S (S (S (S (S (S (S (S (S (S (S (S (S (S
                (S (S (S (S (S (S (S (S (S (S (S (S (S (S (S (S (S (S (S (S
                (S (S (S (S (S (S (S (S (S (S (S (S (S (S (S (S (S (S (S (S
                (S (S (S (S (S (S (S (S (S (S (S (S (S (S (S (S (S (S (S (S
                (S (S (S (S (S (S (S (S (S (S (S (S (S (S (S (S (S (S (S (S
                (S (S (S (S (S (S (S (S (S (S (S (S (S (S (S (S (S (S (S (S
                (S (S (S (S (S (S (S (S (S (S (S (S (S (S (S (S (S (S (S (S
                (S (S (S (S (S (S (S (S (S (S (S (S (S (S (S (S (S (S (S (S
                (S (S (S (S (S (S (S (S (S (S (S (S (S (S (S (S (S (S (S (S
                (S (S (S (S (S (S (S (S (S (S (S (S (S (S (S (S (S (S (S (S
                (S (S (S (S (S (S (S (S (S (S (S (S (S (S (S (S (S (S (S (S
                (S (S (S (S (S (S (S (S (S (S (S (S (S (S (S (S (S (S (S (S
                (S (S (S (S (S (S (S (S (S (S (S (S (S (S (S (S (S (S (S (S
                (S (S (S (S (S (S (S (S (S (S (S (S (S (S (S (S (S (S (S (S
                (S (S (S (S (S (S (S (S (S (S (S (S (S (S (S (S (S (S (S (S
                (S (S (S (S (S (S (S (S (S (S (S (S (S (S (S (S (S (S (S (S
                (S (S (S (S (S (S (S (S (S (S (S (S (S (S (S (S (S (S (S (S
                (S (S (S (S (S (S (S (S (S (S (S (S (S (S (S (S (S (S (S (S
                (S (S (S (S (S (S (S (S (S (S (S (S (S (S (S (S (S (S (S (S
                (S (S (S (S (S (S (S (S (S (S (S (S (S (S (S (S (S (S (S (S
                (S (S (S (S (S (S (S (S (S (S (S (S (S (S (S (S (S (S (S (S
                (S (S (S (S (S (S (S (S (S (S (S (S (S (S (S (S (S (S (S (S
                (S (S (S (S (S (S (S (S (S (S (S (S (S (S (S (S (S (S (S (S
                (S (S (S (S (S (S (S (S (S (S (S (S (S (S (S (S (S (S (S (S
                (S (S (S (S (S (S (S (S (S (S (S (S (S (S (S (S (S (S (S (S
                (S (S (S (S (S (S (S (S (S (S (S (S (S (S (S (S (S (S (S (S
                (S (S (S (S (S (S (S (S (S (S (S (S (S (S (S (S (S (S (S (S
                (S (S (S (S (S (S (S (S (S (S (S (S (S (S (S (S (S (S (S (S
                (S (S (S (S (S (S (S (S (S (S (S (S (S (S (S (S (S (S (S (S
                (S (S (S (S (S (S (S (S (S (S (S (S (S (S (S (S (S (S (S (S
                (S (S (S (S (S (S (S (S (S (S (S (S (S (S (S (S (S (S (S (S
                (S (S (S (S (S (S (S (S (S (S (S (S (S (S (S (S (S (S (S (S
                (S (S (S (S (S (S (S (S (S (S (S (S (S (S (S (S (S (S (S (S
                (S (S (S (S (S (S (S (S (S (S (S (S (S (S (S (S (S (S (S (S
                (S (S (S (S (S (S (S (S (S (S (S (S (S (S (S (S (S (S (S (S
                (S (S (S (S (S (S (S (S (S (S (S (S (S (S (S (S (S (S (S (S
                (S (S (S (S (S (S (S (S (S (S (S (S (S (S (S (S (S (S (S (S
                (S (S (S (S (S (S (S (S (S (S (S (S (S (S (S (S (S (S (S (S
                (S (S (S (S (S (S (S (S (S (S (S (S (S (S (S (S (S (S (S (S
                (S (S (S (S (S (S (S (S (S (S (S (S (S (S (S (S (S (S (S (S
                (S (S (S (S (S (S (S (S (S (S (S (S (S (S (S (S (S (S (S (S
                (S (S (S (S (S (S (S (S (S (S (S (S (S (S (S (S (S (S (S (S
                (S (S (S (S (S (S (S (S (S (S (S (S (S (S (S (S (S (S (S (S
                (S (S (S (S (S (S (S (S (S (S (S (S (S (S (S (S (S (S (S (S
                (S (S (S (S (S (S (S (S (S (S (S (S (S (S (S (S (S (S (S (S
                (S (S (S (S (S (S (S (S (S (S (S (S (S (S (S (S (S (S (S (S
                (S (S (S (S (S (S (S (S (S (S (S (S (S (S (S (S (S (S (S (S
                (S (S (S (S (S (S (S (S (S (S (S (S (S (S (S (S (S (S (S (S
                (S (S (S (S (S (S (S (S (S (S (S (S (S (S (S (S (S (S (S (S
                (S (S (S (S (S (S (S (S (S (S (S (S (S (S (S (S (S (S (S (S
                (S (S (S (S (S (S (S (S (S (S (S (S (S (S (S (S (S (S (S (S
                (S (S (S (S (S (S (S (S (S (S (S (S (S (S (S (S (S (S (S (S
                (S (S (S (S (S (S (S (S (S (S (S (S (S (S (S (S (S (S (S (S
                (S (S (S (S (S (S (S (S (S (S (S (S (S (S (S (S (S (S (S (S
                (S (S (S (S (S (S (S (S (S (S (S (S (S (S (S (S (S (S (S (S
                (S (S (S (S (S (S (S (S (S (S (S (S (S (S (S (S (S (S (S (S
                (S (S (S (S (S (S (S (S (S (S (S (S (S (S (S (S (S (S (S (S
                (S (S (S (S (S (S (S (S (S (S (S (S (S (S (S (S (S (S (S (S
                (S (S (S (S (S (S (S (S (S (S (S (S (S (S (S (S (S (S (S (S
                (S (S (S (S (S (S (S (S (S (S (S (S (S (S (S (S (S (S (S (S
                (S (S (S (S (S (S (S (S (S (S (S (S (S (S (S (S (S (S (S (S
                (S (S (S (S (S (S (S (S (S (S (S (S (S (S (S (S (S (S (S (S
                (S (S (S (S (S (S (S (S (S (S (S (S (S (S (S (S (S (S (S (S
                (S (S (S (S (S (S (S (S (S (S (S (S (S (S (S (S (S (S (S (S
                (S (S (S (S (S (S (S (S (S (S (S (S (S (S (S (S (S (S (S (S
                (S (S (S (S (S (S (S (S (S (S (S (S (S (S (S (S (S (S (S (S
                (S (S (S (S (S (S (S (S (S (S (S (S (S (S (S (S (S (S (S (S
                (S (S (S (S (S (S (S (S (S (S (S (S (S (S (S (S (S (S (S (S
                (S (S (S (S (S (S (S (S (S (S (S (S (S (S (S (S (S (S (S (S
                (S (S (S (S (S (S (S (S (S (S (S (S (S (S (S (S (S (S (S (S
                (S (S (S (S (S (S (S (S (S (S (S (S (S (S (S (S (S (S (S (S
                (S (S (S (S (S (S (S (S (S (S (S (S (S (S (S (S (S (S (S (S
                (S (S (S (S (S (S (S (S (S (S (S (S (S (S (S (S (S (S (S (S
                (S (S (S (S (S (S (S (S (S (S (S (S (S (S (S (S (S (S (S (S
                (S (S (S (S (S (S (S (S (S (S (S (S (S (S (S (S (S (S (S (S
                (S (S (S (S (S (S (S (S (S (S (S (S (S (S (S (S (S (S (S (S
                (S (S (S (S (S (S (S (S (S (S (S (S (S (S (S (S (S (S (S (S
                (S (S (S (S (S (S (S (S (S (S (S (S (S (S (S (S (S (S (S (S
                (S (S (S (S (S (S (S (S (S (S (S (S (S (S (S (S (S (S (S (S
                (S (S (S (S (S (S (S (S (S (S (S (S (S (S (S (S (S (S (S (S
                (S (S (S (S (S (S (S (S (S (S (S (S (S (S (S (S (S (S (S (S
                (S (S (S (S (S (S (S (S (S (S (S (S (S (S (S (S (S (S (S (S
                (S (S (S (S (S (S (S (S (S (S (S (S (S (S (S (S (S (S (S (S
                (S (S (S (S (S (S (S (S (S (S (S (S (S (S (S (S (S (S (S (S
                (S (S (S (S (S (S (S (S (S (S (S (S (S (S (S (S (S (S (S (S
                (S (S (S (S (S (S (S (S (S (S (S (S (S (S (S (S (S (S (S (S
                (S (S (S (S (S (S (S (S (S (S (S (S (S (S (S (S (S (S (S (S
                (S (S (S (S (S (S (S (S (S (S (S (S (S (S (S (S (S (S
                O))))))))))))))))))))))))))))))))))))))))))))))))))))))))))))))))))))))))))))))))))))))))))))))))))))))))))))))))))))))))))))))))))))))))))))))))))))))))))))))))))))))))))))))))))))))))))))))))))))))))))))))))))))))))))))))))))))))))))))))))))))))))))))))))))))))))))))))))))))))))))))))))))))))))))))))))))))))))))))))))))))))))))))))))))))))))))))))))))))))))))))))))))))))))))))))))))))))))))))))))))))))))))))))))))))))))))))))))))))))))))))))))))))))))))))))))))))))))))))))))))))))))))))))))))))))))))))))))))))))))))))))))))))))))))))))))))))))))))))))))))))))))))))))))))))))))))))))))))))))))))))))))))))))))))))))))))))))))))))))))))))))))))))))))))))))))))))))))))))))))))))))))))))))))))))))))))))))))))))))))))))))))))))))))))))))))))))))))))))))))))))))))))))))))))))))))))))))))))))))))))))))))))))))))))))))))))))))))))))))))))))))))))))))))))))))))))))))))))))))))))))))))))))))))))))))))))))))))))))))))))))))))))))))))))))))))))))))))))))))))))))))))))))))))))))))))))))))))))))))))))))))))))))))))))))))))))))))))))))))))))))))))))))))))))))))))))))))))))))))))))))))))))))))))))))))))))))))))))))))))))))))))))))))))))))))))))))))))))))))))))))))))))))))))))))))))))))))))))))))))))))))))))))))))))))))))))))))))))))))))))))))))))))))))))))))))))))))))))))))))))))))))))))))))))))))))))))))))))))))))))))))))))))))))))))))))))))))))))))))))))))))))))))))))))))))))))))))))))))))))))))))))))))))))))))))))))))))))))))))))))))))))))))))))))))))))))))))))))))))))))))))))))))))))))))))))))))))))))))))))))))))))))))))))))))))))))))))))))))))))))))))))))))))))))))))))))))))))))))))))))))))))))))))))))))))))))))))))))))))))))))))))))))))))))))))))))))))))))))))))))))))))))))))))))))))))))))))))))))))))))))))))))))))))))))))))))))))))))))))))))))))))))))))))))))))))))))))))))))))))))))))))))))))))))))))))))))))))))))))))))))))))))))))))))))))))))))))))))))))))))))))))))))))))))))))))))))))))))))))))))))))))))))))))))))))))))))))))))))))))))))))))))))))))))))))))))))))))))))))))))))))))))))))))))))))))))))))))))))))))))))))))))))))))))))))))))))))))))))))))))))))))))))))))))))))))))))))))))))))))))))))))))))))))))))))))))))))))))))))))))))))))))))))))))))))))))))))))))))))))))))))))))))))))))))))))))))))))))))))))))))))))))))))))))))))))))))))))))))))))))))))))))))))))))))))))))))))))))))))))))))))))))))))))))))))))))))))))))))))))))))))))))))))))))))))))))))))))))))))))))))))))))))))))))))))))))))))))))))))))))))))))))))))))))))))))))))))))))))))))))))))))))))))))))))))))))))))))))))))))))))))))))))))))))))))))))))))))))))))))))))))))))))))))))))))))))))))))))))))))))))))))))))))))))))))))))))))))))))))))))))))))))))))))))))))))))))))))))))))))))))))))))))))))))))))))))))))))))))))))))))))))))))))))))))))))))))))))))))))))))))))))))))))))))))))))))))))))))))))))))))))))))))))))))))))))))))))))))))))))))))))))))))))))))))))))))))))))))))))))))))))))))))))))))))))))))))))))))))))))))))))))))))))))))))))))))))))))))))))))))))))))))))))))))))))))))))))))))))))))))))))))))))))))))))))))))))))))))))))))))))))))))))))))))))))))))))))))))))))))))))))))))))))))))))))))))))))))))))))))))))))))))))))))))))))))))))))))))))))))))))))))))))))))))))))))))))))))))))))))))))))))))))))))))))))))))))))))))))))))))))))))))))))))))))))))))))))))))))))))))))))))))))))))))))))))))))))))))))))))))))))))))))))))))))))))))))))))))))))))))))))))))))))))))))))))))))))))))))))))))))))))))))))))))))))))))))))))))))))))))))))))))))))))))))))))))))))))))))))))))))))))))))))))))))))))))))))))))))))))))))))))))))))))))))))))))))))))))))))))))))))))))))))))))))))))))))))))))))))))))))))))))))))))))))))))))))))))))))))))))))))))))))))))))))))))))))))))))))))))))))))))))))))))))))))))))))))))))))))))))))))))))))))))))))))))))))))))))))))))))))))))))))))))))))))))))))))))))))))))))))))))))))))))))))))))))))))))))))))))))))))))))))))))))))))))))))))))))))))))))))))))))))))))))))))))))))))))))))))))))))))))))))))))))))))))))))))))))))))))))))))))))))))))))))))))))))))))))))))))))))))))))))))))))))))))))))))))))))))))))))))))))))))))))))))))))))))))))))))))))))))))))))))))
                len)) (Nat.ltb (length b) len)
       then Err e_badlen
       else (match spec_tlv_dec
                     (firstn
                       (sub len (S (S (S (S (S (S (S (S (S (S (S (S (S (S (S
                         (S (S (S (S (S O)))))))))))))))))))))
                       (skipn (S (S (S (S (S (S (S (S (S (S (S (S (S (S (S (S
                         (S (S (S (S O)))))))))))))))))))) b)) with
             | Ok at_ ->
               Ok (((((Z.of_N (nth O b N0)), (nth (S O) b N0)),
                 (firstn (S (S (S (S (S (S (S (S (S (S (S (S (S (S (S (S
                   O)))))))))))))))) (skipn (S (S (S (S O)))) b))), s), at_)
             | Err e -> Err e
             | Panic -> Panic
             | OutOfFuel -> OutOfFuel)

(** val spec_value_fits : avp -> bool **)

let spec_value_fits a =
  (||) (negb (in_range a))
    (Nat.leb (length a.aval) (S (S (S (S (S (S (S (S (S (S (S (S (S (S (S (S
      (S (S (S (S (S (S (S (S (S (S (S (S (S (S (S (S (S (S (S (S (S (S (S (S
      (S (S (S (S (S (S (S (S (S (S (S (S (S (S (S (S (S (S (S (S (S (S (S (S
      (S (S (S (S (S (S (S (S (S (S (S (S (S (S (S (S (S (S (S (S (S (S (S (S
      (S (S (S (S (S (S (S (S (S (S (S (S (S (S (S (S (S (S (S (S (S (S (S (S
      (S (S (S (S (S (S (S (S (S (S (S (S (S (S (S (S (S (S (S (S (S (S (S (S
      (S (S (S (S (S (S (S (S (S (S (S (S (S (S (S (S (S (S (S (S (S (S (S (S
      (S (S (S (S (S (S (S (S (S (S (S (S (S (S (S (S (S (S (S (S (S (S (S (S
      (S (S (S (S (S (S (S (S (S (S (S (S (S (S (S (S (S (S (S (S (S (S (S (S
      (S (S (S (S (S (S (S (S (S (S (S (S (S (S (S (S (S (S (S (S (S (S (S (S
      (S (S (S (S (S (S (S (S (S (S (S (S (S (S (S (S (S (S (S (S (S
      O))))))))))))))))))))))))))))))))))))))))))))))))))))))))))))))))))))))))))))))))))))))))))))))))))))))))))))))))))))))))))))))))))))))))))))))))))))))))))))))))))))))))))))))))))))))))))))))))))))))))))))))))))))))))))))))))))))))))))))))))))))))))))))))

(** val spec_marshal : z -> n -> bytes -> attrs -> bytes res **)

let spec_marshal c i au l =
  if forallb spec_value_fits l
  then let w = spec_wire l in
       if Nat.ltb (S (S (S (S (S (S (S (S (S (S (S (S (S (S (S (S (S (S (S (S
            (S (S (S (S (S (S (S (S (S (S (S (S (S (S (S (S (S (S (S (S (S (S
            (S (S (S (S (S (S (S (S (S (S (S (S (S (S (S (S (S (S (S (S (S (S
            (S (S (S (S (S (S (S (S (S (S (S (S (S (S (S (S (S (S (S (S (S (S
            (S (S (S (S (S (S (S (S (S (S (S (S (S (S (S (S (S (S (S (S (S (S
            (S (S (S (S (S (S (S (S (S (S (S (S (S (S (S (S (S (S (S (S (S (S
            (S (S (S (S (S (S (S (S (S (S (S (S (S (S (S (S (S (S (S (S (S (S
            (S (S (S (S (S (S (S (S (S (S (S (S (S (S (S (S (S (S (S (S (S (S
            (S (S (S (S (S (S (S (S (S (S (S (S (S (S (S (S (S (S (S (S (S (S
            (S (S (S (S (S (S (S (S (S (S (S (S (S (S (S (S (S (S (S (S (S (S
            (S (S (S (S (S (S (S (S (S (S (S (S (S (S (S (S (S (S (S (S (S (S
            (S (S (S (S (S (S (S (S (S (S (S (S (S (S (S (S (S (S (S (S (S (S
            (S (S (S (S (S (S (S (S (S (S (S (S (S (S (S (S (S (S (S (S (S (S
            (S (S (S (S (S (S (S (S (S (S (S (S (S (S (S (S (S (S (S (S (S (S
            (S (S (S (S (S (S (S (S (S (S (S (S (S (S (S (S (S (S (S (S (S (S
            (S (S (S (S (S (S (S (S (S (S (S (S (S (S (S (S (S (S (S (S (S (S
            (S (S (S (S (S (S (S (S (S (S (S (S (S (S (S (S (S (S (S (S (S (S
            (S (S (S (S (S (S (S (S (S (S (S (S (S (S (S (S (S (S (S (S (S (S
            (S (S (S (S (S (S (S (S (S (S (S (S (S (S (S (S (S (S (S (S (S (S
            (S (S (S (S (S (S (S (S (S (S (S (S (S (S (S (S (S (S (S (S (S (S
            (S (S (S (S (S (S (S (S (S (S (S (S (S (S (S (S (S (S (S (S (S (S
            (S (S (S (S (S (S (S (S (S (S (S (S (S (S (S (S (S (S (S (S (S (S
            (S (S (S (S (S (S (S (S (S (S (S (S (S (S (S (S (S (S (S (S (S (S
            (S (S (S (S (S (S (S (S (S (S (S (S (S (S (S (S (S (S (S (S (S (S
            (S (S (S (S (S (S (S (S (S (S (S (S (S (S (S (S (S (S (S (S (S (S
            (S (S (S (S (S (S (S (S (S (S (S (S (S (S (S (S (S (S (S (S (S (S
            (S (S (S (S (S (S (S (S (S (S (S (S (S (S (S (S (S (S (S (S (S (S
            (S (S (S (S (S (S (S (S (S (S (S (S (S (S (S (S (S (S (S (S (S (S
            (S (S (S (S (S (S (S (S (S (S (S (S (S (S (S (S (S (S (S (S (S (S
            (S (S (S (S (S (S (S (S (S (S (S (S (S (S (S (S (S (S (S (S (S (S
            (S (S (S (S (S (S (S (S (S (S (S (S (S (S (S (S (S (S (S (S (S (S
            (S (S (S (S (S (S (S (S (S (S (S (S (S (S (S (S (S (S (S (S (S (S
            (S (S (S (S (S (S (S (S (S (S (S (S (S (S (S (S (S (S (S (S (S (S
            (S (S (S (S (S (S (S (S (S (S (S (S (S (S (S (S (S (S (S (S (S (S
            (S (S (S (S (S (S (S (S (S (S (S (S (S (S (S (S (S (S (S (S (S (S
            (S (S (S (S (S (S (S (S (S (S (S (S (S (S (S (S (S (S (S (S (S (S
            (S (S (S (S (S (S (S (S (S (S (S (S (S (S (S (S (S (S (S (S (S (S
            (S (S (S (S (S (S (S (S (S (S (S (S (S (S (S (S (S (S (S (S (S (S
            (S (S (S (S (S (S (S (S (S (S (S (S (S (S (S (S (S (S (S (S (S (S
            (S (S (S (S (S (S (S (S (S (S (S (S (S (S (S (S (S (S (S (S (S (S
            (S (S (S (S (S (S (S (S (S (S (S (S (S (S (S (S (S (S (S (S (S (S
            (S (S (S (S (S (S (S (S (S (S (S (S (S (S (S (S (S (S (S (S (S (S
            (S (S (S (S (S (S (S (S (S (S (S (S (S (S (S (S (S (S (S (S (S (S
            (S (S (S (S (S (S (S (S (S (S (S (S (S (S (S (S (S (S (S (S (S (S
            (S (S (S (S (S (S (S (S (S (S (S (S (S (S (S (S (S (S (S (S (S (S
            (S (S (S (S (S (S (S (S (S (S (S (S (S (S (S (S (S (S (S (S (S (S
            (S (S (S (S (S (S (S (S (S (S (S (S (S (S (S (S (S (S (S (S (S (S
            (S (S (S (S (S (S (S (S (S (S (S (S (S (S (S (S (S (S (S (S (S (S
            (S (S (S (S (S (S (S (S (S (S (S (S (S (S (S (S (S (S (S (S (S (S
            (S (S (S (S (S (S (S (S (S (S (S (S (S (S (S (S (S (S (S (S (S (S
            (S (S (S (S (S (S (S (S (S (S (S (S (S (S (S (S (S (S (S (S (S (S
            (S (S (S (S (S (S (S (S (S (S (S (S (S (S (S (S (S (S (S (S (S (S
            (S (S (S (S (S (S (S (S (S (S (S (S (S (S (S (S (S (S (S (S (S (S
            (S (S (S (S (S (S (S (S (S (S (S (S (S (S (S (S (S (S (S (S (S (S
            (S (S (S (S (S (S (S (S (S (S (S (S (S (S (S (S (S (S (S (S (S (S
            (S (S (S (S (S (S (S (S (S (S (S (S (S (S (S (S (S (S (S (S (S (S
            (S (S (S (S (S (S (S (S (S (S (S (S (S (S (S (S (S (S (S (S (S (S
            (S (S (S (S (S (S (S (S (S (S (S (S (S (S (S (S (S (S (S (S (S (S
            (S (S (S (S (S (S (S (S (S (S (S (S (S (S (S (S (S (S (S (S (S (S
            (S (S (S (S (S (S (S (S (S (S (S (S (S (S (S (S (S (S (S (S (S (S
            (S (S (S (S (S (S (S (S (S (S (S (S (S (S (S (S (S (S (S (S (S (S
            (S (S (S (S (S (S (S (S (S (S (S (S (S (S (S (S (S (S (S (S (S (S
            (S (S (S (S (S (S (S (S (S (S (S (S (S (S (S (S (S (S (S (S (S (S
            (S (S (S (S (S (S (S (S (S (S (S (S (S (S (S (S (S (S (S (S (S (S
            (S (S (S (S (S (S (S (S (S (S (S (S (S (S (S (S (S (S (S (S (S (S
            (S (S (S (S (S (S (S (S (S (S (S (S (S (S (S (S (S (S (S (S (S (S
            (S (S (S (S (S (S (S (S (S (S (S (S (S (S (S (S (S (S (S (S (S (S
            (S (S (S (S (S (S (S (S (S (S (S (S (S (S (S (S (S (S (S (S (S (S
            (S (S (S (S (S (S (S (S (S (S (S (S (S (S (S (S (S (S (S (S (S (S
            (S (S (S (S (S (S (S (S (S (S (S (S (S (S (S (S (S (S (S (S (S (S
            (S (S (S (S (S (S (S (S (S (S (S (S (S (S (S (S (S (S (S (S (S (S
            (S (S (S (S (S (S (S (S (S (S (S (S (S (S (S (S (S (S (S (S (S (S
            (S (S (S (S (S (S (S (S (S (S (S (S (S (S (S (S (S (S (S (S (S (S
            (S (S (S (S (S (S (S (S (S (S (S (S (S (S (S (S (S (S (S (S (S (S
            (S (S (S (S (S (S (S (S (S (S (S (S (S (S (S (S (S (S (S (S (S (S
            (S (S (S (S (S (S (S (S (S (S (S (S (S (S (S (S (S (S (S (S (S (S
            (S (S (S (S (S (S (S (S (S (S (S (S (S (S (S (S (S (S (S (S (S (S
            (S (S (S (S (S (S (S (S (S (S (S (S (S (S (S (S (S (S (S (S (S (S
            (S (S (S (S (S (S (S (S (S (S (S (S (S (S (S (S (S (S (S (S (S (S
            (S (S (S (S (S (S (S (S (S (S (S (S (S (S (S (S (S (S (S (S (S (S
            (S (S (S (S (S (S (S (S (S (S (S (S (S (S (S (S (S (S (S (S (S (S
            (S (S (S (S (S (S (S (S (S (S (S (S (S (S (S (S (S (S (S (S (S (S
            (S (S (S (S (S (S (S (S (S (S (S (S (S (S (S (S (S (S (S (S (S (S
            (S (S (S (S (S (S (S (S (S (S (S (S (S (S (S (S (S (S (S (S (S (S
            (S (S (S (S (S (S (S (S (S (S (S (S (S (S (S (S (S (S (S (S (S (S
            (S (S (S (S (S (S (S (S (S (S (S (S (S (S (S (S (S (S (S (S (S (S
            (S (S (S (S (S (S (S (S (S (S (S (S (S (S (S (S (S (S (S (S (S (S
            (S (S (S (S (S (S (S (S (S (S (S (S (S (S (S (S (S (S (S (S (S (S
            (S (S (S (S (S (S (S (S (S (S (S (S (S (S (S (S (S (S (S (S (S (S
            (S (S (S (S (S (S (S (S (S (S (S (S (S (S (S (S (S (S (S (S (S (S
            (S (S (S (S (S (S (S (S (S (S (S (S (S (S (S (S (S (S (S (S (S (S
            (S (S (S (S (S (S (S (S (S (S (S (S (S (S (S (S (S (S (S (S (S (S
            (S (S (S (S (S (S (S (S (S (S (S (S (S (S (S (S (S (S (S (S (S (S
            (S (S (S (S (S (S (S (S (S (S (S (S (S (S (S (S (S (S (S (S (S (S
            (S (S (S (S (S (S (S (S (S (S (S (S (S (S (S (S (S (S (S (S (S (S
            (S (S (S (S (S (S (S (S (S (S (S (S (S (S (S (S (S (S (S (S (S (S
            (S (S (S (S (S (S (S (S (S (S (S (S (S (S (S (S (S (S (S (S (S (S
            (S (S (S (S (S (S (S (S (S (S (S (S (S (S (S (S (S (S (S (S (S (S
            (S (S (S (S (S (S (S (S (S (S (S (S (S (S (S (S (S (S (S (S (S (S
            (S (S (S (S (S (S (S (S (S (S (S (S (S (S (S (S (S (S (S (S (S (S
            (S (S (S (S (S (S (S (S (S (S (S (S (S (S (S (S (S (S (S (S (S (S
            (S (S (S (S (S (S (S (S (S (S (S (S (S (S (S (S (S (S (S (S (S (S
            (S (S (S (S (S (S (S (S (S (S (S (S (S (S (S (S (S (S (S (S (S (S
            (S (S (S (S (S (S (S (S (S (S (S (S (S (S (S (S (S (S (S (S (S (S
            (S (S (S (S (S (S (S (S (S (S (S (S (S (S (S (S (S (S (S (S (S (S
            (S (S (S (S (S (S (S (S (S (S (S (S (S (S (S (S (S (S (S (S (S (S
            (S (S (S (S (S (S (S (S (S (S (S (S (S (S (S (S (S (S (S (S (S (S
            (S (S (S (S (S (S (S (S (S (S (S (S (S (S (S (S (S (S (S (S (S (S
            (S (S (S (S (S (S (S (S (S (S (S (S (S (S (S (S (S (S (S (S (S (S
            (S (S (S (S (S (S (S (S (S (S (S (S (S (S (S (S (S (S (S (S (S (S
            (S (S (S (S (S (S (S (S (S (S (S (S (S (S (S (S (S (S (S (S (S (S
            (S (S (S (S (S (S (S (S (S (S (S (S (S (S (S (S (S (S (S (S (S (S
            (S (S (S (S (S (S (S (S (S (S (S (S (S (S (S (S (S (S (S (S (S (S
            (S (S (S (S (S (S (S (S (S (S (S (S (S (S (S (S (S (S (S (S (S (S
            (S (S (S (S (S (S (S (S (S (S (S (S (S (S (S (S (S (S (S (S (S (S
            (S (S (S (S (S (S (S (S (S (S (S (S (S (S (S (S (S (S (S (S (S (S
            (S (S (S (S (S (S (S (S (S (S (S (S (S (S (S (S (S (S (S (S (S (S
            (S (S (S (S (S (S (S (S (S (S (S (S (S (S (S (S (S (S (S (S (S (S
            (S (S (S (S (S (S (S (S (S (S (S (S (S (S (S (S (S (S (S (S (S (S
            (S (S (S (S (S (S (S (S (S (S (S (S (S (S (S (S (S (S (S (S (S (S
            (S (S (S (S (S (S (S (S (S (S (S (S (S (S (S (S (S (S (S (S (S (S
            (S (S (S (S (S (S (S (S (S (S (S (S (S (S (S (S (S (S (S (S (S (S
            (S (S (S (S (S (S (S (S (S (S (S (S (S (S (S (S (S (S (S (S (S (S
            (S (S (S (S (S (S (S (S (S (S (S (S (S (S (S (S (S (S (S (S (S (S
            (S (S (S (S (S (S (S (S (S (S (S (S (S (S (S (S (S (S (S (S (S (S
            (S (S (S (S (S (S (S (S (S (S (S (S (S (S (S (S (S (S (S (S (S (S
            (S (S (S (S (S (S (S (S (S (S (S (S (S (S (S (S (S (S (S (S (S (S
            (S (S (S (S (S (S (S (S (S (S (S (S (S (S (S (S (S (S (S (S (S (S
            (S (S (S (S (S (S (S (S (S (S (S (S (S (S (S (S (S (S (S (S (S (S
            (S (S (S (S (S (S (S (S (S (S (S (S (S (S (S (S (S (S (S (S (S (S
            (S (S (S (S (S (S (S (S (S (S (S (S (S (S (S (S (S (S (S (S (S (S
            (S (S (S (S (S (S (S (S (S (S (S (S (S (S (S (S (S (S (S (S (S (S
            (S (S (S (S (S (S (S (S (S (S (S (S (S (S (S (S (S (S (S (S (S (S
            (S (S (S (S (S (S (S (S (S (S (S (S (S (S (S (S (S (S (S (S (S (S
            (S (S (S (S (S (S (S (S (S (S (S (S (S (S (S (S (S (S (S (S (S (S
            (S (S (S (S (S (S (S (S (S (S (S (S (S (S (S (S (S (S (S (S (S (S
            (S (S (S (S (S (S (S (S (S (S (S (S (S (S (S (S (S (S (S (S (S (S
            (S (S (S (S (S (S (S (S (S (S (S (S (S (S (S (S (S (S (S (S (S (S
            (S (S (S (S (S (S (S (S (S (S (S (S (S (S (S (S (S (S (S (S (S (S
            (S (S (S (S (S (S (S (S (S (S (S (S (S (S (S (S (S (S (S (S (S (S
            (S (S (S (S (S (S (S (S (S (S (S (S (S (S (S (S (S (S (S (S (S (S
            (S (S (S (S (S (S (S (S (S (S (S (S (S (S (S (S (S (S (S (S (S (S
            (S (S (S (S (S (S (S (S (S (S (S (S (S (S (S (S (S (S (S (S (S (S
            (S (S (S (S (S (S (S (S (S (S (S (S (S (S (S (S (S (S (S (S (S (S
            (S (S (S (S (S (S (S (S (S (S (S (S (S (S (S (S (S (S (S (S (S (S
            (S (S (S (S (S (S (S (S (S (S (S (S (S (S (S (S (S (S (S (S (S (S
            (S (S (S (S (S (S (S (S (S (S (S (S (S (S (S (S (S (S (S (S (S (S
            (S (S (S (S (S (S (S (S (S (S (S (S (S (S (S (S (S (S (S (S (S (S
            (S (S (S (S (S (S (S (S (S (S (S (S (S (S (S (S (S (S (S (S (S (S
            (S (S (S (S (S (S (S (S (S (S (S (S (S (S (S (S (S (S (S (S (S (S
            (S (S (S (S (S (S (S (S (S (S (S (S (S (S (S (S (S (S (S (S (S (S
            (S (S (S (S (S (S (S (S (S (S (S (S (S (S (S (S (S (S (S (S (S (S
            (S (S (S (S (S (S (S (S (S (S (S (S (S (S (S (S (S (S (S (S (S (S
            (S (S (S (S (S (S (S (S (S (S (S (S (S (S (S (S (S (S (S (S (S (S
            (S (S (S (S (S (S (S (S (S (S (S (S (S (S (S (S (S (S (S (S (S (S
            (S (S (S (S (S (S (S (S (S (S (S (S (S (S (S (S (S (S (S (S (S (S
            (S (S (S (S (S (S (S (S (S (S (S (S (S (S (S (S (S (S (S (S (S (S
            (S (S (S (S (S (S (S (S (S (S (S (S (S (S (S (S (S (S (S (S (S (S
            (S (S (S (S (S (S (S (S (S (S (S (S (S (S (S (S (S (S (S (S (S (S
            (S (S (S (S (S (S (S (S (S (S (S (S (S (S (S (S (S (S (S (S (S (S
            (S (S (S (S (S (S (S (S (S (S (S (S (S (S (S (S (S (S (S (S (S (S
            (S (S (S (S (S (S (S (S (S (S (S (S (S (S (S (S (S (S (S (S (S (S
            (S (S (S (S (S (S (S (S (S (S (S (S (S (S (S (S (S (S (S (S (S (S
            (S (S (S (S (S (S (S (S (S (S (S (S (S (S (S (S (S (S (S (S (S (S
            (S (S (S (S (S (S (S (S (S (S (S (S (S (S (S (S (S (S (S (S (S (S
            (S (S (S (S (S (S (S (S (S (S (S (S (S (S (S (S (S (S (S (S (S (S
            (S (S (S (S (S (S (S (S (S (S (S (S (S (S (S (S (S (S (S (S (S (S
            (S (S (S (S (S (S (S (S (S (S (S (S (S (S (S (S (S (S (S (S (S (S
            (S (S (S (S (S (S (S (S (S (S (S (S (S (S (S (S (S (S (S (S (S (S
            (S (S (S (S (S (S (S (S (S (S (S (S (S (S (S (S (S (S (S (S (S (S
            (S (S (S (S (S (S (S (S (S (S (S (S (S (S (S (S (S (S (S (S (S (S
            (S (S (S (S (S (S (S (S (S (S (S (S (S (S (S (S (S (S (S (S (S (S
            (S (S (S (S (S (S (S (S (S (S (S (S (S (S (S (S (S (S (S (S (S (S
            (S (S (S (S (S (S (S (S (S (S (S (S (S (S (S (S (S (S (S (S (S (S
            (S (S (S (S (S (S (S (S (S (S (S (S (S (S (S (S (S (S (S (S (S (S
            (S (S (S (S (S (S (S (S (S (S (S (S (S (S (S (S (S (S (S (S (S (S
            (S (S (S (S (S (S (S (S (S (S (S (S (S (S (S (S (S (S (S (S (S (S
            (S (S (S (S (S (S (S (S (S (S (S (S (S (S (S (S (S (S (S (S (S (S
            (S (S (S (S (S (S (S (S (S (S (S (S (S (S (S (S (S (S (S (S (S (S
            (S (S (S (S (S (S (S (S (S (S (S (S (S (S (S (S (S (S (S (S (S (S
            (S (S (S (S (S (S (S (S (S (S (S (S (S (S (S (S (S (S (S (S (S (S
            (S (S (S (S (S (S (S (S (S (S (S (S (S (S (S (S (S (S (S (S (S (S
            (S (S (S (S (S (S (S (S (S (S (S (S (S (S (S (S (S (S (S (S (S (S
            (S (S (S (S (S (S (S (S (S (S (S (S (S (S (S (S (S (S (S (S (S (S
            (S (S (S (S (S (S (S (S (S (S (S (S (S (S (S (S (S (S (S (S (S (S
            (S (S (S (S (S (S (S (S (S (S (S (S (S (S (S (S (S (S (S (S (S (S
            (S (S (S (S (S (S
            O))))))))))))))))))))))))))))))))))))))))))))))))))))))))))))))))))))))))))))))))))))))))))))))))))))))))))))))))))))))))))))))))))))))))))))))))))))))))))))))))))))))))))))))))))))))))))))))))))))))))))))))))))))))))))))))))))))))))))))))))))))))))))))))))))))))))))))))))))))))))))))))))))))))))))))))))))))))))))))))))))))))))))))))))))))))))))))))))))))))))))))))))))))))))))))))))))))))))))))))))))))))))))))))))))))))))))))))))))))))))))))))))))))))))))))))))))))))))))))))))))))))))))))))))))))))))))))))))))))))))))))))))))))))))))))))))))))))))))))))))))))))))))))))))))))))))))))))))))))))))))))))))))))))))))))))))))))))))))))))))))))))))))))))))))))))))))))))))))))))))))))))))))))))))))))))))))))))))))))))))))))))))))))))))))))))))))))))))))))))))))))))))))))))))))))))))))))))))))))))))))))))))))))))))))))))))))))))))))))))))))))))))))))))))))))))))))))))))))))))))))))))))))))))))))))))))))))))))))))))))))))))))))))))))))))))))))))))))))))))))))))))))))))))))))))))))))))))))))))))))))))))))))))))))))))))))))))))))))))))))))))))))))))))))))))))))))))))))))))))))))))))))))))))))))))))))))))))))))))))))))))))))))))))))))))))))))))))))))))))))))))))))))))))))))))))))))))))))))))))))))))))))))))))))))))))))))))))))))))))))))))))))))))))))))))))))))))))))))))))))))))))))))))))))))))))))))))))))))))))))))))))))))))))))))))))))))))))))))))))))))))))))))))))))))))))))))))))))))))))))))))))))))))))))))))))))))))))))))))))))))))))))))))))))))))))))))))))))))))))))))))))))))))))))))))))))))))))))))))))))))))))))))))))))))))))))))))))))))))))))))))))))))))))))))))))))))))))))))))))))))))))))))))))))))))))))))))))))))))))))))))))))))))))))))))))))))))))))))))))))))))))))))))))))))))))))))))))))))))))))))))))))))))))))))))))))))))))))))))))))))))))))))))))))))))))))))))))))))))))))))))))))))))))))))))))))))))))))))))))))))))))))))))))))))))))))))))))))))))))))))))))))))))))))))))))))))))))))))))))))))))))))))))))))))))))))))))))))))))))))))))))))))))))))))))))))))))))))))))))))))))))))))))))))))))))))))))))))))))))))))))))))))))))))))))))))))))))))))))))))))))))))))))))))))))))))))))))))))))))))))))))))))))))))))))))))))))))))))))))))))))))))))))))))))))))))))))))))))))))))))))))))))))))))))))))))))))))))))))))))))))))))))))))))))))))))))))))))))))))))))))))))))))))))))))))))))))))))))))))))))))))))))))))))))))))))))))))))))))))))))))))))))))))))))))))))))))))))))))))))))))))))))))))))))))))))))))))))))))))))))))))))))))))))))))))))))))))))))))))))))))))))))))))))))))))))))))))))))))))))))))))))))))))))))))))))))))))))))))))))))))))))))))))))))))))))))))))))))))))))))))))))))))))))))))))))))))))))))))))))))))))))))))))))))))))))))))))))))))))))))))))))))))))))))))))))))))))))))))))))))))))))))))))))))))))))))))))))))))))))))))))))))))))))))))))))))))))))))))))))))))))))))))))))))))))))))))))))))))))))))))))))))))))))))))))))))))))))))))))))))))))))))))))))))))))))))))))))))))))))))))))))))))))))))))))))))))))))))))))))))))))))))))))))))))))))))))))))))))))))))))))))))))))))))))))))))))))))))))))))))))))))))))))))))))))))))))))))))))))))))))))))))))))))))))))))))))))))))))))))))))))))))))))))))))))))))))))))))))))))))))))))))))))))))))))))))))))))))))))))))))))))))))))))))))))))))))))))))))))))))))))))))))))))))))))))))))))))))))))))))))))))))))))))))))))))))))))))))))))))))))))))))))))))))))))))))))))))))))))))))))))))))))))))))))))))))))))))))))))))))))))))))))))))))))))))))))))))))))))))))))))))))))))))))))))))))))))))))))))))))))))))))))))))))))))))))))))))))))))))))))))))))))))))))))))))))))))))))))))))))))))))))))))))))))))))))))))))))))))))))))))))))))))))))))))))))))))))))))))))))))))))))))))))))))))))))))))))))))))))))))))))))))))))))))))))))))))))))))))))))))))))))))))))))))))))))))))))))))))))))))))))))))))))))))))))))))))))))))))))))))))))))))))))))))))))))))))))))))))))))))))))))))))))))))))))))))))))))))))))))))))))))))))))))))))))))))))))))))))))))))))))))))))))))))))))))))))))))))))))))))))))))))))))))))))))))))))))))))))))))))))))))))))))))))))))))))))))))))))))))))))))))))))))))))))))))))))))))))))))))))))))))))))))
            (add (S (S (S (S (S (S (S (S (S (S (S (S (S (S (S (S (S (S (S (S
              O)))))))))))))))))))) (length w))
       then Err e_pkt_big
       else Ok
              ((Z.to_N
                 (Z.modulo c (Zpos (XO (XO (XO (XO (XO (XO (XO (XO
                   XH))))))))))) :: (i :: (app
                                            (be_enc (S (S O))
                                              (N.of_nat
                                                (add (S (S (S (S (S (S (S (S
                                                  (S (S (S (S (S (S (S (S (S
                                                  (S (S (S
                                                  O))))))))))))))))))))
                                                  (length w)))) (app au w))))
  else Err e_attr_big

(** val rfc_reply_codes : z list **)

let rfc_reply_codes =
  (Zpos (XO XH)) :: ((Zpos (XI XH)) :: ((Zpos (XI (XO XH))) :: ((Zpos (XI (XI
    (XO XH)))) :: ((Zpos (XI (XO (XO (XI (XO XH)))))) :: ((Zpos (XO (XI (XO
    (XI (XO XH)))))) :: ((Zpos (XO (XO (XI (XI (XO XH)))))) :: ((Zpos (XI (XO
    (XI (XI (XO XH)))))) :: [])))))))

(** val rfc_hashed_request_codes : z list **)

let rfc_hashed_request_codes =
  (Zpos (XO (XO XH))) :: ((Zpos (XO (XO (XO (XI (XO XH)))))) :: ((Zpos (XI
    (XI (XO (XI (XO XH)))))) :: []))

(** val rfc_verbatim_codes : z list **)

let rfc_verbatim_codes =
  (Zpos XH) :: ((Zpos (XO (XO (XI XH)))) :: [])

(** val covered : bytes -> bytes -> bytes -> bytes **)

let covered w a sec =
  app (firstn (S (S (S (S O)))) w)
    (app a
      (app
        (skipn (S (S (S (S (S (S (S (S (S (S (S (S (S (S (S (S (S (S (S (S
          O)))))))))))))))))))) w) sec))

(** val auth_field : bytes -> bytes **)

let auth_field w =
  firstn (S (S (S (S (S (S (S (S (S (S (S (S (S (S (S (S O))))))))))))))))
    (skipn (S (S (S (S O)))) w)

(** val zero16 : bytes **)

let zero16 =
  repeat N0 (S (S (S (S (S (S (S (S (S (S (S (S (S (S (S (S O))))))))))))))))

(** val spec_put_auth : bytes -> bytes -> bytes **)

let spec_put_auth b h =
  app (firstn (S (S (S (S O)))) b)
    (app h
      (skipn (S (S (S (S (S (S (S (S (S (S (S (S (S (S (S (S (S (S (S (S
        O)))))))))))))))))))) b))

(** val spec_encode :
    (bytes -> bytes) -> z -> n -> bytes -> bytes -> attrs -> bytes res **)

let spec_encode h c i au sec l =
  match spec_marshal c i au l with
  | Ok w ->
    if zmem c rfc_verbatim_codes
    then Ok w
    else if zmem c rfc_reply_codes
         then Ok (spec_put_auth w (h (covered w au sec)))
         else if zmem c rfc_hashed_request_codes
              then Ok (spec_put_auth w (h (covered w zero16 sec)))
              else Err e_unknown_code
  | x -> x

(** val spec_is_authentic_response :
    (bytes -> bytes) -> bytes -> bytes -> bytes -> bool **)

let spec_is_authentic_response h r q sec =
  (&&)
    ((&&)
      ((&&)
        (Nat.leb (S (S (S (S (S (S (S (S (S (S (S (S (S (S (S (S (S (S (S (S
          O)))))))))))))))))))) (length r))
        (Nat.leb (S (S (S (S (S (S (S (S (S (S (S (S (S (S (S (S (S (S (S (S
          O)))))))))))))))))))) (length q))) (negb (Nat.eqb (length sec) O)))
    (beq (auth_field r) (h (covered r (auth_field q) sec)))

(** val spec_is_authentic_request :
    (bytes -> bytes) -> bytes -> bytes -> bool **)

let spec_is_authentic_request h q sec =
  (&&)
    ((&&)
      (Nat.leb (S (S (S (S (S (S (S (S (S (S (S (S (S (S (S (S (S (S (S (S
        O)))))))))))))))))))) (length q)) (negb (Nat.eqb (length sec) O)))
    (match q with
     | [] -> false
     | c :: _ ->
       (||) (zmem (Z.of_N c) rfc_verbatim_codes)
         ((&&) (zmem (Z.of_N c) rfc_hashed_request_codes)
           (beq (auth_field q) (h (covered q zero16 sec)))))

(** val spec_decide :
    (bytes -> bytes) -> bool -> (n -> secret_res) -> n -> bytes -> request
    option **)

let spec_decide h skip_verify secret_of from d =
  match secret_of from with
  | SecErr -> None
  | Sec sec ->
    if Nat.eqb (length sec) O
    then None
    else if (&&) (negb skip_verify) (negb (spec_is_authentic_request h d sec))
         then None
         else (match spec_parse d sec with
               | Ok a ->
                 let (p, at_) = a in
                 let (p0, s) = p in
                 let (p1, au) = p0 in
                 let (c, i) = p1 in
                 Some { r_packet = { code = c; ident = i; auth = au; secret =
                 s; pattrs = at_ }; r_remote = from }
               | _ -> None)

(** val spec_dstep :
    (bytes -> bytes) -> bool -> (n -> secret_res) -> dstate -> devent ->
    dstate * dout **)

let spec_dstep h skip_verify secret_of s e = match e with
| DArrive (from, d) ->
  (match spec_decide h skip_verify secret_of from d with
   | Some r ->
     let k = (from, r.r_packet.ident) in
     if mem0 k s.inflight
     then ({ inflight = s.inflight; gs = (app s.gs (GDropped :: [])) },
            ODropped)
     else ({ inflight = (k :: s.inflight); gs =
            (app s.gs ((GRun k) :: [])) }, (ODispatched r))
   | None ->
     ({ inflight = s.inflight; gs = (app s.gs (GDropped :: [])) }, ODropped))
| _ -> dstep h skip_verify secret_of s e

(** val spec_drun :
    (bytes -> bytes) -> bool -> (n -> secret_res) -> dstate -> devent list ->
    dstate * dout list **)

let rec spec_drun h skip_verify secret_of s = function
| [] -> (s, [])
| e :: r ->
  let (s1, o) = spec_dstep h skip_verify secret_of s e in
  let (s2, os) = spec_drun h skip_verify secret_of s1 r in (s2, (o :: os))

type sret =
| RetShutdown
| RetErr

type spc =
| S_start
| S_locked
| S_reg
| S_unl
| S_registered
| S_reading
| S_exit of sret
| S_exit_locked of sret
| S_exit_unl of sret
| S_returned of sret

type dpc =
| D_start of bool
| D_handler
| D_exit
| D_end

type hpc0 =
| H_start
| H_locked
| H_close
| H_cancel
| H_dec
| H_unlock
| H_wait
| H_select
| H_ret_nil
| H_ret_err

type thread =
| TServe of nat * spc
| TDgram of dpc
| TShut of hpc0 * bool

type state = { mu : bool; shut : bool; active : z; closes : nat; sdec : 
               bool; regs : nat list; closedc : nat list; cancelled : 
               bool; threads : thread list }

(** val init : state **)

let init =
  { mu = false; shut = false; active = Z0; closes = O; sdec = false; regs =
    []; closedc = []; cancelled = false; threads = [] }

type action =
| ARun
| ARead_datagram of bool
| ARead_error of bool
| AHandler_return
| AWake_nil
| AWake_err
| AExpire

(** val set_thread : state -> nat -> thread -> state **)

let set_thread s i t =
  { mu = s.mu; shut = s.shut; active = s.active; closes = s.closes; sdec =
    s.sdec; regs = s.regs; closedc = s.closedc; cancelled = s.cancelled;
    threads = (update_at i t s.threads) }

(** val with_mu : state -> bool -> state **)

let with_mu s b =
  { mu = b; shut = s.shut; active = s.active; closes = s.closes; sdec =
    s.sdec; regs = s.regs; closedc = s.closedc; cancelled = s.cancelled;
    threads = s.threads }

(** val active_add : state -> state **)

let active_add s =
  { mu = s.mu; shut = s.shut; active = (Z.add s.active (Zpos XH)); closes =
    s.closes; sdec = s.sdec; regs = s.regs; closedc = s.closedc; cancelled =
    s.cancelled; threads = s.threads }

(** val active_done : state -> state **)

let active_done s =
  let a = Z.sub s.active (Zpos XH) in
  { mu = s.mu; shut = s.shut; active = a; closes =
  (if Z.eqb a (Zneg XH) then S s.closes else s.closes); sdec = s.sdec; regs =
  s.regs; closedc = s.closedc; cancelled = s.cancelled; threads = s.threads }

(** val remove_one : nat -> nat list -> nat list **)

let rec remove_one c = function
| [] -> []
| x :: r -> if Nat.eqb x c then r else x :: (remove_one c r)

(** val step_serve :
    bool -> state -> nat -> nat -> spc -> action -> state option **)

let step_serve legacy s i c pc a =
  match pc with
  | S_start ->
    (match a with
     | ARun ->
       if s.mu
       then None
       else Some (set_thread (with_mu s true) i (TServe (c, S_locked)))
     | _ -> None)
  | S_locked ->
    (match a with
     | ARun ->
       if s.shut
       then Some
              (set_thread (with_mu s false) i (TServe (c, (S_returned
                RetShutdown))))
       else Some
              (set_thread { mu = s.mu; shut = s.shut; active = s.active;
                closes = s.closes; sdec = s.sdec; regs = (c :: s.regs);
                closedc = s.closedc; cancelled = s.cancelled; threads =
                s.threads } i (TServe (c, S_reg)))
     | _ -> None)
  | S_reg ->
    (match a with
     | ARun ->
       Some
         (set_thread (if legacy then s else active_add s) i (TServe (c,
           S_unl)))
     | _ -> None)
  | S_unl ->
    (match a with
     | ARun ->
       Some (set_thread (with_mu s false) i (TServe (c, S_registered)))
     | _ -> None)
  | S_registered ->
    (match a with
     | ARun ->
       Some
         (set_thread (if legacy then active_add s else s) i (TServe (c,
           S_reading)))
     | _ -> None)
  | S_reading ->
    (match a with
     | ARead_datagram drop ->
       let s1 = active_add s in
       Some { mu = s1.mu; shut = s1.shut; active = s1.active; closes =
       s1.closes; sdec = s1.sdec; regs = s1.regs; closedc = s1.closedc;
       cancelled = s1.cancelled; threads =
       (app s1.threads ((TDgram (D_start drop)) :: [])) }
     | ARead_error temp ->
       if s.shut
       then Some (set_thread s i (TServe (c, (S_exit RetShutdown))))
       else if temp
            then Some s
            else Some (set_thread s i (TServe (c, (S_exit RetErr))))
     | _ -> None)
  | S_exit r ->
    (match a with
     | ARun ->
       if s.mu
       then None
       else Some
              (set_thread (with_mu s true) i (TServe (c, (S_exit_locked r))))
     | _ -> None)
  | S_exit_locked r ->
    (match a with
     | ARun ->
       Some
         (set_thread { mu = false; shut = s.shut; active = s.active; closes =
           s.closes; sdec = s.sdec; regs = (remove_one c s.regs); closedc =
           s.closedc; cancelled = s.cancelled; threads = s.threads } i
           (TServe (c, (S_exit_unl r))))
     | _ -> None)
  | S_exit_unl r ->
    (match a with
     | ARun ->
       Some (set_thread (active_done s) i (TServe (c, (S_returned r))))
     | _ -> None)
  | S_returned _ -> None

(** val step_dgram : state -> nat -> dpc -> action -> state option **)

let step_dgram s i pc a =
  match pc with
  | D_start drop ->
    (match a with
     | ARun ->
       Some (set_thread s i (TDgram (if drop then D_exit else D_handler)))
     | _ -> None)
  | D_handler ->
    (match a with
     | AHandler_return -> Some (set_thread s i (TDgram D_exit))
     | _ -> None)
  | D_exit ->
    (match a with
     | ARun -> Some (set_thread (active_done s) i (TDgram D_end))
     | _ -> None)
  | D_end -> None

(** val step_shut : state -> nat -> hpc0 -> bool -> action -> state option **)

let step_shut s i pc e a =
  match pc with
  | H_start ->
    (match a with
     | ARun ->
       if s.mu
       then None
       else Some (set_thread (with_mu s true) i (TShut (H_locked, e)))
     | AExpire -> Some (set_thread s i (TShut (pc, true)))
     | _ -> None)
  | H_locked ->
    (match a with
     | ARun ->
       if s.shut
       then Some (set_thread s i (TShut (H_unlock, e)))
       else Some
              (set_thread { mu = s.mu; shut = true; active = s.active;
                closes = s.closes; sdec = s.sdec; regs = s.regs; closedc =
                s.closedc; cancelled = s.cancelled; threads = s.threads } i
                (TShut (H_close, e)))
     | AExpire -> Some (set_thread s i (TShut (pc, true)))
     | _ -> None)
  | H_close ->
    (match a with
     | ARun ->
       Some
         (set_thread { mu = s.mu; shut = s.shut; active = s.active; closes =
           s.closes; sdec = s.sdec; regs = s.regs; closedc =
           (app s.regs s.closedc); cancelled = s.cancelled; threads =
           s.threads } i (TShut (H_cancel, e)))
     | AExpire -> Some (set_thread s i (TShut (pc, true)))
     | _ -> None)
  | H_cancel ->
    (match a with
     | ARun ->
       Some
         (set_thread { mu = s.mu; shut = s.shut; active = s.active; closes =
           s.closes; sdec = s.sdec; regs = s.regs; closedc = s.closedc;
           cancelled = true; threads = s.threads } i (TShut (H_dec, e)))
     | AExpire -> Some (set_thread s i (TShut (pc, true)))
     | _ -> None)
  | H_dec ->
    (match a with
     | ARun ->
       let s1 = active_done s in
       Some
       (set_thread { mu = s1.mu; shut = s1.shut; active = s1.active; closes =
         s1.closes; sdec = true; regs = s1.regs; closedc = s1.closedc;
         cancelled = s1.cancelled; threads = s1.threads } i (TShut (H_unlock,
         e)))
     | AExpire -> Some (set_thread s i (TShut (pc, true)))
     | _ -> None)
  | H_unlock ->
    (match a with
     | ARun -> Some (set_thread (with_mu s false) i (TShut (H_wait, e)))
     | AExpire -> Some (set_thread s i (TShut (pc, true)))
     | _ -> None)
  | H_wait ->
    (match a with
     | ARun -> Some (set_thread s i (TShut (H_select, e)))
     | AExpire -> Some (set_thread s i (TShut (pc, true)))
     | _ -> None)
  | H_select ->
    (match a with
     | AWake_nil ->
       if Nat.ltb O s.closes
       then Some (set_thread s i (TShut (H_ret_nil, e)))
       else None
     | AWake_err ->
       if e then Some (set_thread s i (TShut (H_ret_err, e))) else None
     | AExpire -> Some (set_thread s i (TShut (pc, true)))
     | _ -> None)
  | _ ->
    (match a with
     | AExpire -> Some (set_thread s i (TShut (pc, true)))
     | _ -> None)

(** val step : bool -> state -> nat -> action -> state option **)

let step legacy s i a =
  match nth_error s.threads i with
  | Some t ->
    (match t with
     | TServe (c, pc) -> step_serve legacy s i c pc a
     | TDgram pc -> step_dgram s i pc a
     | TShut (pc, e) -> step_shut s i pc e a)
  | None -> None

(** val add_thread : state -> thread -> state **)

let add_thread s t =
  { mu = s.mu; shut = s.shut; active = s.active; closes = s.closes; sdec =
    s.sdec; regs = s.regs; closedc = s.closedc; cancelled = s.cancelled;
    threads = (app s.threads (t :: [])) }

type hact =
| HServe of nat
| HRelease of nat
| HDeliver of nat * bool
| HHandlerDone of nat
| HShutdown
| HWait of nat
| HExpire of nat

(** val run_thread : bool -> nat -> state -> nat -> state **)

let rec run_thread legacy fuel s i =
  match fuel with
  | O -> s
  | S f ->
    (match nth_error s.threads i with
     | Some t ->
       (match t with
        | TServe (_, pc) ->
          (match pc with
           | S_registered -> s
           | _ ->
             (match step legacy s i ARun with
              | Some s' -> run_thread legacy f s' i
              | None -> s))
        | TDgram _ ->
          (match step legacy s i ARun with
           | Some s' -> run_thread legacy f s' i
           | None -> s)
        | TShut (pc, _) ->
          (match pc with
           | H_wait -> s
           | _ ->
             (match step legacy s i ARun with
              | Some s' -> run_thread legacy f s' i
              | None -> s)))
     | None ->
       (match step legacy s i ARun with
        | Some s' -> run_thread legacy f s' i
        | None -> s))

(** val settle_thread : bool -> state -> nat -> state **)

let settle_thread legacy s i =
  match nth_error s.threads i with
  | Some t ->
    (match t with
     | TServe (c, pc) ->
       (match pc with
        | S_reading ->
          if existsb (Nat.eqb c) s.closedc
          then (match step legacy s i (ARead_error false) with
                | Some s' ->
                  run_thread legacy (S (S (S (S (S (S (S (S (S (S (S (S (S (S
                    (S (S (S (S (S (S O)))))))))))))))))))) s' i
                | None -> s)
          else s
        | _ -> s)
     | TDgram _ -> s
     | TShut (pc, e) ->
       (match pc with
        | H_select ->
          if Nat.ltb O s.closes
          then (match step legacy s i AWake_nil with
                | Some s' -> s'
                | None -> s)
          else if e
               then (match step legacy s i AWake_err with
                     | Some s' -> s'
                     | None -> s)
               else s
        | _ -> s))
  | None -> s

(** val settle_all : bool -> state -> nat -> state **)

let rec settle_all legacy s = function
| O -> s
| S n' -> settle_thread legacy (settle_all legacy s n') n'

(** val settle : bool -> state -> state **)

let settle legacy s =
  let n0 = length s.threads in
  settle_all legacy (settle_all legacy (settle_all legacy s n0) n0) n0

(** val force_step : bool -> state -> nat -> action -> state **)

let force_step legacy s i a =
  match step legacy s i a with
  | Some s' -> s'
  | None -> s

(** val do_hact : bool -> state -> hact -> state **)

let do_hact legacy s h =
  settle legacy
    (match h with
     | HServe c ->
       let s1 = add_thread s (TServe (c, S_start)) in
       run_thread legacy (S (S (S (S (S (S (S (S (S (S (S (S (S (S (S (S (S
         (S (S (S O)))))))))))))))))))) s1 (length s.threads)
     | HRelease i ->
       (match nth_error s.threads i with
        | Some t ->
          (match t with
           | TServe (_, pc) ->
             (match pc with
              | S_registered -> force_step legacy s i ARun
              | _ -> s)
           | _ -> s)
        | None -> s)
     | HDeliver (i, drop) ->
       let s1 = force_step legacy s i (ARead_datagram drop) in
       if Nat.ltb (length s.threads) (length s1.threads)
       then run_thread legacy (S (S (S (S (S (S (S (S (S (S (S (S (S (S (S (S
              (S (S (S (S O)))))))))))))))))))) s1 (length s.threads)
       else s1
     | HHandlerDone g ->
       run_thread legacy (S (S (S (S (S (S (S (S (S (S (S (S (S (S (S (S (S
         (S (S (S O))))))))))))))))))))
         (force_step legacy s g AHandler_return) g
     | HShutdown ->
       let s1 = add_thread s (TShut (H_start, false)) in
       run_thread legacy (S (S (S (S (S (S (S (S (S (S (S (S (S (S (S (S (S
         (S (S (S O)))))))))))))))))))) s1 (length s.threads)
     | HWait j ->
       (match nth_error s.threads j with
        | Some t ->
          (match t with
           | TShut (pc, _) ->
             (match pc with
              | H_wait -> force_step legacy s j ARun
              | _ -> s)
           | _ -> s)
        | None -> s)
     | HExpire j -> force_step legacy s j AExpire)

(** val status : thread -> z **)

let status = function
| TServe (_, pc) ->
  (match pc with
   | S_registered -> Zpos (XI (XI (XO XH)))
   | S_reading -> Zpos (XO (XO (XI XH)))
   | S_returned r ->
     (match r with
      | RetShutdown -> Zpos (XI (XO (XI XH)))
      | RetErr -> Zpos (XO (XI (XI XH))))
   | _ -> Zpos (XI (XI (XO (XO XH)))))
| TDgram pc ->
  (match pc with
   | D_handler -> Zpos (XI (XO (XI (XO XH))))
   | D_end -> Zpos (XO (XI (XI (XO XH))))
   | _ -> Zpos (XI (XO (XI (XI XH)))))
| TShut (pc, expired) ->
  (match pc with
   | H_wait -> Zpos (XI (XI (XI (XI XH))))
   | H_select -> Zpos (XO (XO (XO (XO (XO XH)))))
   | H_ret_nil ->
     if expired
     then Zpos (XI (XI (XO (XO (XO XH)))))
     else Zpos (XI (XO (XO (XO (XO XH)))))
   | H_ret_err -> Zpos (XI (XI (XO (XO (XO XH)))))
   | _ -> Zpos (XI (XI (XI (XO (XO XH))))))

(** val run_hacts : bool -> state -> hact list -> z list list **)

let rec run_hacts legacy s = function
| [] -> []
| h :: r ->
  let s' = do_hact legacy s h in
  (app (map status s'.threads)
    ((if Nat.leb (S (S O)) s'.closes then Zpos (XO XH) else Z0) :: ((Z.of_nat
                                                                    (length
                                                                    (nodup
                                                                    Nat.eq_dec
                                                                    s'.closedc))) :: []))) :: 
  (run_hacts legacy s' r)

type verdict =
| Acceptable of ((((z * n) * bytes) * bytes) * attrs)
| Bad of n

(** val classify :
    (bytes -> bytes) -> bool -> bytes -> bytes -> bytes -> verdict **)

let classify h skip_verify wire sec d =
  let d0 =
    firstn (S (S (S (S (S (S (S (S (S (S (S (S (S (S (S (S (S (S (S (S (S (S
      (S (S (S (S (S (S (S (S (S (S (S (S (S (S (S (S (S (S (S (S (S (S (S (S
      (S (S (S (S (S (S (S (S (S (S (S (S (S (S (S (S (S (S (S (S (S (S (S (S
      (S (S (S (S (S (S (S (S (S (S (S (S (S (S (S (S (S (S (S (S (S (S (S (S
      (S (S (S (S (S (S (S (S (S (S (S (S (S (S (S (S (S (S (S (S (S (S (S (S
      (S (S (S (S (S (S (S (S (S (S (S (S (S (S (S (S (S (S (S (S (S (S (S (S
      (S (S (S (S (S (S (S (S (S (S (S (S (S (S (S (S (S (S (S (S (S (S (S (S
      (S (S (S (S (S (S (S (S (S (S (S (S (S (S (S (S (S (S (S (S (S (S (S (S
      (S (S (S (S (S (S (S (S (S (S (S (S (S (S (S (S (S (S (S (S (S (S (S (S
      (S (S (S (S (S (S (S (S (S (S (S (S (S (S (S (S (S (S (S (S (S (S (S (S
      (S (S (S (S (S (S (S (S (S (S (S (S (S (S (S (S (S (S (S (S (S (S (S (S
      (S (S (S (S (S (S (S (S (S (S (S (S (S (S (S (S (S (S (S (S (S (S (S (S
      (S (S (S (S (S (S (S (S (S (S (S (S (S (S (S (S (S (S (S (S (S (S (S (S
      (S (S (S (S (S (S (S (S (S (S (S (S (S (S (S (S (S (S (S (S (S (S (S (S
      (S (S (S (S (S (S (S (S (S (S (S (S (S (S (S (S (S (S (S (S (S (S (S (S
      (S (S (S (S (S (S (S (S (S (S (S (S (S (S (S (S (S (S (S (S (S (S (S (S
      (S (S (S (S (S (S (S (S (S (S (S (S (S (S (S (S (S (S (S (S (S (S (S (S
      (S (S (S (S (S (S (S (S (S (S (S (S (S (S (S (S (S (S (S (S (S (S (S (S
      (S (S (S (S (S (S (S (S (S (S (S (S (S (S (S (S (S (S (S (S (S (S (S (S
      (S (S (S (S (S (S (S (S (S (S (S (S (S (S (S (S (S (S (S (S (S (S (S (S
      (S (S (S (S (S (S (S (S (S (S (S (S (S (S (S (S (S (S (S (S (S (S (S (S
      (S (S (S (S (S (S (S (S (S (S (S (S (S (S (S (S (S (S (S (S (S (S (S (S
      (S (S (S (S (S (S (S (S (S (S (S (S (S (S (S (S (S (S (S (S (S (S (S (S
      (S (S (S (S (S (S (S (S (S (S (S (S (S (S (S (S (S (S (S (S (S (S (S (S
      (S (S (S (S (S (S (S (S (S (S (S (S (S (S (S (S (S (S (S (S (S (S (S (S
      (S (S (S (S (S (S (S (S (S (S (S (S (S (S (S (S (S (S (S (S (S (S (S (S
      (S (S (S (S (S (S (S (S (S (S (S (S (S (S (S (S (S (S (S (S (S (S (S (S
      (S (S (S (S (S (S (S (S (S (S (S (S (S (S (S (S (S (S (S (S (S (S (S (S
      (S (S (S (S (S (S (S (S (S (S (S (S (S (S (S (S (S (S (S (S (S (S (S (S
      (S (S (S (S (S (S (S (S (S (S (S (S (S (S (S (S (S (S (S (S (S (S (S (S
      (S (S (S (S (S (S (S (S (S (S (S (S (S (S (S (S (S (S (S (S (S (S (S (S
      (S (S (S (S (S (S (S (S (S (S (S (S (S (S (S (S (S (S (S (S (S (S (S (S
      (S (S (S (S (S (S (S (S (S (S (S (S (S (S (S (S (S (S (S (S (S (S (S (S
      (S (S (S (S (S (S (S (S (S (S (S (S (S (S (S (S (S (S (S (S (S (S (S (S
      (S (S (S (S (S (S (S (S (S (S (S (S (S (S (S (S (S (S (S (S (S (S (S (S
      (S (S (S (S (S (S (S (S (S (S (S (S (S (S (S (S (S (S (S (S (S (S (S (S
      (S (S (S (S (S (S (S (S (S (S (S (S (S (S (S (S (S (S (S (S (S (S (S (S
      (S (S (S (S (S (S (S (S (S (S (S (S (S (S (S (S (S (S (S (S (S (S (S (S
      (S (S (S (S (S (S (S (S (S (S (S (S (S (S (S (S (S (S (S (S (S (S (S (S
      (S (S (S (S (S (S (S (S (S (S (S (S (S (S (S (S (S (S (S (S (S (S (S (S
      (S (S (S (S (S (S (S (S (S (S (S (S (S (S (S (S (S (S (S (S (S (S (S (S
      (S (S (S (S (S (S (S (S (S (S (S (S (S (S (S (S (S (S (S (S (S (S (S (S
      (S (S (S (S (S (S (S (S (S (S (S (S (S (S (S (S (S (S (S (S (S (S (S (S
      (S (S (S (S (S (S (S (S (S (S (S (S (S (S (S (S (S (S (S (S (S (S (S (S
      (S (S (S (S (S (S (S (S (S (S (S (S (S (S (S (S (S (S (S (S (S (S (S (S
      (S (S (S (S (S (S (S (S (S (S (S (S (S (S (S (S (S (S (S (S (S (S (S (S
      (S (S (S (S (S (S (S (S (S (S (S (S (S (S (S (S (S (S (S (S (S (S (S (S
      (S (S (S (S (S (S (S (S (S (S (S (S (S (S (S (S (S (S (S (S (S (S (S (S
      (S (S (S (S (S (S (S (S (S (S (S (S (S (S (S (S (S (S (S (S (S (S (S (S
      (S (S (S (S (S (S (S (S (S (S (S (S (S (S (S (S (S (S (S (S (S (S (S (S
      (S (S (S (S (S (S (S (S (S (S (S (S (S (S (S (S (S (S (S (S (S (S (S (S
      (S (S (S (S (S (S (S (S (S (S (S (S (S (S (S (S (S (S (S (S (S (S (S (S
      (S (S (S (S (S (S (S (S (S (S (S (S (S (S (S (S (S (S (S (S (S (S (S (S
      (S (S (S (S (S (S (S (S (S (S (S (S (S (S (S (S (S (S (S (S (S (S (S (S
      (S (S (S (S (S (S (S (S (S (S (S (S (S (S (S (S (S (S (S (S (S (S (S (S
      (S (S (S (S (S (S (S (S (S (S (S (S (S (S (S (S (S (S (S (S (S (S (S (S
      (S (S (S (S (S (S (S (S (S (S (S (S (S (S (S (S (S (S (S (S (S (S (S (S
      (S (S (S (S (S (S (S (S (S (S (S (S (S (S (S (S (S (S (S (S (S (S (S (S
      (S (S (S (S (S (S (S (S (S (S (S (S (S (S (S (S (S (S (S (S (S (S (S (S
      (S (S (S (S (S (S (S (S (S (S (S (S (S (S (S (S (S (S (S (S (S (S (S (S
      (S (S (S (S (S (S (S (S (S (S (S (S (S (S (S (S (S (S (S (S (S (S (S (S
      (S (S (S (S (S (S (S (S (S (S (S (S (S (S (S (S (S (S (S (S (S (S (S (S
      (S (S (S (S (S (S (S (S (S (S (S (S (S (S (S (S (S (S (S (S (S (S (S (S
      (S (S (S (S (S (S (S (S (S (S (S (S (S (S (S (S (S (S (S (S (S (S (S (S
      (S (S (S (S (S (S (S (S (S (S (S (S (S (S (S (S (S (S (S (S (S (S (S (S
      (S (S (S (S (S (S (S (S (S (S (S (S (S (S (S (S (S (S (S (S (S (S (S (S
      (S (S (S (S (S (S (S (S (S (S (S (S (S (S (S (S (S (S (S (S (S (S (S (S
      (S (S (S (S (S (S (S (S (S (S (S (S (S (S (S (S (S (S (S (S (S (S (S (S
      (S (S (S (S (S (S (S (S (S (S (S (S (S (S (S (S (S (S (S (S (S (S (S (S
      (S (S (S (S (S (S (S (S (S (S (S (S (S (S (S (S (S (S (S (S (S (S (S (S
      (S (S (S (S (S (S (S (S (S (S (S (S (S (S (S (S (S (S (S (S (S (S (S (S
      (S (S (S (S (S (S (S (S (S (S (S (S (S (S (S (S (S (S (S (S (S (S (S (S
      (S (S (S (S (S (S (S (S (S (S (S (S (S (S (S (S (S (S (S (S (S (S (S (S
      (S (S (S (S (S (S (S (S (S (S (S (S (S (S (S (S (S (S (S (S (S (S (S (S
      (S (S (S (S (S (S (S (S (S (S (S (S (S (S (S (S (S (S (S (S (S (S (S (S
      (S (S (S (S (S (S (S (S (S (S (S (S (S (S (S (S (S (S (S (S (S (S (S (S
      (S (S (S (S (S (S (S (S (S (S (S (S (S (S (S (S (S (S (S (S (S (S (S (S
      (S (S (S (S (S (S (S (S (S (S (S (S (S (S (S (S (S (S (S (S (S (S (S (S
      (S (S (S (S (S (S (S (S (S (S (S (S (S (S (S (S (S (S (S (S (S (S (S (S
      (S (S (S (S (S (S (S (S (S (S (S (S (S (S (S (S (S (S (S (S (S (S (S (S
      (S (S (S (S (S (S (S (S (S (S (S (S (S (S (S (S (S (S (S (S (S (S (S (S
      (S (S (S (S (S (S (S (S (S (S (S (S (S (S (S (S (S (S (S (S (S (S (S (S
      (S (S (S (S (S (S (S (S (S (S (S (S (S (S (S (S (S (S (S (S (S (S (S (S
      (S (S (S (S (S (S (S (S (S (S (S (S (S (S (S (S (S (S (S (S (S (S (S (S
      (S (S (S (S (S (S (S (S (S (S (S (S (S (S (S (S (S (S (S (S (S (S (S (S
      (S (S (S (S (S (S (S (S (S (S (S (S (S (S (S (S (S (S (S (S (S (S (S (S
      (S (S (S (S (S (S (S (S (S (S (S (S (S (S (S (S (S (S (S (S (S (S (S (S
      (S (S (S (S (S (S (S (S (S (S (S (S (S (S (S (S (S (S (S (S (S (S (S (S
      (S (S (S (S (S (S (S (S (S (S (S (S (S (S (S (S (S (S (S (S (S (S (S (S
      (S (S (S (S (S (S (S (S (S (S (S (S (S (S (S (S (S (S (S (S (S (S (S (S
      (S (S (S (S (S (S (S (S (S (S (S (S (S (S (S (S (S (S (S (S (S (S (S (S
      (S (S (S (S (S (S (S (S (S (S (S (S (S (S (S (S (S (S (S (S (S (S (S (S
      (S (S (S (S (S (S (S (S (S (S (S (S (S (S (S (S (S (S (S (S (S (S (S (S
      (S (S (S (S (S (S (S (S (S (S (S (S (S (S (S (S (S (S (S (S (S (S (S (S
      (S (S (S (S (S (S (S (S (S (S (S (S (S (S (S (S (S (S (S (S (S (S (S (S
      (S (S (S (S (S (S (S (S (S (S (S (S (S (S (S (S (S (S (S (S (S (S (S (S
      (S (S (S (S (S (S (S (S (S (S (S (S (S (S (S (S (S (S (S (S (S (S (S (S
      (S (S (S (S (S (S (S (S (S (S (S (S (S (S (S (S (S (S (S (S (S (S (S (S
      (S (S (S (S (S (S (S (S (S (S (S (S (S (S (S (S (S (S (S (S (S (S (S (S
      (S (S (S (S (S (S (S (S (S (S (S (S (S (S (S (S (S (S (S (S (S (S (S (S
      (S (S (S (S (S (S (S (S (S (S (S (S (S (S (S (S (S (S (S (S (S (S (S (S
      (S (S (S (S (S (S (S (S (S (S (S (S (S (S (S (S (S (S (S (S (S (S (S (S
      (S (S (S (S (S (S (S (S (S (S (S (S (S (S (S (S (S (S (S (S (S (S (S (S
      (S (S (S (S (S (S (S (S (S (S (S (S (S (S (S (S (S (S (S (S (S (S (S (S
      (S (S (S (S (S (S (S (S (S (S (S (S (S (S (S (S (S (S (S (S (S (S (S (S
      (S (S (S (S (S (S (S (S (S (S (S (S (S (S (S (S (S (S (S (S (S (S (S (S
      (S (S (S (S (S (S (S (S (S (S (S (S (S (S (S (S (S (S (S (S (S (S (S (S
      (S (S (S (S (S (S (S (S (S (S (S (S (S (S (S (S (S (S (S (S (S (S (S (S
      (S (S (S (S (S (S (S (S (S (S (S (S (S (S (S (S (S (S (S (S (S (S (S (S
      (S (S (S (S (S (S (S (S (S (S (S (S (S (S (S (S (S (S (S (S (S (S (S (S
      (S (S (S (S (S (S (S (S (S (S (S (S (S (S (S (S (S (S (S (S (S (S (S (S
      (S (S (S (S (S (S (S (S (S (S (S (S (S (S (S (S (S (S (S (S (S (S (S (S
      (S (S (S (S (S (S (S (S (S (S (S (S (S (S (S (S (S (S (S (S (S (S (S (S
      (S (S (S (S (S (S (S (S (S (S (S (S (S (S (S (S (S (S (S (S (S (S (S (S
      (S (S (S (S (S (S (S (S (S (S (S (S (S (S (S (S (S (S (S (S (S (S (S (S
      (S (S (S (S (S (S (S (S (S (S (S (S (S (S (S (S (S (S (S (S (S (S (S (S
      (S (S (S (S (S (S (S (S (S (S (S (S (S (S (S (S (S (S (S (S (S (S (S (S
      (S (S (S (S (S (S (S (S (S (S (S (S (S (S (S (S (S (S (S (S (S (S (S (S
      (S (S (S (S (S (S (S (S (S (S (S (S (S (S (S (S (S (S (S (S (S (S (S (S
      (S (S (S (S (S (S (S (S (S (S (S (S (S (S (S (S (S (S (S (S (S (S (S (S
      (S (S (S (S (S (S (S (S (S (S (S (S (S (S (S (S (S (S (S (S (S (S (S (S
      (S (S (S (S (S (S (S (S (S (S (S (S (S (S (S (S (S (S (S (S (S (S (S (S
      (S (S (S (S (S (S (S (S (S (S (S (S (S (S (S (S (S (S (S (S (S (S (S (S
      (S (S (S (S (S (S (S (S (S (S (S (S (S (S (S (S (S (S (S (S (S (S (S (S
      (S (S (S (S (S (S (S (S (S (S (S (S (S (S (S (S (S (S (S (S (S (S (S (S
      (S (S (S (S (S (S (S (S (S (S (S (S (S (S (S (S (S (S (S (S (S (S (S (S
      (S (S (S (S (S (S (S (S (S (S (S (S (S (S (S (S (S (S (S (S (S (S (S (S
      (S (S (S (S (S (S (S (S (S (S (S (S (S (S (S (S (S (S (S (S (S (S (S (S
      (S (S (S (S (S (S (S (S (S (S (S (S (S (S (S (S (S (S (S (S (S (S (S (S
      (S (S (S (S (S (S (S (S (S (S (S (S (S (S (S (S (S (S (S (S (S (S (S (S
      (S (S (S (S (S (S (S (S (S (S (S (S (S (S (S (S (S (S (S (S (S (S (S (S
      (S (S (S (S (S (S (S (S (S (S (S (S (S (S (S (S (S (S (S (S (S (S (S (S
      (S (S (S (S (S (S (S (S (S (S (S (S (S (S (S (S (S (S (S (S (S (S (S (S
      (S (S (S (S (S (S (S (S (S (S (S (S (S (S (S (S (S (S (S (S (S (S (S (S
      (S (S (S (S (S (S (S (S (S (S (S (S (S (S (S (S (S (S (S (S (S (S (S (S
      (S (S (S (S (S (S (S (S (S (S (S (S (S (S (S (S (S (S (S (S (S (S (S (S
      (S (S (S (S (S (S (S (S (S (S (S (S (S (S (S (S (S (S (S (S (S (S (S (S
      (S (S (S (S (S (S (S (S (S (S (S (S (S (S (S (S (S (S (S (S (S (S (S (S
      (S (S (S (S (S (S (S (S (S (S (S (S (S (S (S (S (S (S (S (S (S (S (S (S
      (S (S (S (S (S (S (S (S (S (S (S (S (S (S (S (S (S (S (S (S (S (S (S (S
      (S (S (S (S (S (S (S (S (S (S (S (S (S (S (S (S (S (S (S (S (S (S (S (S
      (S (S (S (S (S (S (S (S (S (S (S (S (S (S (S (S (S (S (S (S (S (S (S (S
      (S (S (S (S (S (S (S (S (S (S (S (S (S (S (S (S (S (S (S (S (S (S (S (S
      (S (S (S (S (S (S (S (S (S (S (S (S (S (S (S (S (S (S (S (S (S (S (S (S
      (S (S (S (S (S (S (S (S (S (S (S (S (S (S (S (S (S (S (S (S (S (S (S (S
      (S (S (S (S (S (S (S (S (S (S (S (S (S (S (S (S (S (S (S (S (S (S (S (S
      (S (S (S (S (S (S (S (S (S (S (S (S (S (S (S (S (S (S (S (S (S (S (S (S
      (S (S (S (S (S (S (S (S (S (S (S (S (S (S (S (S (S (S (S (S (S (S (S (S
      (S (S (S (S (S (S (S (S (S (S (S (S (S (S (S (S (S (S (S (S (S (S (S (S
      (S (S (S (S (S (S (S (S (S (S (S (S (S (S (S (S (S (S (S (S (S (S (S (S
      (S (S (S (S (S (S (S (S (S (S (S (S (S (S (S (S (S (S (S (S (S (S (S (S
      (S (S (S (S (S (S (S (S (S (S (S (S (S (S (S (S (S (S (S (S (S (S (S (S
      (S (S (S (S (S (S (S (S (S (S (S (S (S (S (S (S (S (S (S (S (S (S (S (S
      (S (S (S (S (S (S (S (S (S (S (S (S (S (S (S (S (S (S (S (S (S (S (S (S
      (S (S (S (S (S (S (S (S (S (S (S (S (S (S (S (S (S (S (S (S (S (S (S (S
      (S (S (S (S (S (S (S (S (S (S (S (S (S (S (S (S (S (S (S (S (S (S (S (S
      (S (S (S (S (S (S (S (S (S (S (S (S (S (S (S (S (S (S (S (S (S (S (S (S
      (S (S (S (S (S (S (S (S (S (S (S (S (S (S (S (S (S (S (S (S (S (S (S (S
      (S (S (S (S (S (S (S (S (S (S (S (S (S (S (S (S (S (S (S (S (S (S (S (S
      (S (S (S (S (S (S (S (S (S (S (S (S (S (S (S (S (S (S (S (S (S (S (S (S
      (S (S (S (S (S (S (S (S (S (S (S (S (S (S (S (S (S (S (S (S (S (S (S (S
      (S (S (S (S (S (S (S (S (S (S (S (S (S (S (S (S (S (S (S (S (S (S (S (S
      (S (S (S (S (S (S (S (S (S (S (S (S (S (S (S (S (S (S (S (S (S (S (S (S
      (S (S (S (S (S (S (S (S (S (S (S (S (S (S (S (S (S (S (S (S (S (S (S (S
      (S (S (S (S (S (S (S (S (S (S (S (S (S (S (S (S (S (S (S (S (S (S (S (S
      (S (S (S (S (S (S (S (S (S (S (S (S (S (S (S (S (S (S (S (S (S (S (S (S
      (S (S (S (S (S (S (S (S (S (S (S (S (S (S (S (S (S (S (S (S (S (S (S (S
      (S (S (S (S (S (S (S (S (S (S (S (S (S (S (S (S (S (S (S (S (S (S (S (S
      (S (S (S (S (S (S (S (S (S (S (S (S (S (S (S (S (S (S (S (S (S (S (S (S
      (S (S (S (S (S (S (S (S (S (S (S (S (S (S (S (S (S (S (S (S (S (S (S (S
      (S (S (S (S (S (S (S (S (S (S (S (S (S (S (S (S (S (S
      O))))))))))))))))))))))))))))))))))))))))))))))))))))))))))))))))))))))))))))))))))))))))))))))))))))))))))))))))))))))))))))))))))))))))))))))))))))))))))))))))))))))))))))))))))))))))))))))))))))))))))))))))))))))))))))))))))))))))))))))))))))))))))))))))))))))))))))))))))))))))))))))))))))))))))))))))))))))))))))))))))))))))))))))))))))))))))))))))))))))))))))))))))))))))))))))))))))))))))))))))))))))))))))))))))))))))))))))))))))))))))))))))))))))))))))))))))))))))))))))))))))))))))))))))))))))))))))))))))))))))))))))))))))))))))))))))))))))))))))))))))))))))))))))))))))))))))))))))))))))))))))))))))))))))))))))))))))))))))))))))))))))))))))))))))))))))))))))))))))))))))))))))))))))))))))))))))))))))))))))))))))))))))))))))))))))))))))))))))))))))))))))))))))))))))))))))))))))))))))))))))))))))))))))))))))))))))))))))))))))))))))))))))))))))))))))))))))))))))))))))))))))))))))))))))))))))))))))))))))))))))))))))))))))))))))))))))))))))))))))))))))))))))))))))))))))))))))))))))))))))))))))))))))))))))))))))))))))))))))))))))))))))))))))))))))))))))))))))))))))))))))))))))))))))))))))))))))))))))))))))))))))))))))))))))))))))))))))))))))))))))))))))))))))))))))))))))))))))))))))))))))))))))))))))))))))))))))))))))))))))))))))))))))))))))))))))))))))))))))))))))))))))))))))))))))))))))))))))))))))))))))))))))))))))))))))))))))))))))))))))))))))))))))))))))))))))))))))))))))))))))))))))))))))))))))))))))))))))))))))))))))))))))))))))))))))))))))))))))))))))))))))))))))))))))))))))))))))))))))))))))))))))))))))))))))))))))))))))))))))))))))))))))))))))))))))))))))))))))))))))))))))))))))))))))))))))))))))))))))))))))))))))))))))))))))))))))))))))))))))))))))))))))))))))))))))))))))))))))))))))))))))))))))))))))))))))))))))))))))))))))))))))))))))))))))))))))))))))))))))))))))))))))))))))))))))))))))))))))))))))))))))))))))))))))))))))))))))))))))))))))))))))))))))))))))))))))))))))))))))))))))))))))))))))))))))))))))))))))))))))))))))))))))))))))))))))))))))))))))))))))))))))))))))))))))))))))))))))))))))))))))))))))))))))))))))))))))))))))))))))))))))))))))))))))))))))))))))))))))))))))))))))))))))))))))))))))))))))))))))))))))))))))))))))))))))))))))))))))))))))))))))))))))))))))))))))))))))))))))))))))))))))))))))))))))))))))))))))))))))))))))))))))))))))))))))))))))))))))))))))))))))))))))))))))))))))))))))))))))))))))))))))))))))))))))))))))))))))))))))))))))))))))))))))))))))))))))))))))))))))))))))))))))))))))))))))))))))))))))))))))))))))))))))))))))))))))))))))))))))))))))))))))))))))))))))))))))))))))))))))))))))))))))))))))))))))))))))))))))))))))))))))))))))))))))))))))))))))))))))))))))))))))))))))))))))))))))))))))))))))))))))))))))))))))))))))))))))))))))))))))))))))))))))))))))))))))))))))))))))))))))))))))))))))))))))))))))))))))))))))))))))))))))))))))))))))))))))))))))))))))))))))))))))))))))))))))))))))))))))))))))))))))))))))))))))))))))))))))))))))))))))))))))))))))))))))))))))))))))))))))))))))))))))))))))))))))))))))))))))))))))))))))))))))))))))))))))))))))))))))))))))))))))))))))))))))))))))))))))))))))))))))))))))))))))))))))))))))))))))))))))))))))))))))))))))))))))))))))))))))))))))))))))))))))))))))))))))))))))))))))))))))))))))))))))))))))))))))))))))))))))))))))))))))))))))))))))))))))))))))))))))))))))))))))))))))))))))))))))))))))))))))))))))))))))))))))))))))))))))))))))))))))))))))))))))))))))))))))))))))))))))))))))))))))))))))))))))))))))))))))))))))))))))))))))))))))))))))))))))))))))))))))))))))))))))))))))))))))))))))))))))))))))))))))))))))))))))))))))))))))))))))))))))))))))))))))))))))))))))))))))))))))))))))))))))))))))))))))))))))))))))))))))))))))))))))))))))))))))))))))))))))))))))))))))))))))))))))))))))))))))))))))))))))))))))))))))))))))))))))))))))))))))))))))))))))))))))))))))))))))))))))))))))))))))))))))))))))))))))))))))))))))))))))))))))))))))))))))))))))))))))))))))))))))))))))))))))))))))))))))))))))))))))))))))))))))))))))))))))))))))))))))))))))))))))))))))))))))))))))))))))))))))))))))))))))))))))))))))))))))))))))))))))))))))))))))))))))))))))))))))))))))))))))
      d
  in
  (match spec_parse d0 sec with
   | Ok t ->
     if (||) skip_verify (spec_is_authentic_response h d0 wire sec)
     then Acceptable t
     else Bad (Npos (XI (XO (XO XH))))
   | Err e -> Bad e
   | Panic -> Bad (Npos (XO (XI (XO (XO (XO (XI XH)))))))
   | OutOfFuel -> Bad (Npos (XI (XI (XO (XO (XO (XI XH))))))))

type soutcome =
| SReturned of ((((z * n) * bytes) * bytes) * attrs) * nat
| SFailed of n * nat
| SWaiting of z

(** val spec_recv : verdict list -> nat option -> z -> nat -> soutcome **)

let rec spec_recv vs budget seen i =
  match vs with
  | [] -> SWaiting seen
  | v :: r ->
    (match v with
     | Acceptable t -> SReturned (t, i)
     | Bad e ->
       (match budget with
        | Some n0 ->
          (match n0 with
           | O -> SFailed (e, i)
           | S n1 ->
             (match n1 with
              | O -> SFailed (e, i)
              | S b -> spec_recv r (Some (S b)) (Z.add seen (Zpos XH)) (S i)))
        | None -> spec_recv r None (Z.add seen (Zpos XH)) (S i)))

(** val spec_exchange_recv :
    (bytes -> bytes) -> z -> bool -> bytes -> bytes -> bytes list -> soutcome **)

let spec_exchange_recv h max_errors skip_verify wire sec ds =
  spec_recv (map (classify h skip_verify wire sec) ds)
    (if Z.ltb Z0 max_errors then Some (Z.to_nat max_errors) else None) Z0 O

(** val spec_dec_uint : nat -> bytes -> n res **)

let spec_dec_uint k a =
  if Nat.eqb (length a) k then Ok (be_dec a) else Err e_invalid

(** val spec_enc_uint : nat -> n -> bytes **)

let spec_enc_uint =
  be_enc

(** val spec_new_octets : bytes -> bytes res **)

let spec_new_octets s =
  if Nat.leb (length s) (S (S (S (S (S (S (S (S (S (S (S (S (S (S (S (S (S (S
       (S (S (S (S (S (S (S (S (S (S (S (S (S (S (S (S (S (S (S (S (S (S (S
       (S (S (S (S (S (S (S (S (S (S (S (S (S (S (S (S (S (S (S (S (S (S (S
       (S (S (S (S (S (S (S (S (S (S (S (S (S (S (S (S (S (S (S (S (S (S (S
       (S (S (S (S (S (S (S (S (S (S (S (S (S (S (S (S (S (S (S (S (S (S (S
       (S (S (S (S (S (S (S (S (S (S (S (S (S (S (S (S (S (S (S (S (S (S (S
       (S (S (S (S (S (S (S (S (S (S (S (S (S (S (S (S (S (S (S (S (S (S (S
       (S (S (S (S (S (S (S (S (S (S (S (S (S (S (S (S (S (S (S (S (S (S (S
       (S (S (S (S (S (S (S (S (S (S (S (S (S (S (S (S (S (S (S (S (S (S (S
       (S (S (S (S (S (S (S (S (S (S (S (S (S (S (S (S (S (S (S (S (S (S (S
       (S (S (S (S (S (S (S (S (S (S (S (S (S (S (S (S (S (S (S (S (S (S (S
       (S (S (S (S (S
       O)))))))))))))))))))))))))))))))))))))))))))))))))))))))))))))))))))))))))))))))))))))))))))))))))))))))))))))))))))))))))))))))))))))))))))))))))))))))))))))))))))))))))))))))))))))))))))))))))))))))))))))))))))))))))))))))))))))))))))))))))))))))))))))
  then Ok s
  else Err e_invalid

(** val v4_mapped_prefix : bytes **)

let v4_mapped_prefix =
  N0 :: (N0 :: (N0 :: (N0 :: (N0 :: (N0 :: (N0 :: (N0 :: (N0 :: (N0 :: ((Npos
    (XI (XI (XI (XI (XI (XI (XI XH)))))))) :: ((Npos (XI (XI (XI (XI (XI (XI
    (XI XH)))))))) :: [])))))))))))

(** val ip_canon : bytes -> bytes option **)

let ip_canon ip =
  if Nat.eqb (length ip) (S (S (S (S O))))
  then Some (app v4_mapped_prefix ip)
  else if Nat.eqb (length ip) (S (S (S (S (S (S (S (S (S (S (S (S (S (S (S (S
            O))))))))))))))))
       then Some ip
       else None

(** val spec_new_ipaddr : bytes -> bytes res **)

let spec_new_ipaddr ip =
  if Nat.eqb (length ip) (S (S (S (S O))))
  then Ok ip
  else if (&&)
            (Nat.eqb (length ip) (S (S (S (S (S (S (S (S (S (S (S (S (S (S (S
              (S O)))))))))))))))))
            (beq
              (firstn (S (S (S (S (S (S (S (S (S (S (S (S O)))))))))))) ip)
              v4_mapped_prefix)
       then Ok (skipn (S (S (S (S (S (S (S (S (S (S (S (S O)))))))))))) ip)
       else Err e_invalid

(** val spec_fixed : nat -> bytes -> bytes res **)

let spec_fixed k a =
  if Nat.eqb (length a) k then Ok a else Err e_invalid

(** val spec_new_ipv6addr : bytes -> bytes res **)

let spec_new_ipv6addr ip =
  match ip_canon ip with
  | Some c -> Ok c
  | None -> Err e_invalid

(** val spec_new_date : z -> bytes res **)

let spec_new_date unix =
  if (&&) (Z.leb Z0 unix)
       (Z.leb unix (Zpos (XI (XI (XI (XI (XI (XI (XI (XI (XI (XI (XI (XI (XI
         (XI (XI (XI (XI (XI (XI (XI (XI (XI (XI (XI (XI (XI (XI (XI (XI (XI
         (XI XH)))))))))))))))))))))))))))))))))
  then Ok (be_enc (S (S (S (S O)))) (Z.to_N unix))
  else Err e_invalid

(** val spec_date : bytes -> z res **)

let spec_date a =
  if Nat.eqb (length a) (S (S (S (S O))))
  then Ok (Z.of_N (be_dec a))
  else Err e_invalid

(** val spec_new_vsa : n -> bytes -> bytes res **)

let spec_new_vsa id v =
  if (&&) (Nat.leb (S O) (length v))
       (Nat.leb (length v) (S (S (S (S (S (S (S (S (S (S (S (S (S (S (S (S (S
         (S (S (S (S (S (S (S (S (S (S (S (S (S (S (S (S (S (S (S (S (S (S (S
         (S (S (S (S (S (S (S (S (S (S (S (S (S (S (S (S (S (S (S (S (S (S (S
         (S (S (S (S (S (S (S (S (S (S (S (S (S (S (S (S (S (S (S (S (S (S (S
         (S (S (S (S (S (S (S (S (S (S (S (S (S (S (S (S (S (S (S (S (S (S (S
         (S (S (S (S (S (S (S (S (S (S (S (S (S (S (S (S (S (S (S (S (S (S (S
         (S (S (S (S (S (S (S (S (S (S (S (S (S (S (S (S (S (S (S (S (S (S (S
         (S (S (S (S (S (S (S (S (S (S (S (S (S (S (S (S (S (S (S (S (S (S (S
         (S (S (S (S (S (S (S (S (S (S (S (S (S (S (S (S (S (S (S (S (S (S (S
         (S (S (S (S (S (S (S (S (S (S (S (S (S (S (S (S (S (S (S (S (S (S (S
         (S (S (S (S (S (S (S (S (S (S (S (S (S (S (S (S (S (S (S (S (S (S (S
         (S (S
         O))))))))))))))))))))))))))))))))))))))))))))))))))))))))))))))))))))))))))))))))))))))))))))))))))))))))))))))))))))))))))))))))))))))))))))))))))))))))))))))))))))))))))))))))))))))))))))))))))))))))))))))))))))))))))))))))))))))))))))))))))))))))))
  then Ok (app (be_enc (S (S (S (S O)))) id) v)
  else Err e_invalid

(** val spec_vsa : bytes -> (n * bytes) res **)

let spec_vsa a =
  if Nat.leb (S (S (S (S (S O))))) (length a)
  then Ok ((be_dec (firstn (S (S (S (S O)))) a)), (skipn (S (S (S (S O)))) a))
  else Err e_invalid

(** val spec_new_tlv : n -> bytes -> bytes res **)

let spec_new_tlv t v =
  if (&&) (Nat.leb (S O) (length v))
       (Nat.leb (length v) (S (S (S (S (S (S (S (S (S (S (S (S (S (S (S (S (S
         (S (S (S (S (S (S (S (S (S (S (S (S (S (S (S (S (S (S (S (S (S (S (S
         (S (S (S (S (S (S (S (S (S (S (S (S (S (S (S (S (S (S (S (S (S (S (S
         (S (S (S (S (S (S (S (S (S (S (S (S (S (S (S (S (S (S (S (S (S (S (S
         (S (S (S (S (S (S (S (S (S (S (S (S (S (S (S (S (S (S (S (S (S (S (S
         (S (S (S (S (S (S (S (S (S (S (S (S (S (S (S (S (S (S (S (S (S (S (S
         (S (S (S (S (S (S (S (S (S (S (S (S (S (S (S (S (S (S (S (S (S (S (S
         (S (S (S (S (S (S (S (S (S (S (S (S (S (S (S (S (S (S (S (S (S (S (S
         (S (S (S (S (S (S (S (S (S (S (S (S (S (S (S (S (S (S (S (S (S (S (S
         (S (S (S (S (S (S (S (S (S (S (S (S (S (S (S (S (S (S (S (S (S (S (S
         (S (S (S (S (S (S (S (S (S (S (S (S (S (S (S (S (S (S (S (S (S (S (S
         (S (S (S (S (S (S
         O))))))))))))))))))))))))))))))))))))))))))))))))))))))))))))))))))))))))))))))))))))))))))))))))))))))))))))))))))))))))))))))))))))))))))))))))))))))))))))))))))))))))))))))))))))))))))))))))))))))))))))))))))))))))))))))))))))))))))))))))))))))))))))))
  then Ok (t :: ((N.of_nat (add (length v) (S (S O)))) :: v))
  else Err e_invalid

(** val spec_tlv6929 : bytes -> (n * bytes) res **)

let spec_tlv6929 a = match a with
| [] -> Err e_invalid
| t :: l0 ->
  (match l0 with
   | [] -> Err e_invalid
   | l :: v ->
     if (&&)
          ((&&) (Nat.leb (S (S (S O))) (length a))
            (Nat.leb (length a) (S (S (S (S (S (S (S (S (S (S (S (S (S (S (S
              (S (S (S (S (S (S (S (S (S (S (S (S (S (S (S (S (S (S (S (S (S
              (S (S (S (S (S (S (S (S (S (S (S (S (S (S (S (S (S (S (S (S (S
              (S (S (S (S (S (S (S (S (S (S (S (S (S (S (S (S (S (S (S (S (S
              (S (S (S (S (S (S (S (S (S (S (S (S (S (S (S (S (S (S (S (S (S
              (S (S (S (S (S (S (S (S (S (S (S (S (S (S (S (S (S (S (S (S (S
              (S (S (S (S (S (S (S (S (S (S (S (S (S (S (S (S (S (S (S (S (S
              (S (S (S (S (S (S (S (S (S (S (S (S (S (S (S (S (S (S (S (S (S
              (S (S (S (S (S (S (S (S (S (S (S (S (S (S (S (S (S (S (S (S (S
              (S (S (S (S (S (S (S (S (S (S (S (S (S (S (S (S (S (S (S (S (S
              (S (S (S (S (S (S (S (S (S (S (S (S (S (S (S (S (S (S (S (S (S
              (S (S (S (S (S (S (S (S (S (S (S (S (S (S (S (S (S (S (S (S (S
              (S (S (S (S (S (S (S (S (S
              O)))))))))))))))))))))))))))))))))))))))))))))))))))))))))))))))))))))))))))))))))))))))))))))))))))))))))))))))))))))))))))))))))))))))))))))))))))))))))))))))))))))))))))))))))))))))))))))))))))))))))))))))))))))))))))))))))))))))))))))))))))))))))))))))))
          (Nat.eqb (N.to_nat l) (length a))
     then Ok (t, v)
     else Err e_invalid)

(** val byte_bits : n -> bool list **)

let byte_bits b =
  map (fun i -> N.testbit b (N.of_nat i)) ((S (S (S (S (S (S (S
    O))))))) :: ((S (S (S (S (S (S O)))))) :: ((S (S (S (S (S O))))) :: ((S
    (S (S (S O)))) :: ((S (S (S O))) :: ((S (S O)) :: ((S
    O) :: (O :: []))))))))

(** val bits_of : bytes -> bool list **)

let bits_of l =
  flat_map byte_bits l

(** val leading_ones : bool list -> nat **)

let rec leading_ones = function
| [] -> O
| b :: r -> if b then S (leading_ones r) else O

(** val spec_mask_ones : bytes -> nat option **)

let spec_mask_ones m =
  let bs = bits_of m in
  let n0 = leading_ones bs in
  if forallb negb (skipn n0 bs) then Some n0 else None

(** val clear_low : n -> nat -> n **)

let clear_low b keep =
  N.sub b
    (N.modulo b
      (N.pow (Npos (XO XH))
        (N.of_nat (sub (S (S (S (S (S (S (S (S O)))))))) keep))))

(** val apply_mask : bytes -> nat -> bytes **)

let rec apply_mask ip ones0 =
  match ip with
  | [] -> []
  | b :: r ->
    if Nat.leb (S (S (S (S (S (S (S (S O)))))))) ones0
    then b :: (apply_mask r (sub ones0 (S (S (S (S (S (S (S (S O))))))))))
    else (clear_low b ones0) :: (apply_mask r O)

(** val mask_of : nat -> nat -> bytes **)

let rec mask_of ones0 = function
| O -> []
| S n' ->
  if Nat.leb (S (S (S (S (S (S (S (S O)))))))) ones0
  then (Npos (XI (XI (XI (XI (XI (XI (XI
         XH)))))))) :: (mask_of (sub ones0 (S (S (S (S (S (S (S (S O)))))))))
                         n')
  else (clear_low (Npos (XI (XI (XI (XI (XI (XI (XI XH)))))))) ones0) :: 
         (mask_of O n')

(** val spec_new_ipv6prefix : bytes -> bytes -> bytes res **)

let spec_new_ipv6prefix ip mask0 =
  if (||)
       (negb
         (Nat.eqb (length ip) (S (S (S (S (S (S (S (S (S (S (S (S (S (S (S (S
           O))))))))))))))))))
       (negb
         (Nat.eqb (length mask0) (S (S (S (S (S (S (S (S (S (S (S (S (S (S (S
           (S O))))))))))))))))))
  then Err e_invalid
  else (match spec_mask_ones mask0 with
        | Some ones0 ->
          Ok
            (N0 :: ((N.of_nat ones0) :: (firstn
                                          (Nat.div
                                            (add ones0 (S (S (S (S (S (S (S
                                              O)))))))) (S (S (S (S (S (S (S
                                            (S O)))))))))
                                          (apply_mask ip ones0))))
        | None -> Err e_invalid)

(** val spec_ipv6prefix : bytes -> (bytes * bytes) res **)

let spec_ipv6prefix = function
| [] -> Err e_invalid
| _ :: l ->
  (match l with
   | [] -> Err e_invalid
   | pl :: data ->
     if (&&)
          (Nat.leb (length data) (S (S (S (S (S (S (S (S (S (S (S (S (S (S (S
            (S O)))))))))))))))))
          (N.leb pl (Npos (XO (XO (XO (XO (XO (XO (XO XH)))))))))
     then let ip =
            app data
              (repeat N0
                (sub (S (S (S (S (S (S (S (S (S (S (S (S (S (S (S (S
                  O)))))))))))))))) (length data)))
          in
          if beq (apply_mask ip (N.to_nat pl)) ip
          then Ok (ip,
                 (mask_of (N.to_nat pl) (S (S (S (S (S (S (S (S (S (S (S (S
                   (S (S (S (S O))))))))))))))))))
          else Err e_invalid
     else Err e_invalid)

(** val rfc_up_enc :
    (bytes -> bytes) -> nat -> bytes -> bytes -> bytes -> bytes **)

let rec rfc_up_enc h n0 s prev p =
  match n0 with
  | O -> []
  | S n' ->
    let c =
      xor_pad (h (app s prev))
        (firstn (S (S (S (S (S (S (S (S (S (S (S (S (S (S (S (S
          O)))))))))))))))) p)
    in
    app c
      (rfc_up_enc h n' s c
        (skipn (S (S (S (S (S (S (S (S (S (S (S (S (S (S (S (S
          O)))))))))))))))) p))

(** val up_blocks : nat -> nat **)

let up_blocks len =
  Nat.max (S O)
    (Nat.div
      (add len (S (S (S (S (S (S (S (S (S (S (S (S (S (S (S O))))))))))))))))
      (S (S (S (S (S (S (S (S (S (S (S (S (S (S (S (S O)))))))))))))))))

(** val rfc_up_encrypt :
    (bytes -> bytes) -> bytes -> bytes -> bytes -> bytes **)

let rfc_up_encrypt h s rA p =
  rfc_up_enc h (up_blocks (length p)) s rA p

(** val rfc_up_dec :
    (bytes -> bytes) -> nat -> bytes -> bytes -> bytes -> bytes **)

let rec rfc_up_dec h n0 s prev c =
  match n0 with
  | O -> []
  | S n' ->
    app
      (xor_pad (h (app s prev))
        (firstn (S (S (S (S (S (S (S (S (S (S (S (S (S (S (S (S
          O)))))))))))))))) c))
      (rfc_up_dec h n' s
        (firstn (S (S (S (S (S (S (S (S (S (S (S (S (S (S (S (S
          O)))))))))))))))) c)
        (skipn (S (S (S (S (S (S (S (S (S (S (S (S (S (S (S (S
          O)))))))))))))))) c))

(** val rfc_up_decrypt :
    (bytes -> bytes) -> bytes -> bytes -> bytes -> bytes **)

let rfc_up_decrypt h s rA c =
  take_until_nul
    (rfc_up_dec h
      (Nat.div (length c) (S (S (S (S (S (S (S (S (S (S (S (S (S (S (S (S
        O))))))))))))))))) s rA c)

(** val spec_new_user_password :
    (bytes -> bytes) -> bytes -> bytes -> bytes -> bytes res **)

let spec_new_user_password h pt sec ra =
  if (||)
       ((||)
         (Nat.ltb (S (S (S (S (S (S (S (S (S (S (S (S (S (S (S (S (S (S (S (S
           (S (S (S (S (S (S (S (S (S (S (S (S (S (S (S (S (S (S (S (S (S (S
           (S (S (S (S (S (S (S (S (S (S (S (S (S (S (S (S (S (S (S (S (S (S
           (S (S (S (S (S (S (S (S (S (S (S (S (S (S (S (S (S (S (S (S (S (S
           (S (S (S (S (S (S (S (S (S (S (S (S (S (S (S (S (S (S (S (S (S (S
           (S (S (S (S (S (S (S (S (S (S (S (S (S (S (S (S (S (S (S (S
           O))))))))))))))))))))))))))))))))))))))))))))))))))))))))))))))))))))))))))))))))))))))))))))))))))))))))))))))))))))))))))))))))
           (length pt)) (Nat.eqb (length sec) O))
       (negb
         (Nat.eqb (length ra) (S (S (S (S (S (S (S (S (S (S (S (S (S (S (S (S
           O))))))))))))))))))
  then Err e_invalid
  else Ok (rfc_up_encrypt h sec ra pt)

(** val spec_user_password :
    (bytes -> bytes) -> bytes -> bytes -> bytes -> bytes res **)

let spec_user_password h a sec ra =
  if (||)
       ((||)
         ((||)
           ((||)
             (Nat.ltb (length a) (S (S (S (S (S (S (S (S (S (S (S (S (S (S (S
               (S O)))))))))))))))))
             (Nat.ltb (S (S (S (S (S (S (S (S (S (S (S (S (S (S (S (S (S (S
               (S (S (S (S (S (S (S (S (S (S (S (S (S (S (S (S (S (S (S (S (S
               (S (S (S (S (S (S (S (S (S (S (S (S (S (S (S (S (S (S (S (S (S
               (S (S (S (S (S (S (S (S (S (S (S (S (S (S (S (S (S (S (S (S (S
               (S (S (S (S (S (S (S (S (S (S (S (S (S (S (S (S (S (S (S (S (S
               (S (S (S (S (S (S (S (S (S (S (S (S (S (S (S (S (S (S (S (S (S
               (S (S (S (S (S
               O))))))))))))))))))))))))))))))))))))))))))))))))))))))))))))))))))))))))))))))))))))))))))))))))))))))))))))))))))))))))))))))))
               (length a)))
           (negb
             (Nat.eqb
               (Nat.modulo (length a) (S (S (S (S (S (S (S (S (S (S (S (S (S
                 (S (S (S O))))))))))))))))) O))) (Nat.eqb (length sec) O))
       (negb
         (Nat.eqb (length ra) (S (S (S (S (S (S (S (S (S (S (S (S (S (S (S (S
           O))))))))))))))))))
  then Err e_invalid
  else Ok (rfc_up_decrypt h sec ra a)

(** val tp_blocks : nat -> nat **)

let tp_blocks len =
  Nat.div
    (add len (S (S (S (S (S (S (S (S (S (S (S (S (S (S (S (S
      O))))))))))))))))) (S (S (S (S (S (S (S (S (S (S (S (S (S (S (S (S
    O))))))))))))))))

(** val tp_plain : bytes -> bytes **)

let tp_plain pw =
  (N.of_nat (length pw)) :: pw

(** val rfc_tp_encrypt :
    (bytes -> bytes) -> bytes -> bytes -> bytes -> bytes -> bytes **)

let rfc_tp_encrypt h s rA salt pw =
  app salt
    (rfc_up_enc h (tp_blocks (length pw)) s (app rA salt) (tp_plain pw))

(** val salt_ok : bytes -> bool **)

let salt_ok = function
| [] -> false
| s0 :: l ->
  (match l with
   | [] -> false
   | _ :: l0 ->
     (match l0 with
      | [] ->
        N.leb (Npos (XO (XO (XO (XO (XO (XO (XO XH))))))))
          (N.modulo s0 (Npos (XO (XO (XO (XO (XO (XO (XO (XO XH))))))))))
      | _ :: _ -> false))

(** val tp_max_password : nat **)

let tp_max_password =
  S (S (S (S (S (S (S (S (S (S (S (S (S (S (S (S (S (S (S (S (S (S (S (S (S
    (S (S (S (S (S (S (S (S (S (S (S (S (S (S (S (S (S (S (S (S (S (S (S (S
    (S (S (S (S (S (S (S (S (S (S (S (S (S (S (S (S (S (S (S (S (S (S (S (S
    (S (S (S (S (S (S (S (S (S (S (S (S (S (S (S (S (S (S (S (S (S (S (S (S
    (S (S (S (S (S (S (S (S (S (S (S (S (S (S (S (S (S (S (S (S (S (S (S (S
    (S (S (S (S (S (S (S (S (S (S (S (S (S (S (S (S (S (S (S (S (S (S (S (S
    (S (S (S (S (S (S (S (S (S (S (S (S (S (S (S (S (S (S (S (S (S (S (S (S
    (S (S (S (S (S (S (S (S (S (S (S (S (S (S (S (S (S (S (S (S (S (S (S (S
    (S (S (S (S (S (S (S (S (S (S (S (S (S (S (S (S (S (S (S (S (S (S (S (S
    (S (S (S (S (S (S (S (S (S (S (S (S (S (S (S (S (S (S (S (S (S (S
    O))))))))))))))))))))))))))))))))))))))))))))))))))))))))))))))))))))))))))))))))))))))))))))))))))))))))))))))))))))))))))))))))))))))))))))))))))))))))))))))))))))))))))))))))))))))))))))))))))))))))))))))))))))))))))))))))))))))))))))))

(** val spec_new_tunnel_password :
    (bytes -> bytes) -> bytes -> bytes -> bytes -> bytes -> bytes res **)

let spec_new_tunnel_password h pw salt sec ra =
  if (||)
       ((||)
         ((||) (Nat.ltb tp_max_password (length pw)) (negb (salt_ok salt)))
         (Nat.eqb (length sec) O))
       (negb
         (Nat.eqb (length ra) (S (S (S (S (S (S (S (S (S (S (S (S (S (S (S (S
           O))))))))))))))))))
  then Err e_invalid
  else Ok (rfc_tp_encrypt h sec ra salt pw)

(** val spec_tunnel_password :
    (bytes -> bytes) -> bytes -> bytes -> bytes -> (bytes * bytes) res **)

let spec_tunnel_password h a sec ra =
  if (||)
       ((||)
         ((||)
           ((||)
             ((||)
               (Nat.ltb (S (S (S (S (S (S (S (S (S (S (S (S (S (S (S (S (S (S
                 (S (S (S (S (S (S (S (S (S (S (S (S (S (S (S (S (S (S (S (S
                 (S (S (S (S (S (S (S (S (S (S (S (S (S (S (S (S (S (S (S (S
                 (S (S (S (S (S (S (S (S (S (S (S (S (S (S (S (S (S (S (S (S
                 (S (S (S (S (S (S (S (S (S (S (S (S (S (S (S (S (S (S (S (S
                 (S (S (S (S (S (S (S (S (S (S (S (S (S (S (S (S (S (S (S (S
                 (S (S (S (S (S (S (S (S (S (S (S (S (S (S (S (S (S (S (S (S
                 (S (S (S (S (S (S (S (S (S (S (S (S (S (S (S (S (S (S (S (S
                 (S (S (S (S (S (S (S (S (S (S (S (S (S (S (S (S (S (S (S (S
                 (S (S (S (S (S (S (S (S (S (S (S (S (S (S (S (S (S (S (S (S
                 (S (S (S (S (S (S (S (S (S (S (S (S (S (S (S (S (S (S (S (S
                 (S (S (S (S (S (S (S (S (S (S (S (S (S (S (S (S (S (S (S (S
                 (S (S (S (S (S (S (S (S (S (S (S (S (S (S
                 O))))))))))))))))))))))))))))))))))))))))))))))))))))))))))))))))))))))))))))))))))))))))))))))))))))))))))))))))))))))))))))))))))))))))))))))))))))))))))))))))))))))))))))))))))))))))))))))))))))))))))))))))))))))))))))))))))))))))))))))))))))))))))))
                 (length a))
               (Nat.ltb (length a) (S (S (S (S (S (S (S (S (S (S (S (S (S (S
                 (S (S (S (S O))))))))))))))))))))
             (negb
               (Nat.eqb
                 (Nat.modulo (sub (length a) (S (S O))) (S (S (S (S (S (S (S
                   (S (S (S (S (S (S (S (S (S O))))))))))))))))) O)))
           (Nat.eqb (length sec) O))
         (negb
           (Nat.eqb (length ra) (S (S (S (S (S (S (S (S (S (S (S (S (S (S (S
             (S O))))))))))))))))))) (negb (salt_ok (firstn (S (S O)) a)))
  then Err e_invalid
  else let salt = firstn (S (S O)) a in
       let plain =
         rfc_up_dec h
           (Nat.div (sub (length a) (S (S O))) (S (S (S (S (S (S (S (S (S (S
             (S (S (S (S (S (S O))))))))))))))))) sec (app ra salt)
           (skipn (S (S O)) a)
       in
       (match plain with
        | [] -> Err e_invalid
        | pl :: rest ->
          if Nat.ltb (length rest) (N.to_nat pl)
          then Err e_invalid
          else Ok ((firstn (N.to_nat pl) rest), salt))

(** val md5_mask32 : n **)

let md5_mask32 =
  Npos (XI (XI (XI (XI (XI (XI (XI (XI (XI (XI (XI (XI (XI (XI (XI (XI (XI
    (XI (XI (XI (XI (XI (XI (XI (XI (XI (XI (XI (XI (XI (XI
    XH)))))))))))))))))))))))))))))))

(** val md5_add32 : n -> n -> n **)

let md5_add32 a b =
  N.coq_land (N.add a b) md5_mask32

(** val md5_not32 : n -> n **)

let md5_not32 a =
  N.coq_lxor (N.coq_land a md5_mask32) md5_mask32

(** val md5_rotl32 : n -> n -> n **)

let md5_rotl32 x s =
  N.coq_lor (N.coq_land (N.shiftl x s) md5_mask32)
    (N.shiftr x (N.sub (Npos (XO (XO (XO (XO (XO XH)))))) s))

(** val md5_byte0 : n -> n **)

let md5_byte0 w =
  N.coq_land w (Npos (XI (XI (XI (XI (XI (XI (XI XH))))))))

(** val md5_byte1 : n -> n **)

let md5_byte1 w =
  N.coq_land (N.shiftr w (Npos (XO (XO (XO XH))))) (Npos (XI (XI (XI (XI (XI
    (XI (XI XH))))))))

(** val md5_byte2 : n -> n **)

let md5_byte2 w =
  N.coq_land (N.shiftr w (Npos (XO (XO (XO (XO XH)))))) (Npos (XI (XI (XI (XI
    (XI (XI (XI XH))))))))

(** val md5_byte3 : n -> n **)

let md5_byte3 w =
  N.coq_land (N.shiftr w (Npos (XO (XO (XO (XI XH)))))) (Npos (XI (XI (XI (XI
    (XI (XI (XI XH))))))))

(** val md5_word_le : n -> n -> n -> n -> n **)

let md5_word_le a b c d =
  N.coq_lor (N.coq_land a (Npos (XI (XI (XI (XI (XI (XI (XI XH)))))))))
    (N.coq_lor
      (N.shiftl (N.coq_land b (Npos (XI (XI (XI (XI (XI (XI (XI XH)))))))))
        (Npos (XO (XO (XO XH)))))
      (N.coq_lor
        (N.shiftl (N.coq_land c (Npos (XI (XI (XI (XI (XI (XI (XI XH)))))))))
          (Npos (XO (XO (XO (XO XH))))))
        (N.shiftl (N.coq_land d (Npos (XI (XI (XI (XI (XI (XI (XI XH)))))))))
          (Npos (XO (XO (XO (XI XH))))))))

(** val md5_words_le : n list -> n list **)

let rec md5_words_le = function
| [] -> []
| a :: l0 ->
  (match l0 with
   | [] -> []
   | b :: l1 ->
     (match l1 with
      | [] -> []
      | c :: l2 ->
        (match l2 with
         | [] -> []
         | d :: tl0 -> (md5_word_le a b c d) :: (md5_words_le tl0))))

(** val md5_pad_zeros : n -> nat **)

let md5_pad_zeros n0 =
  N.to_nat
    (N.modulo
      (N.sub (Npos (XI (XI (XI (XO (XI (XI XH)))))))
        (N.modulo n0 (Npos (XO (XO (XO (XO (XO (XO XH))))))))) (Npos (XO (XO
      (XO (XO (XO (XO XH))))))))

(** val md5_len_bytes_le : n -> n list **)

let md5_len_bytes_le bits =
  (N.coq_land bits (Npos (XI (XI (XI (XI (XI (XI (XI XH))))))))) :: (
    (N.coq_land (N.shiftr bits (Npos (XO (XO (XO XH))))) (Npos (XI (XI (XI
      (XI (XI (XI (XI XH))))))))) :: ((N.coq_land
                                        (N.shiftr bits (Npos (XO (XO (XO (XO
                                          XH)))))) (Npos (XI (XI (XI (XI (XI
                                        (XI (XI XH))))))))) :: ((N.coq_land
                                                                  (N.shiftr
                                                                    bits
                                                                    (Npos (XO
                                                                    (XO (XO
                                                                    (XI
                                                                    XH))))))
                                                                  (Npos (XI
                                                                  (XI (XI (XI
                                                                  (XI (XI (XI
                                                                  XH))))))))) :: (
    (N.coq_land (N.shiftr bits (Npos (XO (XO (XO (XO (XO XH))))))) (Npos (XI
      (XI (XI (XI (XI (XI (XI XH))))))))) :: ((N.coq_land
                                                (N.shiftr bits (Npos (XO (XO
                                                  (XO (XI (XO XH))))))) (Npos
                                                (XI (XI (XI (XI (XI (XI (XI
                                                XH))))))))) :: ((N.coq_land
                                                                  (N.shiftr
                                                                    bits
                                                                    (Npos (XO
                                                                    (XO (XO
                                                                    (XO (XI
                                                                    XH)))))))
                                                                  (Npos (XI
                                                                  (XI (XI (XI
                                                                  (XI (XI (XI
                                                                  XH))))))))) :: (
    (N.coq_land (N.shiftr bits (Npos (XO (XO (XO (XI (XI XH))))))) (Npos (XI
      (XI (XI (XI (XI (XI (XI XH))))))))) :: [])))))))

(** val md5_pad : n list -> n list **)

let md5_pad msg =
  let n0 = N.of_nat (length msg) in
  app msg ((Npos (XO (XO (XO (XO (XO (XO (XO
    XH)))))))) :: (app (repeat N0 (md5_pad_zeros n0))
                    (md5_len_bytes_le (N.mul (Npos (XO (XO (XO XH)))) n0))))

type md5_state = ((n * n) * n) * n

(** val md5_init_state : md5_state **)

let md5_init_state =
  ((((Npos (XI (XO (XO (XO (XO (XO (XO (XO (XI (XI (XO (XO (XO (XI (XO (XO
    (XI (XO (XI (XO (XO (XO (XI (XO (XI (XI (XI (XO (XO (XI
    XH))))))))))))))))))))))))))))))), (Npos (XI (XO (XO (XI (XO (XO (XO (XI
    (XI (XI (XO (XI (XO (XI (XO (XI (XI (XO (XI (XI (XO (XO (XI (XI (XI (XI
    (XI (XI (XO (XI (XI XH))))))))))))))))))))))))))))))))), (Npos (XO (XI
    (XI (XI (XI (XI (XI (XI (XO (XO (XI (XI (XI (XO (XI (XI (XO (XI (XO (XI
    (XI (XI (XO (XI (XO (XO (XO (XI (XI (XO (XO
    XH))))))))))))))))))))))))))))))))), (Npos (XO (XI (XI (XO (XI (XI (XI
    (XO (XO (XO (XI (XO (XI (XO (XI (XO (XO (XI (XO (XO (XI (XI (XO (XO (XO
    (XO (XO (XO XH))))))))))))))))))))))))))))))

(** val md5_fF : n -> n -> n -> n **)

let md5_fF b c d =
  N.coq_lor (N.coq_land b c) (N.coq_land (md5_not32 b) d)

(** val md5_fG : n -> n -> n -> n **)

let md5_fG b c d =
  N.coq_lor (N.coq_land d b) (N.coq_land (md5_not32 d) c)

(** val md5_fH : n -> n -> n -> n **)

let md5_fH b c d =
  N.coq_lxor b (N.coq_lxor c d)

(** val md5_fI : n -> n -> n -> n **)

let md5_fI b c d =
  N.coq_lxor c (N.coq_lor b (md5_not32 d))

(** val md5_step :
    (n -> n -> n -> n) -> n list -> md5_state -> ((n * n) * nat) -> md5_state **)

let md5_step f m st p =
  let (p0, d) = st in
  let (p1, c) = p0 in
  let (a, b) = p1 in
  let (p2, g) = p in
  let (k, s) = p2 in
  let x = md5_add32 (md5_add32 (md5_add32 a (f b c d)) k) (nth g m N0) in
  (((d, (md5_add32 b (md5_rotl32 x s))), b), c)

(** val md5_steps1 : ((n * n) * nat) list **)

let md5_steps1 =
  (((Npos (XO (XO (XO (XI (XI (XI (XI (XO (XO (XO (XI (XO (XO (XI (XO (XI (XO
    (XI (XO (XI (XO (XI (XI (XO (XI (XI (XI (XO (XI (XO (XI
    XH)))))))))))))))))))))))))))))))), (Npos (XI (XI XH)))), O) :: ((((Npos
    (XO (XI (XI (XO (XI (XO (XI (XO (XI (XI (XI (XO (XI (XI (XO (XI (XI (XI
    (XI (XO (XO (XO (XI (XI (XO (XO (XO (XI (XO (XI (XI
    XH)))))))))))))))))))))))))))))))), (Npos (XO (XO (XI XH))))), (S
    O)) :: ((((Npos (XI (XI (XO (XI (XI (XO (XI (XI (XO (XO (XO (XO (XI (XI
    (XI (XO (XO (XO (XO (XO (XO (XI (XO (XO (XO (XO (XI (XO (XO
    XH)))))))))))))))))))))))))))))), (Npos (XI (XO (XO (XO XH)))))), (S (S
    O))) :: ((((Npos (XO (XI (XI (XI (XO (XI (XI (XI (XO (XI (XI (XI (XO (XO
    (XI (XI (XI (XO (XI (XI (XI (XI (XO (XI (XI (XO (XO (XO (XO (XO (XI
    XH)))))))))))))))))))))))))))))))), (Npos (XO (XI (XI (XO XH)))))), (S (S
    (S O)))) :: ((((Npos (XI (XI (XI (XI (XO (XI (XO (XI (XI (XI (XI (XI (XO
    (XO (XO (XO (XO (XO (XI (XI (XI (XI (XI (XO (XI (XO (XI (XO (XI (XI (XI
    XH)))))))))))))))))))))))))))))))), (Npos (XI (XI XH)))), (S (S (S (S
    O))))) :: ((((Npos (XO (XI (XO (XI (XO (XI (XO (XO (XO (XI (XI (XO (XO
    (XO (XI (XI (XI (XI (XI (XO (XO (XO (XO (XI (XI (XI (XI (XO (XO (XO
    XH))))))))))))))))))))))))))))))), (Npos (XO (XO (XI XH))))), (S (S (S (S
    (S O)))))) :: ((((Npos (XI (XI (XO (XO (XI (XO (XO (XO (XO (XI (XI (XO
    (XO (XO (XI (XO (XO (XO (XO (XO (XI (XI (XO (XO (XO (XO (XO (XI (XO (XI
    (XO XH)))))))))))))))))))))))))))))))), (Npos (XI (XO (XO (XO XH)))))),
    (S (S (S (S (S (S O))))))) :: ((((Npos (XI (XO (XO (XO (XO (XO (XO (XO
    (XI (XO (XI (XO (XI (XO (XO (XI (XO (XI (XI (XO (XO (XO (XI (XO (XI (XO
    (XI (XI (XI (XI (XI XH)))))))))))))))))))))))))))))))), (Npos (XO (XI (XI
    (XO XH)))))), (S (S (S (S (S (S (S O)))))))) :: ((((Npos (XO (XO (XO (XI
    (XI (XO (XI (XI (XO (XO (XO (XI (XI (XO (XO (XI (XO (XO (XO (XO (XO (XO
    (XO (XI (XI (XO (XO (XI (XO (XI XH))))))))))))))))))))))))))))))), (Npos
    (XI (XI XH)))), (S (S (S (S (S (S (S (S O))))))))) :: ((((Npos (XI (XI
    (XI (XI (XO (XI (XO (XI (XI (XI (XI (XO (XI (XI (XI (XI (XO (XO (XI (XO
    (XO (XO (XI (XO (XI (XI (XO (XI (XO (XO (XO
    XH)))))))))))))))))))))))))))))))), (Npos (XO (XO (XI XH))))), (S (S (S
    (S (S (S (S (S (S O)))))))))) :: ((((Npos (XI (XO (XO (XO (XI (XI (XO (XI
    (XI (XI (XO (XI (XI (XO (XI (XO (XI (XI (XI (XI (XI (XI (XI (XI (XI (XI
    (XI (XI (XI (XI (XI XH)))))))))))))))))))))))))))))))), (Npos (XI (XO (XO
    (XO XH)))))), (S (S (S (S (S (S (S (S (S (S O))))))))))) :: ((((Npos (XO
    (XI (XI (XI (XI (XI (XO (XI (XI (XI (XI (XO (XI (XO (XI (XI (XO (XO (XI
    (XI (XI (XO (XI (XO (XI (XO (XO (XI (XO (XO (XO
    XH)))))))))))))))))))))))))))))))), (Npos (XO (XI (XI (XO XH)))))), (S (S
    (S (S (S (S (S (S (S (S (S O)))))))))))) :: ((((Npos (XO (XI (XO (XO (XO
    (XI (XO (XO (XI (XO (XO (XO (XI (XO (XO (XO (XO (XO (XO (XO (XI (XO (XO
    (XI (XI (XI (XO (XI (XO (XI XH))))))))))))))))))))))))))))))), (Npos (XI
    (XI XH)))), (S (S (S (S (S (S (S (S (S (S (S (S
    O))))))))))))) :: ((((Npos (XI (XI (XO (XO (XI (XO (XO (XI (XI (XO (XO
    (XO (XI (XI (XI (XO (XO (XO (XO (XI (XI (XO (XO (XI (XI (XO (XI (XI (XI
    (XI (XI XH)))))))))))))))))))))))))))))))), (Npos (XO (XO (XI XH))))), (S
    (S (S (S (S (S (S (S (S (S (S (S (S O)))))))))))))) :: ((((Npos (XO (XI
    (XI (XI (XO (XO (XO (XI (XI (XI (XO (XO (XO (XO (XI (XO (XI (XO (XO (XI
    (XI (XI (XI (XO (XO (XI (XI (XO (XO (XI (XO
    XH)))))))))))))))))))))))))))))))), (Npos (XI (XO (XO (XO XH)))))), (S (S
    (S (S (S (S (S (S (S (S (S (S (S (S O))))))))))))))) :: ((((Npos (XI (XO
    (XO (XO (XO (XI (XO (XO (XO (XO (XO (XI (XO (XO (XO (XO (XO (XO (XI (XO
    (XI (XI (XO (XI (XI (XO (XO (XI (XO (XO
    XH))))))))))))))))))))))))))))))), (Npos (XO (XI (XI (XO XH)))))), (S (S
    (S (S (S (S (S (S (S (S (S (S (S (S (S
    O)))))))))))))))) :: [])))))))))))))))

(** val md5_steps2 : ((n * n) * nat) list **)

let md5_steps2 =
  (((Npos (XO (XI (XO (XO (XO (XI (XI (XO (XI (XO (XI (XO (XO (XI (XO (XO (XO
    (XI (XI (XI (XI (XO (XO (XO (XO (XI (XI (XO (XI (XI (XI
    XH)))))))))))))))))))))))))))))))), (Npos (XI (XO XH)))), (S
    O)) :: ((((Npos (XO (XO (XO (XO (XO (XO (XI (XO (XI (XI (XO (XO (XI (XI
    (XO (XI (XO (XO (XO (XO (XO (XO (XI (XO (XO (XO (XO (XO (XO (XO (XI
    XH)))))))))))))))))))))))))))))))), (Npos (XI (XO (XO XH))))), (S (S (S
    (S (S (S O))))))) :: ((((Npos (XI (XO (XO (XO (XI (XO (XI (XO (XO (XI (XO
    (XI (XI (XO (XI (XO (XO (XI (XI (XI (XI (XO (XI (XO (XO (XI (XI (XO (XO
    XH)))))))))))))))))))))))))))))), (Npos (XO (XI (XI XH))))), (S (S (S (S
    (S (S (S (S (S (S (S O)))))))))))) :: ((((Npos (XO (XI (XO (XI (XO (XI
    (XO (XI (XI (XI (XI (XO (XO (XO (XI (XI (XO (XI (XI (XO (XI (XI (XO (XI
    (XI (XO (XO (XI (XO (XI (XI XH)))))))))))))))))))))))))))))))), (Npos (XO
    (XO (XI (XO XH)))))), O) :: ((((Npos (XI (XO (XI (XI (XI (XO (XI (XO (XO
    (XO (XO (XO (XI (XO (XO (XO (XI (XI (XI (XI (XO (XI (XO (XO (XO (XI (XI
    (XO (XI (XO (XI XH)))))))))))))))))))))))))))))))), (Npos (XI (XO XH)))),
    (S (S (S (S (S O)))))) :: ((((Npos (XI (XI (XO (XO (XI (XO (XI (XO (XO
    (XO (XI (XO (XI (XO (XO (XO (XO (XO (XI (XO (XO (XO (XI (XO (XO
    XH)))))))))))))))))))))))))), (Npos (XI (XO (XO XH))))), (S (S (S (S (S
    (S (S (S (S (S O))))))))))) :: ((((Npos (XI (XO (XO (XO (XO (XO (XO (XI
    (XO (XI (XI (XO (XO (XI (XI (XI (XI (XO (XO (XO (XO (XI (XO (XI (XO (XO
    (XO (XI (XI (XO (XI XH)))))))))))))))))))))))))))))))), (Npos (XO (XI (XI
    XH))))), (S (S (S (S (S (S (S (S (S (S (S (S (S (S (S
    O)))))))))))))))) :: ((((Npos (XO (XO (XO (XI (XO (XO (XI (XI (XI (XI (XO
    (XI (XI (XI (XI (XI (XI (XI (XO (XO (XI (XO (XI (XI (XI (XI (XI (XO (XO
    (XI (XI XH)))))))))))))))))))))))))))))))), (Npos (XO (XO (XI (XO
    XH)))))), (S (S (S (S O))))) :: ((((Npos (XO (XI (XI (XO (XO (XI (XI (XI
    (XI (XO (XI (XI (XO (XO (XI (XI (XI (XO (XO (XO (XO (XI (XI (XI (XI (XO
    (XO (XO (XO XH)))))))))))))))))))))))))))))), (Npos (XI (XO XH)))), (S (S
    (S (S (S (S (S (S (S O)))))))))) :: ((((Npos (XO (XI (XI (XO (XI (XO (XI
    (XI (XI (XI (XI (XO (XO (XO (XO (XO (XI (XI (XI (XO (XI (XI (XO (XO (XI
    (XI (XO (XO (XO (XO (XI XH)))))))))))))))))))))))))))))))), (Npos (XI (XO
    (XO XH))))), (S (S (S (S (S (S (S (S (S (S (S (S (S (S
    O))))))))))))))) :: ((((Npos (XI (XI (XI (XO (XO (XO (XO (XI (XI (XO (XI
    (XI (XO (XO (XO (XO (XI (XO (XI (XO (XI (XO (XI (XI (XO (XO (XI (XO (XI
    (XI (XI XH)))))))))))))))))))))))))))))))), (Npos (XO (XI (XI XH))))), (S
    (S (S O)))) :: ((((Npos (XI (XO (XI (XI (XO (XI (XI (XI (XO (XO (XI (XO
    (XI (XO (XO (XO (XO (XI (XO (XI (XI (XO (XI (XO (XI (XO (XI (XO (XO (XO
    XH))))))))))))))))))))))))))))))), (Npos (XO (XO (XI (XO XH)))))), (S (S
    (S (S (S (S (S (S O))))))))) :: ((((Npos (XI (XO (XI (XO (XO (XO (XO (XO
    (XI (XO (XO (XI (XO (XI (XI (XI (XI (XI (XO (XO (XO (XI (XI (XI (XI (XO
    (XO (XI (XO (XI (XO XH)))))))))))))))))))))))))))))))), (Npos (XI (XO
    XH)))), (S (S (S (S (S (S (S (S (S (S (S (S (S
    O)))))))))))))) :: ((((Npos (XO (XO (XO (XI (XI (XI (XI (XI (XI (XI (XO
    (XO (XO (XI (XO (XI (XI (XI (XI (XI (XO (XI (XI (XI (XO (XO (XI (XI (XI
    (XI (XI XH)))))))))))))))))))))))))))))))), (Npos (XI (XO (XO XH))))), (S
    (S O))) :: ((((Npos (XI (XO (XO (XI (XI (XO (XI (XI (XO (XI (XO (XO (XO
    (XO (XO (XO (XI (XI (XI (XI (XO (XI (XI (XO (XI (XI (XI (XO (XO (XI
    XH))))))))))))))))))))))))))))))), (Npos (XO (XI (XI XH))))), (S (S (S (S
    (S (S (S O)))))))) :: ((((Npos (XO (XI (XO (XI (XO (XO (XO (XI (XO (XO
    (XI (XI (XO (XO (XI (XO (XO (XI (XO (XI (XO (XI (XO (XO (XI (XO (XI (XI
    (XO (XO (XO XH)))))))))))))))))))))))))))))))), (Npos (XO (XO (XI (XO
    XH)))))), (S (S (S (S (S (S (S (S (S (S (S (S
    O))))))))))))) :: [])))))))))))))))

(** val md5_steps3 : ((n * n) * nat) list **)

let md5_steps3 =
  (((Npos (XO (XI (XO (XO (XO (XO (XI (XO (XI (XO (XO (XI (XI (XI (XO (XO (XO
    (XI (XO (XI (XI (XI (XI (XI (XI (XI (XI (XI (XI (XI (XI
    XH)))))))))))))))))))))))))))))))), (Npos (XO (XO XH)))), (S (S (S (S (S
    O)))))) :: ((((Npos (XI (XO (XO (XO (XO (XO (XO (XI (XO (XI (XI (XO (XI
    (XI (XI (XI (XI (XO (XO (XO (XI (XI (XI (XO (XI (XI (XI (XO (XO (XO (XO
    XH)))))))))))))))))))))))))))))))), (Npos (XI (XI (XO XH))))), (S (S (S
    (S (S (S (S (S O))))))))) :: ((((Npos (XO (XI (XO (XO (XO (XI (XO (XO (XI
    (XO (XO (XO (XO (XI (XI (XO (XI (XO (XI (XI (XI (XO (XO (XI (XI (XO (XI
    (XI (XO (XI XH))))))))))))))))))))))))))))))), (Npos (XO (XO (XO (XO
    XH)))))), (S (S (S (S (S (S (S (S (S (S (S O)))))))))))) :: ((((Npos (XO
    (XO (XI (XI (XO (XO (XO (XO (XO (XO (XO (XI (XI (XI (XO (XO (XI (XO (XI
    (XO (XO (XI (XI (XI (XI (XO (XI (XI (XI (XI (XI
    XH)))))))))))))))))))))))))))))))), (Npos (XI (XI (XI (XO XH)))))), (S (S
    (S (S (S (S (S (S (S (S (S (S (S (S O))))))))))))))) :: ((((Npos (XO (XO
    (XI (XO (XO (XO (XI (XO (XO (XI (XO (XI (XO (XI (XI (XI (XO (XI (XI (XI
    (XI (XI (XO (XI (XO (XO (XI (XO (XO (XI (XO
    XH)))))))))))))))))))))))))))))))), (Npos (XO (XO XH)))), (S
    O)) :: ((((Npos (XI (XO (XO (XI (XO (XI (XO (XI (XI (XI (XI (XI (XO (XO
    (XI (XI (XO (XI (XI (XI (XI (XO (XI (XI (XI (XI (XO (XI (XO (XO
    XH))))))))))))))))))))))))))))))), (Npos (XI (XI (XO XH))))), (S (S (S (S
    O))))) :: ((((Npos (XO (XO (XO (XO (XO (XI (XI (XO (XI (XI (XO (XI (XO
    (XO (XI (XO (XI (XI (XO (XI (XI (XI (XO (XI (XO (XI (XI (XO (XI (XI (XI
    XH)))))))))))))))))))))))))))))))), (Npos (XO (XO (XO (XO XH)))))), (S (S
    (S (S (S (S (S O)))))))) :: ((((Npos (XO (XO (XO (XO (XI (XI (XI (XO (XO
    (XO (XI (XI (XI (XI (XO (XI (XI (XI (XI (XI (XI (XI (XO (XI (XO (XI (XI
    (XI (XI (XI (XO XH)))))))))))))))))))))))))))))))), (Npos (XI (XI (XI (XO
    XH)))))), (S (S (S (S (S (S (S (S (S (S O))))))))))) :: ((((Npos (XO (XI
    (XI (XO (XO (XO (XI (XI (XO (XI (XI (XI (XI (XI (XI (XO (XI (XI (XO (XI
    (XI (XO (XO (XI (XO (XO (XO (XI (XO XH)))))))))))))))))))))))))))))),
    (Npos (XO (XO XH)))), (S (S (S (S (S (S (S (S (S (S (S (S (S
    O)))))))))))))) :: ((((Npos (XO (XI (XO (XI (XI (XI (XI (XI (XI (XI (XI
    (XO (XO (XI (XO (XO (XI (XO (XO (XO (XO (XI (XO (XI (XO (XI (XO (XI (XO
    (XI (XI XH)))))))))))))))))))))))))))))))), (Npos (XI (XI (XO XH))))),
    O) :: ((((Npos (XI (XO (XI (XO (XO (XO (XO (XI (XO (XO (XO (XO (XI (XI
    (XO (XO (XI (XI (XI (XI (XO (XI (XI (XI (XO (XO (XI (XO (XI (XO (XI
    XH)))))))))))))))))))))))))))))))), (Npos (XO (XO (XO (XO XH)))))), (S (S
    (S O)))) :: ((((Npos (XI (XO (XI (XO (XO (XO (XO (XO (XI (XO (XI (XI (XI
    (XO (XO (XO (XO (XO (XO (XI (XO (XO (XO (XI (XO (XO
    XH))))))))))))))))))))))))))), (Npos (XI (XI (XI (XO XH)))))), (S (S (S
    (S (S (S O))))))) :: ((((Npos (XI (XO (XO (XI (XI (XI (XO (XO (XO (XO (XO
    (XO (XI (XO (XI (XI (XO (XO (XI (XO (XI (XO (XI (XI (XI (XO (XO (XI (XI
    (XO (XI XH)))))))))))))))))))))))))))))))), (Npos (XO (XO XH)))), (S (S
    (S (S (S (S (S (S (S O)))))))))) :: ((((Npos (XI (XO (XI (XO (XO (XI (XI
    (XI (XI (XO (XO (XI (XI (XO (XO (XI (XI (XI (XO (XI (XI (XO (XI (XI (XO
    (XI (XI (XO (XO (XI (XI XH)))))))))))))))))))))))))))))))), (Npos (XI (XI
    (XO XH))))), (S (S (S (S (S (S (S (S (S (S (S (S
    O))))))))))))) :: ((((Npos (XO (XO (XO (XI (XI (XI (XI (XI (XO (XO (XI
    (XI (XI (XI (XI (XO (XO (XI (XO (XO (XO (XI (XO (XI (XI (XI (XI (XI
    XH))))))))))))))))))))))))))))), (Npos (XO (XO (XO (XO XH)))))), (S (S (S
    (S (S (S (S (S (S (S (S (S (S (S (S O)))))))))))))))) :: ((((Npos (XI (XO
    (XI (XO (XO (XI (XI (XO (XO (XI (XI (XO (XI (XO (XI (XO (XO (XO (XI (XI
    (XO (XI (XO (XI (XO (XO (XI (XO (XO (XO (XI
    XH)))))))))))))))))))))))))))))))), (Npos (XI (XI (XI (XO XH)))))), (S (S
    O))) :: [])))))))))))))))

(** val md5_steps4 : ((n * n) * nat) list **)

let md5_steps4 =
  (((Npos (XO (XO (XI (XO (XO (XO (XI (XO (XO (XI (XO (XO (XO (XI (XO (XO (XI
    (XO (XO (XI (XO (XI (XO (XO (XO (XO (XI (XO (XI (XI (XI
    XH)))))))))))))))))))))))))))))))), (Npos (XO (XI XH)))), O) :: ((((Npos
    (XI (XI (XI (XO (XI (XO (XO (XI (XI (XI (XI (XI (XI (XI (XI (XI (XO (XI
    (XO (XI (XO (XI (XO (XO (XI (XI (XO (XO (XO (XO
    XH))))))))))))))))))))))))))))))), (Npos (XO (XI (XO XH))))), (S (S (S (S
    (S (S (S O)))))))) :: ((((Npos (XI (XI (XI (XO (XO (XI (XO (XI (XI (XI
    (XO (XO (XO (XI (XO (XO (XO (XO (XI (XO (XI (XO (XO (XI (XI (XI (XO (XI
    (XO (XI (XO XH)))))))))))))))))))))))))))))))), (Npos (XI (XI (XI
    XH))))), (S (S (S (S (S (S (S (S (S (S (S (S (S (S
    O))))))))))))))) :: ((((Npos (XI (XO (XO (XI (XI (XI (XO (XO (XO (XO (XO
    (XO (XO (XI (XO (XI (XI (XI (XO (XO (XI (XO (XO (XI (XO (XO (XI (XI (XI
    (XI (XI XH)))))))))))))))))))))))))))))))), (Npos (XI (XO (XI (XO
    XH)))))), (S (S (S (S (S O)))))) :: ((((Npos (XI (XI (XO (XO (XO (XO (XI
    (XI (XI (XO (XO (XI (XI (XO (XI (XO (XI (XI (XO (XI (XI (XO (XI (XO (XI
    (XO (XI (XO (XO (XI XH))))))))))))))))))))))))))))))), (Npos (XO (XI
    XH)))), (S (S (S (S (S (S (S (S (S (S (S (S O))))))))))))) :: ((((Npos
    (XO (XI (XO (XO (XI (XO (XO (XI (XO (XO (XI (XI (XO (XO (XI (XI (XO (XO
    (XI (XI (XO (XO (XO (XO (XI (XI (XI (XI (XO (XO (XO
    XH)))))))))))))))))))))))))))))))), (Npos (XO (XI (XO XH))))), (S (S (S
    O)))) :: ((((Npos (XI (XO (XI (XI (XI (XI (XI (XO (XO (XO (XI (XO (XI (XI
    (XI (XI (XI (XI (XI (XI (XO (XI (XI (XI (XI (XI (XI (XI (XI (XI (XI
    XH)))))))))))))))))))))))))))))))), (Npos (XI (XI (XI XH))))), (S (S (S
    (S (S (S (S (S (S (S O))))))))))) :: ((((Npos (XI (XO (XO (XO (XI (XO (XI
    (XI (XI (XO (XI (XI (XI (XO (XI (XO (XO (XO (XI (XO (XO (XO (XO (XI (XI
    (XO (XI (XO (XO (XO (XO XH)))))))))))))))))))))))))))))))), (Npos (XI (XO
    (XI (XO XH)))))), (S O)) :: ((((Npos (XI (XI (XI (XI (XO (XO (XI (XO (XO
    (XI (XI (XI (XI (XI (XI (XO (XO (XO (XO (XI (XO (XI (XO (XI (XI (XI (XI
    (XI (XO (XI XH))))))))))))))))))))))))))))))), (Npos (XO (XI XH)))), (S
    (S (S (S (S (S (S (S O))))))))) :: ((((Npos (XO (XO (XO (XO (XO (XI (XI
    (XI (XO (XI (XI (XO (XO (XI (XI (XI (XO (XO (XI (XI (XO (XI (XO (XO (XO
    (XI (XI (XI (XI (XI (XI XH)))))))))))))))))))))))))))))))), (Npos (XO (XI
    (XO XH))))), (S (S (S (S (S (S (S (S (S (S (S (S (S (S (S
    O)))))))))))))))) :: ((((Npos (XO (XO (XI (XO (XI (XO (XO (XO (XI (XI (XO
    (XO (XO (XO (XI (XO (XI (XO (XO (XO (XO (XO (XO (XO (XI (XI (XO (XO (XO
    (XI (XO XH)))))))))))))))))))))))))))))))), (Npos (XI (XI (XI XH))))), (S
    (S (S (S (S (S O))))))) :: ((((Npos (XI (XO (XO (XO (XO (XI (XO (XI (XI
    (XO (XO (XO (XI (XO (XO (XO (XO (XO (XO (XI (XO (XO (XO (XO (XO (XI (XI
    (XI (XO (XO XH))))))))))))))))))))))))))))))), (Npos (XI (XO (XI (XO
    XH)))))), (S (S (S (S (S (S (S (S (S (S (S (S (S
    O)))))))))))))) :: ((((Npos (XO (XI (XO (XO (XO (XO (XO (XI (XO (XI (XI
    (XI (XI (XI (XI (XO (XI (XI (XO (XO (XI (XO (XI (XO (XI (XI (XI (XO (XI
    (XI (XI XH)))))))))))))))))))))))))))))))), (Npos (XO (XI XH)))), (S (S
    (S (S O))))) :: ((((Npos (XI (XO (XI (XO (XI (XI (XO (XO (XO (XI (XO (XO
    (XI (XI (XI (XI (XO (XI (XO (XI (XI (XI (XO (XO (XI (XO (XI (XI (XI (XI
    (XO XH)))))))))))))))))))))))))))))))), (Npos (XO (XI (XO XH))))), (S (S
    (S (S (S (S (S (S (S (S (S O)))))))))))) :: ((((Npos (XI (XI (XO (XI (XI
    (XI (XO (XI (XO (XI (XO (XO (XI (XO (XI (XI (XI (XI (XI (XO (XI (XO (XI
    (XI (XO (XI (XO (XI (XO XH)))))))))))))))))))))))))))))), (Npos (XI (XI
    (XI XH))))), (S (S O))) :: ((((Npos (XI (XO (XO (XO (XI (XO (XO (XI (XI
    (XI (XO (XO (XI (XO (XI (XI (XO (XI (XI (XO (XO (XO (XO (XI (XI (XI (XO
    (XI (XO (XI (XI XH)))))))))))))))))))))))))))))))), (Npos (XI (XO (XI (XO
    XH)))))), (S (S (S (S (S (S (S (S (S O)))))))))) :: [])))))))))))))))

(** val md5_compress : md5_state -> n list -> md5_state **)

let md5_compress st m =
  let st1 = fold_left (md5_step md5_fF m) md5_steps1 st in
  let st2 = fold_left (md5_step md5_fG m) md5_steps2 st1 in
  let st3 = fold_left (md5_step md5_fH m) md5_steps3 st2 in
  let st4 = fold_left (md5_step md5_fI m) md5_steps4 st3 in
  let (p, d0) = st in
  let (p0, c0) = p in
  let (a0, b0) = p0 in
  let (p1, d) = st4 in
  let (p2, c) = p1 in
  let (a, b) = p2 in
  ((((md5_add32 a0 a), (md5_add32 b0 b)), (md5_add32 c0 c)), (md5_add32 d0 d))

(** val md5_process : nat -> md5_state -> n list -> md5_state **)

let rec md5_process fuel st ws =
  match fuel with
  | O -> st
  | S fuel' ->
    (match ws with
     | [] -> st
     | _ :: _ ->
       md5_process fuel'
         (md5_compress st
           (firstn (S (S (S (S (S (S (S (S (S (S (S (S (S (S (S (S
             O)))))))))))))))) ws))
         (skipn (S (S (S (S (S (S (S (S (S (S (S (S (S (S (S (S
           O)))))))))))))))) ws))

(** val md5_serialize : md5_state -> n list **)

let md5_serialize = function
| (p, d) ->
  let (p0, c) = p in
  let (a, b) = p0 in
  (md5_byte0 a) :: ((md5_byte1 a) :: ((md5_byte2 a) :: ((md5_byte3 a) :: (
  (md5_byte0 b) :: ((md5_byte1 b) :: ((md5_byte2 b) :: ((md5_byte3 b) :: (
  (md5_byte0 c) :: ((md5_byte1 c) :: ((md5_byte2 c) :: ((md5_byte3 c) :: (
  (md5_byte0 d) :: ((md5_byte1 d) :: ((md5_byte2 d) :: ((md5_byte3 d) :: [])))))))))))))))

(** val md5 : n list -> n list **)

let md5 msg =
  let ws = md5_words_le (md5_pad msg) in
  md5_serialize (md5_process (length ws) md5_init_state ws)

(** val sha1_mask32 : n **)

let sha1_mask32 =
  Npos (XI (XI (XI (XI (XI (XI (XI (XI (XI (XI (XI (XI (XI (XI (XI (XI (XI
    (XI (XI (XI (XI (XI (XI (XI (XI (XI (XI (XI (XI (XI (XI
    XH)))))))))))))))))))))))))))))))

(** val sha1_add32 : n -> n -> n **)

let sha1_add32 a b =
  N.coq_land (N.add a b) sha1_mask32

(** val sha1_not32 : n -> n **)

let sha1_not32 a =
  N.coq_lxor (N.coq_land a sha1_mask32) sha1_mask32

(** val sha1_rotl32 : n -> n -> n **)

let sha1_rotl32 x s =
  N.coq_lor (N.coq_land (N.shiftl x s) sha1_mask32)
    (N.shiftr x (N.sub (Npos (XO (XO (XO (XO (XO XH)))))) s))

(** val sha1_byte0 : n -> n **)

let sha1_byte0 w =
  N.coq_land (N.shiftr w (Npos (XO (XO (XO (XI XH)))))) (Npos (XI (XI (XI (XI
    (XI (XI (XI XH))))))))

(** val sha1_byte1 : n -> n **)

let sha1_byte1 w =
  N.coq_land (N.shiftr w (Npos (XO (XO (XO (XO XH)))))) (Npos (XI (XI (XI (XI
    (XI (XI (XI XH))))))))

(** val sha1_byte2 : n -> n **)

let sha1_byte2 w =
  N.coq_land (N.shiftr w (Npos (XO (XO (XO XH))))) (Npos (XI (XI (XI (XI (XI
    (XI (XI XH))))))))

(** val sha1_byte3 : n -> n **)

let sha1_byte3 w =
  N.coq_land w (Npos (XI (XI (XI (XI (XI (XI (XI XH))))))))

(** val sha1_word_be : n -> n -> n -> n -> n **)

let sha1_word_be a b c d =
  N.coq_lor
    (N.shiftl (N.coq_land a (Npos (XI (XI (XI (XI (XI (XI (XI XH)))))))))
      (Npos (XO (XO (XO (XI XH))))))
    (N.coq_lor
      (N.shiftl (N.coq_land b (Npos (XI (XI (XI (XI (XI (XI (XI XH)))))))))
        (Npos (XO (XO (XO (XO XH))))))
      (N.coq_lor
        (N.shiftl (N.coq_land c (Npos (XI (XI (XI (XI (XI (XI (XI XH)))))))))
          (Npos (XO (XO (XO XH)))))
        (N.coq_land d (Npos (XI (XI (XI (XI (XI (XI (XI XH)))))))))))

(** val sha1_words_be : n list -> n list **)

let rec sha1_words_be = function
| [] -> []
| a :: l0 ->
  (match l0 with
   | [] -> []
   | b :: l1 ->
     (match l1 with
      | [] -> []
      | c :: l2 ->
        (match l2 with
         | [] -> []
         | d :: tl0 -> (sha1_word_be a b c d) :: (sha1_words_be tl0))))

(** val sha1_pad_zeros : n -> nat **)

let sha1_pad_zeros n0 =
  N.to_nat
    (N.modulo
      (N.sub (Npos (XI (XI (XI (XO (XI (XI XH)))))))
        (N.modulo n0 (Npos (XO (XO (XO (XO (XO (XO XH))))))))) (Npos (XO (XO
      (XO (XO (XO (XO XH))))))))

(** val sha1_len_bytes_be : n -> n list **)

let sha1_len_bytes_be bits =
  (N.coq_land (N.shiftr bits (Npos (XO (XO (XO (XI (XI XH))))))) (Npos (XI
    (XI (XI (XI (XI (XI (XI XH))))))))) :: ((N.coq_land
                                              (N.shiftr bits (Npos (XO (XO
                                                (XO (XO (XI XH))))))) (Npos
                                              (XI (XI (XI (XI (XI (XI (XI
                                              XH))))))))) :: ((N.coq_land
                                                                (N.shiftr
                                                                  bits (Npos
                                                                  (XO (XO (XO
                                                                  (XI (XO
                                                                  XH)))))))
                                                                (Npos (XI (XI
                                                                (XI (XI (XI
                                                                (XI (XI
                                                                XH))))))))) :: (
    (N.coq_land (N.shiftr bits (Npos (XO (XO (XO (XO (XO XH))))))) (Npos (XI
      (XI (XI (XI (XI (XI (XI XH))))))))) :: ((N.coq_land
                                                (N.shiftr bits (Npos (XO (XO
                                                  (XO (XI XH)))))) (Npos (XI
                                                (XI (XI (XI (XI (XI (XI
                                                XH))))))))) :: ((N.coq_land
                                                                  (N.shiftr
                                                                    bits
                                                                    (Npos (XO
                                                                    (XO (XO
                                                                    (XO
                                                                    XH))))))
                                                                  (Npos (XI
                                                                  (XI (XI (XI
                                                                  (XI (XI (XI
                                                                  XH))))))))) :: (
    (N.coq_land (N.shiftr bits (Npos (XO (XO (XO XH))))) (Npos (XI (XI (XI
      (XI (XI (XI (XI XH))))))))) :: ((N.coq_land bits (Npos (XI (XI (XI (XI
                                        (XI (XI (XI XH))))))))) :: [])))))))

(** val sha1_pad : n list -> n list **)

let sha1_pad msg =
  let n0 = N.of_nat (length msg) in
  app msg ((Npos (XO (XO (XO (XO (XO (XO (XO
    XH)))))))) :: (app (repeat N0 (sha1_pad_zeros n0))
                    (sha1_len_bytes_be (N.mul (Npos (XO (XO (XO XH)))) n0))))

type sha1_state = (((n * n) * n) * n) * n

(** val sha1_init_state : sha1_state **)

let sha1_init_state =
  (((((Npos (XI (XO (XO (XO (XO (XO (XO (XO (XI (XI (XO (XO (XO (XI (XO (XO
    (XI (XO (XI (XO (XO (XO (XI (XO (XI (XI (XI (XO (XO (XI
    XH))))))))))))))))))))))))))))))), (Npos (XI (XO (XO (XI (XO (XO (XO (XI
    (XI (XI (XO (XI (XO (XI (XO (XI (XI (XO (XI (XI (XO (XO (XI (XI (XI (XI
    (XI (XI (XO (XI (XI XH))))))))))))))))))))))))))))))))), (Npos (XO (XI
    (XI (XI (XI (XI (XI (XI (XO (XO (XI (XI (XI (XO (XI (XI (XO (XI (XO (XI
    (XI (XI (XO (XI (XO (XO (XO (XI (XI (XO (XO
    XH))))))))))))))))))))))))))))))))), (Npos (XO (XI (XI (XO (XI (XI (XI
    (XO (XO (XO (XI (XO (XI (XO (XI (XO (XO (XI (XO (XO (XI (XI (XO (XO (XO
    (XO (XO (XO XH)))))))))))))))))))))))))))))), (Npos (XO (XO (XO (XO (XI
    (XI (XI (XI (XI (XO (XO (XO (XO (XI (XI (XI (XO (XI (XO (XO (XI (XO (XI
    (XI (XI (XI (XO (XO (XO (XO (XI XH)))))))))))))))))))))))))))))))))

(** val sha1_ch : n -> n -> n -> n **)

let sha1_ch b c d =
  N.coq_lor (N.coq_land b c) (N.coq_land (sha1_not32 b) d)

(** val sha1_parity : n -> n -> n -> n **)

let sha1_parity b c d =
  N.coq_lxor b (N.coq_lxor c d)

(** val sha1_maj : n -> n -> n -> n **)

let sha1_maj b c d =
  N.coq_lor (N.coq_land b c) (N.coq_lor (N.coq_land b d) (N.coq_land c d))

(** val sha1_schedule : nat -> n list -> n list **)

let rec sha1_schedule n0 win =
  match n0 with
  | O -> []
  | S n' ->
    (match win with
     | [] -> []
     | w0 :: rest ->
       let x =
         N.coq_lxor
           (N.coq_lxor
             (nth (S (S (S (S (S (S (S (S (S (S (S (S (S O))))))))))))) win
               N0) (nth (S (S (S (S (S (S (S (S O)))))))) win N0))
           (N.coq_lxor (nth (S (S O)) win N0) w0)
       in
       w0 :: (sha1_schedule n' (app rest ((sha1_rotl32 x (Npos XH)) :: []))))

(** val sha1_f : nat -> n -> n -> n -> n **)

let sha1_f t b c d =
  if ltb t (S (S (S (S (S (S (S (S (S (S (S (S (S (S (S (S (S (S (S (S
       O))))))))))))))))))))
  then sha1_ch b c d
  else if ltb t (S (S (S (S (S (S (S (S (S (S (S (S (S (S (S (S (S (S (S (S
            (S (S (S (S (S (S (S (S (S (S (S (S (S (S (S (S (S (S (S (S
            O))))))))))))))))))))))))))))))))))))))))
       then sha1_parity b c d
       else if ltb t (S (S (S (S (S (S (S (S (S (S (S (S (S (S (S (S (S (S (S
                 (S (S (S (S (S (S (S (S (S (S (S (S (S (S (S (S (S (S (S (S
                 (S (S (S (S (S (S (S (S (S (S (S (S (S (S (S (S (S (S (S (S
                 (S
                 O))))))))))))))))))))))))))))))))))))))))))))))))))))))))))))
            then sha1_maj b c d
            else sha1_parity b c d

(** val sha1_k : nat -> n **)

let sha1_k t =
  if ltb t (S (S (S (S (S (S (S (S (S (S (S (S (S (S (S (S (S (S (S (S
       O))))))))))))))))))))
  then Npos (XI (XO (XO (XI (XI (XO (XO (XI (XI (XO (XO (XI (XI (XI (XI (XO
         (XO (XI (XO (XO (XO (XO (XO (XI (XO (XI (XO (XI (XI (XO
         XH))))))))))))))))))))))))))))))
  else if ltb t (S (S (S (S (S (S (S (S (S (S (S (S (S (S (S (S (S (S (S (S
            (S (S (S (S (S (S (S (S (S (S (S (S (S (S (S (S (S (S (S (S
            O))))))))))))))))))))))))))))))))))))))))
       then Npos (XI (XO (XO (XO (XO (XI (XO (XI (XI (XI (XO (XI (XO (XI (XI
              (XI (XI (XO (XO (XI (XI (XO (XI (XI (XO (XI (XI (XI (XO (XI
              XH))))))))))))))))))))))))))))))
       else if ltb t (S (S (S (S (S (S (S (S (S (S (S (S (S (S (S (S (S (S (S
                 (S (S (S (S (S (S (S (S (S (S (S (S (S (S (S (S (S (S (S (S
                 (S (S (S (S (S (S (S (S (S (S (S (S (S (S (S (S (S (S (S (S
                 (S
                 O))))))))))))))))))))))))))))))))))))))))))))))))))))))))))))
            then Npos (XO (XO (XI (XI (XI (XO (XI (XI (XO (XO (XI (XI (XI (XI
                   (XO (XI (XI (XI (XO (XI (XI (XO (XO (XO (XI (XI (XI (XI
                   (XO (XO (XO XH)))))))))))))))))))))))))))))))
            else Npos (XO (XI (XI (XO (XI (XO (XI (XI (XI (XO (XO (XO (XO (XO
                   (XI (XI (XO (XI (XO (XO (XO (XI (XI (XO (XO (XI (XO (XI
                   (XO (XO (XI XH)))))))))))))))))))))))))))))))

(** val sha1_step : nat -> sha1_state -> n -> sha1_state **)

let sha1_step t st w =
  let (p, e) = st in
  let (p0, d) = p in
  let (p1, c) = p0 in
  let (a, b) = p1 in
  let tmp =
    sha1_add32
      (sha1_add32
        (sha1_add32
          (sha1_add32 (sha1_rotl32 a (Npos (XI (XO XH)))) (sha1_f t b c d)) e)
        (sha1_k t)) w
  in
  ((((tmp, a), (sha1_rotl32 b (Npos (XO (XI (XI (XI XH))))))), c), d)

(** val sha1_rounds : nat -> n list -> sha1_state -> sha1_state **)

let rec sha1_rounds t ws st =
  match ws with
  | [] -> st
  | w :: tl0 -> sha1_rounds (S t) tl0 (sha1_step t st w)

(** val sha1_compress : sha1_state -> n list -> sha1_state **)

let sha1_compress st m =
  let (p, e0) = st in
  let (p0, d0) = p in
  let (p1, c0) = p0 in
  let (a0, b0) = p1 in
  let (p2, e) =
    sha1_rounds O
      (sha1_schedule (S (S (S (S (S (S (S (S (S (S (S (S (S (S (S (S (S (S (S
        (S (S (S (S (S (S (S (S (S (S (S (S (S (S (S (S (S (S (S (S (S (S (S
        (S (S (S (S (S (S (S (S (S (S (S (S (S (S (S (S (S (S (S (S (S (S (S
        (S (S (S (S (S (S (S (S (S (S (S (S (S (S (S
        O))))))))))))))))))))))))))))))))))))))))))))))))))))))))))))))))))))))))))))))))
        m) st
  in
  let (p3, d) = p2 in
  let (p4, c) = p3 in
  let (a, b) = p4 in
  (((((sha1_add32 a0 a), (sha1_add32 b0 b)), (sha1_add32 c0 c)),
  (sha1_add32 d0 d)), (sha1_add32 e0 e))

(** val sha1_process : nat -> sha1_state -> n list -> sha1_state **)

let rec sha1_process fuel st ws =
  match fuel with
  | O -> st
  | S fuel' ->
    (match ws with
     | [] -> st
     | _ :: _ ->
       sha1_process fuel'
         (sha1_compress st
           (firstn (S (S (S (S (S (S (S (S (S (S (S (S (S (S (S (S
             O)))))))))))))))) ws))
         (skipn (S (S (S (S (S (S (S (S (S (S (S (S (S (S (S (S
           O)))))))))))))))) ws))

(** val sha1_serialize : sha1_state -> n list **)

let sha1_serialize = function
| (p, e) ->
  let (p0, d) = p in
  let (p1, c) = p0 in
  let (a, b) = p1 in
  (sha1_byte0 a) :: ((sha1_byte1 a) :: ((sha1_byte2 a) :: ((sha1_byte3 a) :: (
  (sha1_byte0 b) :: ((sha1_byte1 b) :: ((sha1_byte2 b) :: ((sha1_byte3 b) :: (
  (sha1_byte0 c) :: ((sha1_byte1 c) :: ((sha1_byte2 c) :: ((sha1_byte3 c) :: (
  (sha1_byte0 d) :: ((sha1_byte1 d) :: ((sha1_byte2 d) :: ((sha1_byte3 d) :: (
  (sha1_byte0 e) :: ((sha1_byte1 e) :: ((sha1_byte2 e) :: ((sha1_byte3 e) :: [])))))))))))))))))))

(** val sha1 : n list -> n list **)

let sha1 msg =
  let ws = sha1_words_be (sha1_pad msg) in
  sha1_serialize (sha1_process (length ws) sha1_init_state ws)

(** val md4_mask32 : n **)

let md4_mask32 =
  Npos (XI (XI (XI (XI (XI (XI (XI (XI (XI (XI (XI (XI (XI (XI (XI (XI (XI
    (XI (XI (XI (XI (XI (XI (XI (XI (XI (XI (XI (XI (XI (XI
    XH)))))))))))))))))))))))))))))))

(** val md4_add32 : n -> n -> n **)

let md4_add32 a b =
  N.coq_land (N.add a b) md4_mask32

(** val md4_not32 : n -> n **)

let md4_not32 a =
  N.coq_lxor (N.coq_land a md4_mask32) md4_mask32

(** val md4_rotl32 : n -> n -> n **)

let md4_rotl32 x s =
  N.coq_lor (N.coq_land (N.shiftl x s) md4_mask32)
    (N.shiftr x (N.sub (Npos (XO (XO (XO (XO (XO XH)))))) s))

(** val md4_byte0 : n -> n **)

let md4_byte0 w =
  N.coq_land w (Npos (XI (XI (XI (XI (XI (XI (XI XH))))))))

(** val md4_byte1 : n -> n **)

let md4_byte1 w =
  N.coq_land (N.shiftr w (Npos (XO (XO (XO XH))))) (Npos (XI (XI (XI (XI (XI
    (XI (XI XH))))))))

(** val md4_byte2 : n -> n **)

let md4_byte2 w =
  N.coq_land (N.shiftr w (Npos (XO (XO (XO (XO XH)))))) (Npos (XI (XI (XI (XI
    (XI (XI (XI XH))))))))

(** val md4_byte3 : n -> n **)

let md4_byte3 w =
  N.coq_land (N.shiftr w (Npos (XO (XO (XO (XI XH)))))) (Npos (XI (XI (XI (XI
    (XI (XI (XI XH))))))))

(** val md4_word_le : n -> n -> n -> n -> n **)

let md4_word_le a b c d =
  N.coq_lor (N.coq_land a (Npos (XI (XI (XI (XI (XI (XI (XI XH)))))))))
    (N.coq_lor
      (N.shiftl (N.coq_land b (Npos (XI (XI (XI (XI (XI (XI (XI XH)))))))))
        (Npos (XO (XO (XO XH)))))
      (N.coq_lor
        (N.shiftl (N.coq_land c (Npos (XI (XI (XI (XI (XI (XI (XI XH)))))))))
          (Npos (XO (XO (XO (XO XH))))))
        (N.shiftl (N.coq_land d (Npos (XI (XI (XI (XI (XI (XI (XI XH)))))))))
          (Npos (XO (XO (XO (XI XH))))))))

(** val md4_words_le : n list -> n list **)

let rec md4_words_le = function
| [] -> []
| a :: l0 ->
  (match l0 with
   | [] -> []
   | b :: l1 ->
     (match l1 with
      | [] -> []
      | c :: l2 ->
        (match l2 with
         | [] -> []
         | d :: tl0 -> (md4_word_le a b c d) :: (md4_words_le tl0))))

(** val md4_pad_zeros : n -> nat **)

let md4_pad_zeros n0 =
  N.to_nat
    (N.modulo
      (N.sub (Npos (XI (XI (XI (XO (XI (XI XH)))))))
        (N.modulo n0 (Npos (XO (XO (XO (XO (XO (XO XH))))))))) (Npos (XO (XO
      (XO (XO (XO (XO XH))))))))

(** val md4_len_bytes_le : n -> n list **)

let md4_len_bytes_le bits =
  (N.coq_land bits (Npos (XI (XI (XI (XI (XI (XI (XI XH))))))))) :: (
    (N.coq_land (N.shiftr bits (Npos (XO (XO (XO XH))))) (Npos (XI (XI (XI
      (XI (XI (XI (XI XH))))))))) :: ((N.coq_land
                                        (N.shiftr bits (Npos (XO (XO (XO (XO
                                          XH)))))) (Npos (XI (XI (XI (XI (XI
                                        (XI (XI XH))))))))) :: ((N.coq_land
                                                                  (N.shiftr
                                                                    bits
                                                                    (Npos (XO
                                                                    (XO (XO
                                                                    (XI
                                                                    XH))))))
                                                                  (Npos (XI
                                                                  (XI (XI (XI
                                                                  (XI (XI (XI
                                                                  XH))))))))) :: (
    (N.coq_land (N.shiftr bits (Npos (XO (XO (XO (XO (XO XH))))))) (Npos (XI
      (XI (XI (XI (XI (XI (XI XH))))))))) :: ((N.coq_land
                                                (N.shiftr bits (Npos (XO (XO
                                                  (XO (XI (XO XH))))))) (Npos
                                                (XI (XI (XI (XI (XI (XI (XI
                                                XH))))))))) :: ((N.coq_land
                                                                  (N.shiftr
                                                                    bits
                                                                    (Npos (XO
                                                                    (XO (XO
                                                                    (XO (XI
                                                                    XH)))))))
                                                                  (Npos (XI
                                                                  (XI (XI (XI
                                                                  (XI (XI (XI
                                                                  XH))))))))) :: (
    (N.coq_land (N.shiftr bits (Npos (XO (XO (XO (XI (XI XH))))))) (Npos (XI
      (XI (XI (XI (XI (XI (XI XH))))))))) :: [])))))))

(** val md4_pad : n list -> n list **)

let md4_pad msg =
  let n0 = N.of_nat (length msg) in
  app msg ((Npos (XO (XO (XO (XO (XO (XO (XO
    XH)))))))) :: (app (repeat N0 (md4_pad_zeros n0))
                    (md4_len_bytes_le (N.mul (Npos (XO (XO (XO XH)))) n0))))

type md4_state = ((n * n) * n) * n

(** val md4_init_state : md4_state **)

let md4_init_state =
  ((((Npos (XI (XO (XO (XO (XO (XO (XO (XO (XI (XI (XO (XO (XO (XI (XO (XO
    (XI (XO (XI (XO (XO (XO (XI (XO (XI (XI (XI (XO (XO (XI
    XH))))))))))))))))))))))))))))))), (Npos (XI (XO (XO (XI (XO (XO (XO (XI
    (XI (XI (XO (XI (XO (XI (XO (XI (XI (XO (XI (XI (XO (XO (XI (XI (XI (XI
    (XI (XI (XO (XI (XI XH))))))))))))))))))))))))))))))))), (Npos (XO (XI
    (XI (XI (XI (XI (XI (XI (XO (XO (XI (XI (XI (XO (XI (XI (XO (XI (XO (XI
    (XI (XI (XO (XI (XO (XO (XO (XI (XI (XO (XO
    XH))))))))))))))))))))))))))))))))), (Npos (XO (XI (XI (XO (XI (XI (XI
    (XO (XO (XO (XI (XO (XI (XO (XI (XO (XO (XI (XO (XO (XI (XI (XO (XO (XO
    (XO (XO (XO XH))))))))))))))))))))))))))))))

(** val md4_fF : n -> n -> n -> n **)

let md4_fF b c d =
  N.coq_lor (N.coq_land b c) (N.coq_land (md4_not32 b) d)

(** val md4_fG : n -> n -> n -> n **)

let md4_fG b c d =
  N.coq_lor (N.coq_land b c) (N.coq_lor (N.coq_land b d) (N.coq_land c d))

(** val md4_fH : n -> n -> n -> n **)

let md4_fH b c d =
  N.coq_lxor b (N.coq_lxor c d)

(** val md4_step :
    (n -> n -> n -> n) -> n -> n list -> md4_state -> (nat * n) -> md4_state **)

let md4_step f const m st p =
  let (p0, d) = st in
  let (p1, c) = p0 in
  let (a, b) = p1 in
  let (k, s) = p in
  let x = md4_add32 (md4_add32 (md4_add32 a (f b c d)) (nth k m N0)) const in
  (((d, (md4_rotl32 x s)), b), c)

(** val md4_steps1 : (nat * n) list **)

let md4_steps1 =
  (O, (Npos (XI XH))) :: (((S O), (Npos (XI (XI XH)))) :: (((S (S O)), (Npos
    (XI (XI (XO XH))))) :: (((S (S (S O))), (Npos (XI (XI (XO (XO
    XH)))))) :: (((S (S (S (S O)))), (Npos (XI XH))) :: (((S (S (S (S (S
    O))))), (Npos (XI (XI XH)))) :: (((S (S (S (S (S (S O)))))), (Npos (XI
    (XI (XO XH))))) :: (((S (S (S (S (S (S (S O))))))), (Npos (XI (XI (XO (XO
    XH)))))) :: (((S (S (S (S (S (S (S (S O)))))))), (Npos (XI XH))) :: (((S
    (S (S (S (S (S (S (S (S O))))))))), (Npos (XI (XI XH)))) :: (((S (S (S (S
    (S (S (S (S (S (S O)))))))))), (Npos (XI (XI (XO XH))))) :: (((S (S (S (S
    (S (S (S (S (S (S (S O))))))))))), (Npos (XI (XI (XO (XO XH)))))) :: (((S
    (S (S (S (S (S (S (S (S (S (S (S O)))))))))))), (Npos (XI XH))) :: (((S
    (S (S (S (S (S (S (S (S (S (S (S (S O))))))))))))), (Npos (XI (XI
    XH)))) :: (((S (S (S (S (S (S (S (S (S (S (S (S (S (S O)))))))))))))),
    (Npos (XI (XI (XO XH))))) :: (((S (S (S (S (S (S (S (S (S (S (S (S (S (S
    (S O))))))))))))))), (Npos (XI (XI (XO (XO XH)))))) :: [])))))))))))))))

(** val md4_steps2 : (nat * n) list **)

let md4_steps2 =
  (O, (Npos (XI XH))) :: (((S (S (S (S O)))), (Npos (XI (XO XH)))) :: (((S (S
    (S (S (S (S (S (S O)))))))), (Npos (XI (XO (XO XH))))) :: (((S (S (S (S
    (S (S (S (S (S (S (S (S O)))))))))))), (Npos (XI (XO (XI XH))))) :: (((S
    O), (Npos (XI XH))) :: (((S (S (S (S (S O))))), (Npos (XI (XO
    XH)))) :: (((S (S (S (S (S (S (S (S (S O))))))))), (Npos (XI (XO (XO
    XH))))) :: (((S (S (S (S (S (S (S (S (S (S (S (S (S O))))))))))))), (Npos
    (XI (XO (XI XH))))) :: (((S (S O)), (Npos (XI XH))) :: (((S (S (S (S (S
    (S O)))))), (Npos (XI (XO XH)))) :: (((S (S (S (S (S (S (S (S (S (S
    O)))))))))), (Npos (XI (XO (XO XH))))) :: (((S (S (S (S (S (S (S (S (S (S
    (S (S (S (S O)))))))))))))), (Npos (XI (XO (XI XH))))) :: (((S (S (S
    O))), (Npos (XI XH))) :: (((S (S (S (S (S (S (S O))))))), (Npos (XI (XO
    XH)))) :: (((S (S (S (S (S (S (S (S (S (S (S O))))))))))), (Npos (XI (XO
    (XO XH))))) :: (((S (S (S (S (S (S (S (S (S (S (S (S (S (S (S
    O))))))))))))))), (Npos (XI (XO (XI XH))))) :: [])))))))))))))))

(** val md4_steps3 : (nat * n) list **)

let md4_steps3 =
  (O, (Npos (XI XH))) :: (((S (S (S (S (S (S (S (S O)))))))), (Npos (XI (XO
    (XO XH))))) :: (((S (S (S (S O)))), (Npos (XI (XI (XO XH))))) :: (((S (S
    (S (S (S (S (S (S (S (S (S (S O)))))))))))), (Npos (XI (XI (XI
    XH))))) :: (((S (S O)), (Npos (XI XH))) :: (((S (S (S (S (S (S (S (S (S
    (S O)))))))))), (Npos (XI (XO (XO XH))))) :: (((S (S (S (S (S (S O)))))),
    (Npos (XI (XI (XO XH))))) :: (((S (S (S (S (S (S (S (S (S (S (S (S (S (S
    O)))))))))))))), (Npos (XI (XI (XI XH))))) :: (((S O), (Npos (XI
    XH))) :: (((S (S (S (S (S (S (S (S (S O))))))))), (Npos (XI (XO (XO
    XH))))) :: (((S (S (S (S (S O))))), (Npos (XI (XI (XO XH))))) :: (((S (S
    (S (S (S (S (S (S (S (S (S (S (S O))))))))))))), (Npos (XI (XI (XI
    XH))))) :: (((S (S (S O))), (Npos (XI XH))) :: (((S (S (S (S (S (S (S (S
    (S (S (S O))))))))))), (Npos (XI (XO (XO XH))))) :: (((S (S (S (S (S (S
    (S O))))))), (Npos (XI (XI (XO XH))))) :: (((S (S (S (S (S (S (S (S (S (S
    (S (S (S (S (S O))))))))))))))), (Npos (XI (XI (XI
    XH))))) :: [])))))))))))))))

(** val md4_compress : md4_state -> n list -> md4_state **)

let md4_compress st m =
  let st1 = fold_left (md4_step md4_fF N0 m) md4_steps1 st in
  let st2 =
    fold_left
      (md4_step md4_fG (Npos (XI (XO (XO (XI (XI (XO (XO (XI (XI (XO (XO (XI
        (XI (XI (XI (XO (XO (XI (XO (XO (XO (XO (XO (XI (XO (XI (XO (XI (XI
        (XO XH))))))))))))))))))))))))))))))) m) md4_steps2 st1
  in
  let st3 =
    fold_left
      (md4_step md4_fH (Npos (XI (XO (XO (XO (XO (XI (XO (XI (XI (XI (XO (XI
        (XO (XI (XI (XI (XI (XO (XO (XI (XI (XO (XI (XI (XO (XI (XI (XI (XO
        (XI XH))))))))))))))))))))))))))))))) m) md4_steps3 st2
  in
  let (p, d0) = st in
  let (p0, c0) = p in
  let (a0, b0) = p0 in
  let (p1, d) = st3 in
  let (p2, c) = p1 in
  let (a, b) = p2 in
  ((((md4_add32 a0 a), (md4_add32 b0 b)), (md4_add32 c0 c)), (md4_add32 d0 d))

(** val md4_process : nat -> md4_state -> n list -> md4_state **)

let rec md4_process fuel st ws =
  match fuel with
  | O -> st
  | S fuel' ->
    (match ws with
     | [] -> st
     | _ :: _ ->
       md4_process fuel'
         (md4_compress st
           (firstn (S (S (S (S (S (S (S (S (S (S (S (S (S (S (S (S
             O)))))))))))))))) ws))
         (skipn (S (S (S (S (S (S (S (S (S (S (S (S (S (S (S (S
           O)))))))))))))))) ws))

(** val md4_serialize : md4_state -> n list **)

let md4_serialize = function
| (p, d) ->
  let (p0, c) = p in
  let (a, b) = p0 in
  (md4_byte0 a) :: ((md4_byte1 a) :: ((md4_byte2 a) :: ((md4_byte3 a) :: (
  (md4_byte0 b) :: ((md4_byte1 b) :: ((md4_byte2 b) :: ((md4_byte3 b) :: (
  (md4_byte0 c) :: ((md4_byte1 c) :: ((md4_byte2 c) :: ((md4_byte3 c) :: (
  (md4_byte0 d) :: ((md4_byte1 d) :: ((md4_byte2 d) :: ((md4_byte3 d) :: [])))))))))))))))

(** val md4 : n list -> n list **)

let md4 msg =
  let ws = md4_words_le (md4_pad msg) in
  md4_serialize (md4_process (length ws) md4_init_state ws)

(** val des_byte_bits : n -> bool list **)

let des_byte_bits b =
  (N.testbit b (Npos (XI (XI XH)))) :: ((N.testbit b (Npos (XO (XI XH)))) :: (
    (N.testbit b (Npos (XI (XO XH)))) :: ((N.testbit b (Npos (XO (XO XH)))) :: (
    (N.testbit b (Npos (XI XH))) :: ((N.testbit b (Npos (XO XH))) :: (
    (N.testbit b (Npos XH)) :: ((N.testbit b N0) :: [])))))))

(** val des_bits_of_bytes : n list -> bool list **)

let des_bits_of_bytes l =
  flat_map des_byte_bits l

(** val des_bits_to_N : bool list -> n **)

let des_bits_to_N l =
  fold_left (fun acc b -> N.add (N.double acc) (if b then Npos XH else N0)) l
    N0

(** val des_byte_at : bool list -> nat -> n **)

let des_byte_at bits k =
  N.coq_land
    (des_bits_to_N
      (firstn (S (S (S (S (S (S (S (S O))))))))
        (skipn (mul (S (S (S (S (S (S (S (S O)))))))) k) bits))) (Npos (XI
    (XI (XI (XI (XI (XI (XI XH))))))))

(** val des_permute : nat list -> bool list -> bool list **)

let des_permute tbl bits =
  map (fun i -> nth (pred i) bits false) tbl

(** val des_xor : bool list -> bool list -> bool list **)

let rec des_xor a b =
  match a with
  | [] -> []
  | x :: a' ->
    (match b with
     | [] -> []
     | y :: b' -> (xorb x y) :: (des_xor a' b'))

(** val des_rotl : nat -> bool list -> bool list **)

let des_rotl n0 l =
  app (skipn n0 l) (firstn n0 l)

(** val des_IP : nat list **)

let des_IP =
  (S (S (S (S (S (S (S (S (S (S (S (S (S (S (S (S (S (S (S (S (S (S (S (S (S
    (S (S (S (S (S (S (S (S (S (S (S (S (S (S (S (S (S (S (S (S (S (S (S (S
    (S (S (S (S (S (S (S (S (S
    O)))))))))))))))))))))))))))))))))))))))))))))))))))))))))) :: ((S (S (S
    (S (S (S (S (S (S (S (S (S (S (S (S (S (S (S (S (S (S (S (S (S (S (S (S
    (S (S (S (S (S (S (S (S (S (S (S (S (S (S (S (S (S (S (S (S (S (S (S
    O)))))))))))))))))))))))))))))))))))))))))))))))))) :: ((S (S (S (S (S (S
    (S (S (S (S (S (S (S (S (S (S (S (S (S (S (S (S (S (S (S (S (S (S (S (S
    (S (S (S (S (S (S (S (S (S (S (S (S
    O)))))))))))))))))))))))))))))))))))))))))) :: ((S (S (S (S (S (S (S (S
    (S (S (S (S (S (S (S (S (S (S (S (S (S (S (S (S (S (S (S (S (S (S (S (S
    (S (S O)))))))))))))))))))))))))))))))))) :: ((S (S (S (S (S (S (S (S (S
    (S (S (S (S (S (S (S (S (S (S (S (S (S (S (S (S (S
    O)))))))))))))))))))))))))) :: ((S (S (S (S (S (S (S (S (S (S (S (S (S (S
    (S (S (S (S O)))))))))))))))))) :: ((S (S (S (S (S (S (S (S (S (S
    O)))))))))) :: ((S (S O)) :: ((S (S (S (S (S (S (S (S (S (S (S (S (S (S
    (S (S (S (S (S (S (S (S (S (S (S (S (S (S (S (S (S (S (S (S (S (S (S (S
    (S (S (S (S (S (S (S (S (S (S (S (S (S (S (S (S (S (S (S (S (S (S
    O)))))))))))))))))))))))))))))))))))))))))))))))))))))))))))) :: ((S (S
    (S (S (S (S (S (S (S (S (S (S (S (S (S (S (S (S (S (S (S (S (S (S (S (S
    (S (S (S (S (S (S (S (S (S (S (S (S (S (S (S (S (S (S (S (S (S (S (S (S
    (S (S O)))))))))))))))))))))))))))))))))))))))))))))))))))) :: ((S (S (S
    (S (S (S (S (S (S (S (S (S (S (S (S (S (S (S (S (S (S (S (S (S (S (S (S
    (S (S (S (S (S (S (S (S (S (S (S (S (S (S (S (S (S
    O)))))))))))))))))))))))))))))))))))))))))))) :: ((S (S (S (S (S (S (S (S
    (S (S (S (S (S (S (S (S (S (S (S (S (S (S (S (S (S (S (S (S (S (S (S (S
    (S (S (S (S O)))))))))))))))))))))))))))))))))))) :: ((S (S (S (S (S (S
    (S (S (S (S (S (S (S (S (S (S (S (S (S (S (S (S (S (S (S (S (S (S
    O)))))))))))))))))))))))))))) :: ((S (S (S (S (S (S (S (S (S (S (S (S (S
    (S (S (S (S (S (S (S O)))))))))))))))))))) :: ((S (S (S (S (S (S (S (S (S
    (S (S (S O)))))))))))) :: ((S (S (S (S O)))) :: ((S (S (S (S (S (S (S (S
    (S (S (S (S (S (S (S (S (S (S (S (S (S (S (S (S (S (S (S (S (S (S (S (S
    (S (S (S (S (S (S (S (S (S (S (S (S (S (S (S (S (S (S (S (S (S (S (S (S
    (S (S (S (S (S (S
    O)))))))))))))))))))))))))))))))))))))))))))))))))))))))))))))) :: ((S (S
    (S (S (S (S (S (S (S (S (S (S (S (S (S (S (S (S (S (S (S (S (S (S (S (S
    (S (S (S (S (S (S (S (S (S (S (S (S (S (S (S (S (S (S (S (S (S (S (S (S
    (S (S (S (S
    O)))))))))))))))))))))))))))))))))))))))))))))))))))))) :: ((S (S (S (S
    (S (S (S (S (S (S (S (S (S (S (S (S (S (S (S (S (S (S (S (S (S (S (S (S
    (S (S (S (S (S (S (S (S (S (S (S (S (S (S (S (S (S (S
    O)))))))))))))))))))))))))))))))))))))))))))))) :: ((S (S (S (S (S (S (S
    (S (S (S (S (S (S (S (S (S (S (S (S (S (S (S (S (S (S (S (S (S (S (S (S
    (S (S (S (S (S (S (S O)))))))))))))))))))))))))))))))))))))) :: ((S (S (S
    (S (S (S (S (S (S (S (S (S (S (S (S (S (S (S (S (S (S (S (S (S (S (S (S
    (S (S (S O)))))))))))))))))))))))))))))) :: ((S (S (S (S (S (S (S (S (S
    (S (S (S (S (S (S (S (S (S (S (S (S (S O)))))))))))))))))))))) :: ((S (S
    (S (S (S (S (S (S (S (S (S (S (S (S O)))))))))))))) :: ((S (S (S (S (S (S
    O)))))) :: ((S (S (S (S (S (S (S (S (S (S (S (S (S (S (S (S (S (S (S (S
    (S (S (S (S (S (S (S (S (S (S (S (S (S (S (S (S (S (S (S (S (S (S (S (S
    (S (S (S (S (S (S (S (S (S (S (S (S (S (S (S (S (S (S (S (S
    O)))))))))))))))))))))))))))))))))))))))))))))))))))))))))))))))) :: ((S
    (S (S (S (S (S (S (S (S (S (S (S (S (S (S (S (S (S (S (S (S (S (S (S (S
    (S (S (S (S (S (S (S (S (S (S (S (S (S (S (S (S (S (S (S (S (S (S (S (S
    (S (S (S (S (S (S (S
    O)))))))))))))))))))))))))))))))))))))))))))))))))))))))) :: ((S (S (S (S
    (S (S (S (S (S (S (S (S (S (S (S (S (S (S (S (S (S (S (S (S (S (S (S (S
    (S (S (S (S (S (S (S (S (S (S (S (S (S (S (S (S (S (S (S (S
    O)))))))))))))))))))))))))))))))))))))))))))))))) :: ((S (S (S (S (S (S
    (S (S (S (S (S (S (S (S (S (S (S (S (S (S (S (S (S (S (S (S (S (S (S (S
    (S (S (S (S (S (S (S (S (S (S
    O)))))))))))))))))))))))))))))))))))))))) :: ((S (S (S (S (S (S (S (S (S
    (S (S (S (S (S (S (S (S (S (S (S (S (S (S (S (S (S (S (S (S (S (S (S
    O)))))))))))))))))))))))))))))))) :: ((S (S (S (S (S (S (S (S (S (S (S (S
    (S (S (S (S (S (S (S (S (S (S (S (S O)))))))))))))))))))))))) :: ((S (S
    (S (S (S (S (S (S (S (S (S (S (S (S (S (S O)))))))))))))))) :: ((S (S (S
    (S (S (S (S (S O)))))))) :: ((S (S (S (S (S (S (S (S (S (S (S (S (S (S (S
    (S (S (S (S (S (S (S (S (S (S (S (S (S (S (S (S (S (S (S (S (S (S (S (S
    (S (S (S (S (S (S (S (S (S (S (S (S (S (S (S (S (S (S
    O))))))))))))))))))))))))))))))))))))))))))))))))))))))))) :: ((S (S (S
    (S (S (S (S (S (S (S (S (S (S (S (S (S (S (S (S (S (S (S (S (S (S (S (S
    (S (S (S (S (S (S (S (S (S (S (S (S (S (S (S (S (S (S (S (S (S (S
    O))))))))))))))))))))))))))))))))))))))))))))))))) :: ((S (S (S (S (S (S
    (S (S (S (S (S (S (S (S (S (S (S (S (S (S (S (S (S (S (S (S (S (S (S (S
    (S (S (S (S (S (S (S (S (S (S (S
    O))))))))))))))))))))))))))))))))))))))))) :: ((S (S (S (S (S (S (S (S (S
    (S (S (S (S (S (S (S (S (S (S (S (S (S (S (S (S (S (S (S (S (S (S (S (S
    O))))))))))))))))))))))))))))))))) :: ((S (S (S (S (S (S (S (S (S (S (S
    (S (S (S (S (S (S (S (S (S (S (S (S (S (S
    O))))))))))))))))))))))))) :: ((S (S (S (S (S (S (S (S (S (S (S (S (S (S
    (S (S (S O))))))))))))))))) :: ((S (S (S (S (S (S (S (S (S
    O))))))))) :: ((S O) :: ((S (S (S (S (S (S (S (S (S (S (S (S (S (S (S (S
    (S (S (S (S (S (S (S (S (S (S (S (S (S (S (S (S (S (S (S (S (S (S (S (S
    (S (S (S (S (S (S (S (S (S (S (S (S (S (S (S (S (S (S (S
    O))))))))))))))))))))))))))))))))))))))))))))))))))))))))))) :: ((S (S (S
    (S (S (S (S (S (S (S (S (S (S (S (S (S (S (S (S (S (S (S (S (S (S (S (S
    (S (S (S (S (S (S (S (S (S (S (S (S (S (S (S (S (S (S (S (S (S (S (S (S
    O))))))))))))))))))))))))))))))))))))))))))))))))))) :: ((S (S (S (S (S
    (S (S (S (S (S (S (S (S (S (S (S (S (S (S (S (S (S (S (S (S (S (S (S (S
    (S (S (S (S (S (S (S (S (S (S (S (S (S (S
    O))))))))))))))))))))))))))))))))))))))))))) :: ((S (S (S (S (S (S (S (S
    (S (S (S (S (S (S (S (S (S (S (S (S (S (S (S (S (S (S (S (S (S (S (S (S
    (S (S (S O))))))))))))))))))))))))))))))))))) :: ((S (S (S (S (S (S (S (S
    (S (S (S (S (S (S (S (S (S (S (S (S (S (S (S (S (S (S (S
    O))))))))))))))))))))))))))) :: ((S (S (S (S (S (S (S (S (S (S (S (S (S
    (S (S (S (S (S (S O))))))))))))))))))) :: ((S (S (S (S (S (S (S (S (S (S
    (S O))))))))))) :: ((S (S (S O))) :: ((S (S (S (S (S (S (S (S (S (S (S (S
    (S (S (S (S (S (S (S (S (S (S (S (S (S (S (S (S (S (S (S (S (S (S (S (S
    (S (S (S (S (S (S (S (S (S (S (S (S (S (S (S (S (S (S (S (S (S (S (S (S
    (S O))))))))))))))))))))))))))))))))))))))))))))))))))))))))))))) :: ((S
    (S (S (S (S (S (S (S (S (S (S (S (S (S (S (S (S (S (S (S (S (S (S (S (S
    (S (S (S (S (S (S (S (S (S (S (S (S (S (S (S (S (S (S (S (S (S (S (S (S
    (S (S (S (S O))))))))))))))))))))))))))))))))))))))))))))))))))))) :: ((S
    (S (S (S (S (S (S (S (S (S (S (S (S (S (S (S (S (S (S (S (S (S (S (S (S
    (S (S (S (S (S (S (S (S (S (S (S (S (S (S (S (S (S (S (S (S
    O))))))))))))))))))))))))))))))))))))))))))))) :: ((S (S (S (S (S (S (S
    (S (S (S (S (S (S (S (S (S (S (S (S (S (S (S (S (S (S (S (S (S (S (S (S
    (S (S (S (S (S (S O))))))))))))))))))))))))))))))))))))) :: ((S (S (S (S
    (S (S (S (S (S (S (S (S (S (S (S (S (S (S (S (S (S (S (S (S (S (S (S (S
    (S O))))))))))))))))))))))))))))) :: ((S (S (S (S (S (S (S (S (S (S (S (S
    (S (S (S (S (S (S (S (S (S O))))))))))))))))))))) :: ((S (S (S (S (S (S
    (S (S (S (S (S (S (S O))))))))))))) :: ((S (S (S (S (S O))))) :: ((S (S
    (S (S (S (S (S (S (S (S (S (S (S (S (S (S (S (S (S (S (S (S (S (S (S (S
    (S (S (S (S (S (S (S (S (S (S (S (S (S (S (S (S (S (S (S (S (S (S (S (S
    (S (S (S (S (S (S (S (S (S (S (S (S (S
    O))))))))))))))))))))))))))))))))))))))))))))))))))))))))))))))) :: ((S
    (S (S (S (S (S (S (S (S (S (S (S (S (S (S (S (S (S (S (S (S (S (S (S (S
    (S (S (S (S (S (S (S (S (S (S (S (S (S (S (S (S (S (S (S (S (S (S (S (S
    (S (S (S (S (S (S
    O))))))))))))))))))))))))))))))))))))))))))))))))))))))) :: ((S (S (S (S
    (S (S (S (S (S (S (S (S (S (S (S (S (S (S (S (S (S (S (S (S (S (S (S (S
    (S (S (S (S (S (S (S (S (S (S (S (S (S (S (S (S (S (S (S
    O))))))))))))))))))))))))))))))))))))))))))))))) :: ((S (S (S (S (S (S (S
    (S (S (S (S (S (S (S (S (S (S (S (S (S (S (S (S (S (S (S (S (S (S (S (S
    (S (S (S (S (S (S (S (S O))))))))))))))))))))))))))))))))))))))) :: ((S
    (S (S (S (S (S (S (S (S (S (S (S (S (S (S (S (S (S (S (S (S (S (S (S (S
    (S (S (S (S (S (S O))))))))))))))))))))))))))))))) :: ((S (S (S (S (S (S
    (S (S (S (S (S (S (S (S (S (S (S (S (S (S (S (S (S
    O))))))))))))))))))))))) :: ((S (S (S (S (S (S (S (S (S (S (S (S (S (S (S
    O))))))))))))))) :: ((S (S (S (S (S (S (S
    O))))))) :: [])))))))))))))))))))))))))))))))))))))))))))))))))))))))))))))))

(** val des_FP : nat list **)

let des_FP =
  (S (S (S (S (S (S (S (S (S (S (S (S (S (S (S (S (S (S (S (S (S (S (S (S (S
    (S (S (S (S (S (S (S (S (S (S (S (S (S (S (S
    O)))))))))))))))))))))))))))))))))))))))) :: ((S (S (S (S (S (S (S (S
    O)))))))) :: ((S (S (S (S (S (S (S (S (S (S (S (S (S (S (S (S (S (S (S (S
    (S (S (S (S (S (S (S (S (S (S (S (S (S (S (S (S (S (S (S (S (S (S (S (S
    (S (S (S (S O)))))))))))))))))))))))))))))))))))))))))))))))) :: ((S (S
    (S (S (S (S (S (S (S (S (S (S (S (S (S (S O)))))))))))))))) :: ((S (S (S
    (S (S (S (S (S (S (S (S (S (S (S (S (S (S (S (S (S (S (S (S (S (S (S (S
    (S (S (S (S (S (S (S (S (S (S (S (S (S (S (S (S (S (S (S (S (S (S (S (S
    (S (S (S (S (S
    O)))))))))))))))))))))))))))))))))))))))))))))))))))))))) :: ((S (S (S (S
    (S (S (S (S (S (S (S (S (S (S (S (S (S (S (S (S (S (S (S (S
    O)))))))))))))))))))))))) :: ((S (S (S (S (S (S (S (S (S (S (S (S (S (S
    (S (S (S (S (S (S (S (S (S (S (S (S (S (S (S (S (S (S (S (S (S (S (S (S
    (S (S (S (S (S (S (S (S (S (S (S (S (S (S (S (S (S (S (S (S (S (S (S (S
    (S (S
    O)))))))))))))))))))))))))))))))))))))))))))))))))))))))))))))))) :: ((S
    (S (S (S (S (S (S (S (S (S (S (S (S (S (S (S (S (S (S (S (S (S (S (S (S
    (S (S (S (S (S (S (S O)))))))))))))))))))))))))))))))) :: ((S (S (S (S (S
    (S (S (S (S (S (S (S (S (S (S (S (S (S (S (S (S (S (S (S (S (S (S (S (S
    (S (S (S (S (S (S (S (S (S (S
    O))))))))))))))))))))))))))))))))))))))) :: ((S (S (S (S (S (S (S
    O))))))) :: ((S (S (S (S (S (S (S (S (S (S (S (S (S (S (S (S (S (S (S (S
    (S (S (S (S (S (S (S (S (S (S (S (S (S (S (S (S (S (S (S (S (S (S (S (S
    (S (S (S O))))))))))))))))))))))))))))))))))))))))))))))) :: ((S (S (S (S
    (S (S (S (S (S (S (S (S (S (S (S O))))))))))))))) :: ((S (S (S (S (S (S
    (S (S (S (S (S (S (S (S (S (S (S (S (S (S (S (S (S (S (S (S (S (S (S (S
    (S (S (S (S (S (S (S (S (S (S (S (S (S (S (S (S (S (S (S (S (S (S (S (S
    (S O))))))))))))))))))))))))))))))))))))))))))))))))))))))) :: ((S (S (S
    (S (S (S (S (S (S (S (S (S (S (S (S (S (S (S (S (S (S (S (S
    O))))))))))))))))))))))) :: ((S (S (S (S (S (S (S (S (S (S (S (S (S (S (S
    (S (S (S (S (S (S (S (S (S (S (S (S (S (S (S (S (S (S (S (S (S (S (S (S
    (S (S (S (S (S (S (S (S (S (S (S (S (S (S (S (S (S (S (S (S (S (S (S (S
    O))))))))))))))))))))))))))))))))))))))))))))))))))))))))))))))) :: ((S
    (S (S (S (S (S (S (S (S (S (S (S (S (S (S (S (S (S (S (S (S (S (S (S (S
    (S (S (S (S (S (S O))))))))))))))))))))))))))))))) :: ((S (S (S (S (S (S
    (S (S (S (S (S (S (S (S (S (S (S (S (S (S (S (S (S (S (S (S (S (S (S (S
    (S (S (S (S (S (S (S (S O)))))))))))))))))))))))))))))))))))))) :: ((S (S
    (S (S (S (S O)))))) :: ((S (S (S (S (S (S (S (S (S (S (S (S (S (S (S (S
    (S (S (S (S (S (S (S (S (S (S (S (S (S (S (S (S (S (S (S (S (S (S (S (S
    (S (S (S (S (S (S O)))))))))))))))))))))))))))))))))))))))))))))) :: ((S
    (S (S (S (S (S (S (S (S (S (S (S (S (S O)))))))))))))) :: ((S (S (S (S (S
    (S (S (S (S (S (S (S (S (S (S (S (S (S (S (S (S (S (S (S (S (S (S (S (S
    (S (S (S (S (S (S (S (S (S (S (S (S (S (S (S (S (S (S (S (S (S (S (S (S
    (S O)))))))))))))))))))))))))))))))))))))))))))))))))))))) :: ((S (S (S
    (S (S (S (S (S (S (S (S (S (S (S (S (S (S (S (S (S (S (S
    O)))))))))))))))))))))) :: ((S (S (S (S (S (S (S (S (S (S (S (S (S (S (S
    (S (S (S (S (S (S (S (S (S (S (S (S (S (S (S (S (S (S (S (S (S (S (S (S
    (S (S (S (S (S (S (S (S (S (S (S (S (S (S (S (S (S (S (S (S (S (S (S
    O)))))))))))))))))))))))))))))))))))))))))))))))))))))))))))))) :: ((S (S
    (S (S (S (S (S (S (S (S (S (S (S (S (S (S (S (S (S (S (S (S (S (S (S (S
    (S (S (S (S O)))))))))))))))))))))))))))))) :: ((S (S (S (S (S (S (S (S
    (S (S (S (S (S (S (S (S (S (S (S (S (S (S (S (S (S (S (S (S (S (S (S (S
    (S (S (S (S (S O))))))))))))))))))))))))))))))))))))) :: ((S (S (S (S (S
    O))))) :: ((S (S (S (S (S (S (S (S (S (S (S (S (S (S (S (S (S (S (S (S (S
    (S (S (S (S (S (S (S (S (S (S (S (S (S (S (S (S (S (S (S (S (S (S (S (S
    O))))))))))))))))))))))))))))))))))))))))))))) :: ((S (S (S (S (S (S (S
    (S (S (S (S (S (S O))))))))))))) :: ((S (S (S (S (S (S (S (S (S (S (S (S
    (S (S (S (S (S (S (S (S (S (S (S (S (S (S (S (S (S (S (S (S (S (S (S (S
    (S (S (S (S (S (S (S (S (S (S (S (S (S (S (S (S (S
    O))))))))))))))))))))))))))))))))))))))))))))))))))))) :: ((S (S (S (S (S
    (S (S (S (S (S (S (S (S (S (S (S (S (S (S (S (S
    O))))))))))))))))))))) :: ((S (S (S (S (S (S (S (S (S (S (S (S (S (S (S
    (S (S (S (S (S (S (S (S (S (S (S (S (S (S (S (S (S (S (S (S (S (S (S (S
    (S (S (S (S (S (S (S (S (S (S (S (S (S (S (S (S (S (S (S (S (S (S
    O))))))))))))))))))))))))))))))))))))))))))))))))))))))))))))) :: ((S (S
    (S (S (S (S (S (S (S (S (S (S (S (S (S (S (S (S (S (S (S (S (S (S (S (S
    (S (S (S O))))))))))))))))))))))))))))) :: ((S (S (S (S (S (S (S (S (S (S
    (S (S (S (S (S (S (S (S (S (S (S (S (S (S (S (S (S (S (S (S (S (S (S (S
    (S (S O)))))))))))))))))))))))))))))))))))) :: ((S (S (S (S O)))) :: ((S
    (S (S (S (S (S (S (S (S (S (S (S (S (S (S (S (S (S (S (S (S (S (S (S (S
    (S (S (S (S (S (S (S (S (S (S (S (S (S (S (S (S (S (S (S
    O)))))))))))))))))))))))))))))))))))))))))))) :: ((S (S (S (S (S (S (S (S
    (S (S (S (S O)))))))))))) :: ((S (S (S (S (S (S (S (S (S (S (S (S (S (S
    (S (S (S (S (S (S (S (S (S (S (S (S (S (S (S (S (S (S (S (S (S (S (S (S
    (S (S (S (S (S (S (S (S (S (S (S (S (S (S
    O)))))))))))))))))))))))))))))))))))))))))))))))))))) :: ((S (S (S (S (S
    (S (S (S (S (S (S (S (S (S (S (S (S (S (S (S O)))))))))))))))))))) :: ((S
    (S (S (S (S (S (S (S (S (S (S (S (S (S (S (S (S (S (S (S (S (S (S (S (S
    (S (S (S (S (S (S (S (S (S (S (S (S (S (S (S (S (S (S (S (S (S (S (S (S
    (S (S (S (S (S (S (S (S (S (S (S
    O)))))))))))))))))))))))))))))))))))))))))))))))))))))))))))) :: ((S (S
    (S (S (S (S (S (S (S (S (S (S (S (S (S (S (S (S (S (S (S (S (S (S (S (S
    (S (S O)))))))))))))))))))))))))))) :: ((S (S (S (S (S (S (S (S (S (S (S
    (S (S (S (S (S (S (S (S (S (S (S (S (S (S (S (S (S (S (S (S (S (S (S (S
    O))))))))))))))))))))))))))))))))))) :: ((S (S (S O))) :: ((S (S (S (S (S
    (S (S (S (S (S (S (S (S (S (S (S (S (S (S (S (S (S (S (S (S (S (S (S (S
    (S (S (S (S (S (S (S (S (S (S (S (S (S (S
    O))))))))))))))))))))))))))))))))))))))))))) :: ((S (S (S (S (S (S (S (S
    (S (S (S O))))))))))) :: ((S (S (S (S (S (S (S (S (S (S (S (S (S (S (S (S
    (S (S (S (S (S (S (S (S (S (S (S (S (S (S (S (S (S (S (S (S (S (S (S (S
    (S (S (S (S (S (S (S (S (S (S (S
    O))))))))))))))))))))))))))))))))))))))))))))))))))) :: ((S (S (S (S (S
    (S (S (S (S (S (S (S (S (S (S (S (S (S (S O))))))))))))))))))) :: ((S (S
    (S (S (S (S (S (S (S (S (S (S (S (S (S (S (S (S (S (S (S (S (S (S (S (S
    (S (S (S (S (S (S (S (S (S (S (S (S (S (S (S (S (S (S (S (S (S (S (S (S
    (S (S (S (S (S (S (S (S (S
    O))))))))))))))))))))))))))))))))))))))))))))))))))))))))))) :: ((S (S (S
    (S (S (S (S (S (S (S (S (S (S (S (S (S (S (S (S (S (S (S (S (S (S (S (S
    O))))))))))))))))))))))))))) :: ((S (S (S (S (S (S (S (S (S (S (S (S (S
    (S (S (S (S (S (S (S (S (S (S (S (S (S (S (S (S (S (S (S (S (S
    O)))))))))))))))))))))))))))))))))) :: ((S (S O)) :: ((S (S (S (S (S (S
    (S (S (S (S (S (S (S (S (S (S (S (S (S (S (S (S (S (S (S (S (S (S (S (S
    (S (S (S (S (S (S (S (S (S (S (S (S
    O)))))))))))))))))))))))))))))))))))))))))) :: ((S (S (S (S (S (S (S (S
    (S (S O)))))))))) :: ((S (S (S (S (S (S (S (S (S (S (S (S (S (S (S (S (S
    (S (S (S (S (S (S (S (S (S (S (S (S (S (S (S (S (S (S (S (S (S (S (S (S
    (S (S (S (S (S (S (S (S (S
    O)))))))))))))))))))))))))))))))))))))))))))))))))) :: ((S (S (S (S (S (S
    (S (S (S (S (S (S (S (S (S (S (S (S O)))))))))))))))))) :: ((S (S (S (S
    (S (S (S (S (S (S (S (S (S (S (S (S (S (S (S (S (S (S (S (S (S (S (S (S
    (S (S (S (S (S (S (S (S (S (S (S (S (S (S (S (S (S (S (S (S (S (S (S (S
    (S (S (S (S (S (S
    O)))))))))))))))))))))))))))))))))))))))))))))))))))))))))) :: ((S (S (S
    (S (S (S (S (S (S (S (S (S (S (S (S (S (S (S (S (S (S (S (S (S (S (S
    O)))))))))))))))))))))))))) :: ((S (S (S (S (S (S (S (S (S (S (S (S (S (S
    (S (S (S (S (S (S (S (S (S (S (S (S (S (S (S (S (S (S (S
    O))))))))))))))))))))))))))))))))) :: ((S O) :: ((S (S (S (S (S (S (S (S
    (S (S (S (S (S (S (S (S (S (S (S (S (S (S (S (S (S (S (S (S (S (S (S (S
    (S (S (S (S (S (S (S (S (S
    O))))))))))))))))))))))))))))))))))))))))) :: ((S (S (S (S (S (S (S (S (S
    O))))))))) :: ((S (S (S (S (S (S (S (S (S (S (S (S (S (S (S (S (S (S (S
    (S (S (S (S (S (S (S (S (S (S (S (S (S (S (S (S (S (S (S (S (S (S (S (S
    (S (S (S (S (S (S
    O))))))))))))))))))))))))))))))))))))))))))))))))) :: ((S (S (S (S (S (S
    (S (S (S (S (S (S (S (S (S (S (S O))))))))))))))))) :: ((S (S (S (S (S (S
    (S (S (S (S (S (S (S (S (S (S (S (S (S (S (S (S (S (S (S (S (S (S (S (S
    (S (S (S (S (S (S (S (S (S (S (S (S (S (S (S (S (S (S (S (S (S (S (S (S
    (S (S (S
    O))))))))))))))))))))))))))))))))))))))))))))))))))))))))) :: ((S (S (S
    (S (S (S (S (S (S (S (S (S (S (S (S (S (S (S (S (S (S (S (S (S (S
    O))))))))))))))))))))))))) :: [])))))))))))))))))))))))))))))))))))))))))))))))))))))))))))))))

(** val des_E : nat list **)

let des_E =
  (S (S (S (S (S (S (S (S (S (S (S (S (S (S (S (S (S (S (S (S (S (S (S (S (S
    (S (S (S (S (S (S (S O)))))))))))))))))))))))))))))))) :: ((S O) :: ((S
    (S O)) :: ((S (S (S O))) :: ((S (S (S (S O)))) :: ((S (S (S (S (S
    O))))) :: ((S (S (S (S O)))) :: ((S (S (S (S (S O))))) :: ((S (S (S (S (S
    (S O)))))) :: ((S (S (S (S (S (S (S O))))))) :: ((S (S (S (S (S (S (S (S
    O)))))))) :: ((S (S (S (S (S (S (S (S (S O))))))))) :: ((S (S (S (S (S (S
    (S (S O)))))))) :: ((S (S (S (S (S (S (S (S (S O))))))))) :: ((S (S (S (S
    (S (S (S (S (S (S O)))))))))) :: ((S (S (S (S (S (S (S (S (S (S (S
    O))))))))))) :: ((S (S (S (S (S (S (S (S (S (S (S (S O)))))))))))) :: ((S
    (S (S (S (S (S (S (S (S (S (S (S (S O))))))))))))) :: ((S (S (S (S (S (S
    (S (S (S (S (S (S O)))))))))))) :: ((S (S (S (S (S (S (S (S (S (S (S (S
    (S O))))))))))))) :: ((S (S (S (S (S (S (S (S (S (S (S (S (S (S
    O)))))))))))))) :: ((S (S (S (S (S (S (S (S (S (S (S (S (S (S (S
    O))))))))))))))) :: ((S (S (S (S (S (S (S (S (S (S (S (S (S (S (S (S
    O)))))))))))))))) :: ((S (S (S (S (S (S (S (S (S (S (S (S (S (S (S (S (S
    O))))))))))))))))) :: ((S (S (S (S (S (S (S (S (S (S (S (S (S (S (S (S
    O)))))))))))))))) :: ((S (S (S (S (S (S (S (S (S (S (S (S (S (S (S (S (S
    O))))))))))))))))) :: ((S (S (S (S (S (S (S (S (S (S (S (S (S (S (S (S (S
    (S O)))))))))))))))))) :: ((S (S (S (S (S (S (S (S (S (S (S (S (S (S (S
    (S (S (S (S O))))))))))))))))))) :: ((S (S (S (S (S (S (S (S (S (S (S (S
    (S (S (S (S (S (S (S (S O)))))))))))))))))))) :: ((S (S (S (S (S (S (S (S
    (S (S (S (S (S (S (S (S (S (S (S (S (S O))))))))))))))))))))) :: ((S (S
    (S (S (S (S (S (S (S (S (S (S (S (S (S (S (S (S (S (S
    O)))))))))))))))))))) :: ((S (S (S (S (S (S (S (S (S (S (S (S (S (S (S (S
    (S (S (S (S (S O))))))))))))))))))))) :: ((S (S (S (S (S (S (S (S (S (S
    (S (S (S (S (S (S (S (S (S (S (S (S O)))))))))))))))))))))) :: ((S (S (S
    (S (S (S (S (S (S (S (S (S (S (S (S (S (S (S (S (S (S (S (S
    O))))))))))))))))))))))) :: ((S (S (S (S (S (S (S (S (S (S (S (S (S (S (S
    (S (S (S (S (S (S (S (S (S O)))))))))))))))))))))))) :: ((S (S (S (S (S
    (S (S (S (S (S (S (S (S (S (S (S (S (S (S (S (S (S (S (S (S
    O))))))))))))))))))))))))) :: ((S (S (S (S (S (S (S (S (S (S (S (S (S (S
    (S (S (S (S (S (S (S (S (S (S O)))))))))))))))))))))))) :: ((S (S (S (S
    (S (S (S (S (S (S (S (S (S (S (S (S (S (S (S (S (S (S (S (S (S
    O))))))))))))))))))))))))) :: ((S (S (S (S (S (S (S (S (S (S (S (S (S (S
    (S (S (S (S (S (S (S (S (S (S (S (S O)))))))))))))))))))))))))) :: ((S (S
    (S (S (S (S (S (S (S (S (S (S (S (S (S (S (S (S (S (S (S (S (S (S (S (S
    (S O))))))))))))))))))))))))))) :: ((S (S (S (S (S (S (S (S (S (S (S (S
    (S (S (S (S (S (S (S (S (S (S (S (S (S (S (S (S
    O)))))))))))))))))))))))))))) :: ((S (S (S (S (S (S (S (S (S (S (S (S (S
    (S (S (S (S (S (S (S (S (S (S (S (S (S (S (S (S
    O))))))))))))))))))))))))))))) :: ((S (S (S (S (S (S (S (S (S (S (S (S (S
    (S (S (S (S (S (S (S (S (S (S (S (S (S (S (S
    O)))))))))))))))))))))))))))) :: ((S (S (S (S (S (S (S (S (S (S (S (S (S
    (S (S (S (S (S (S (S (S (S (S (S (S (S (S (S (S
    O))))))))))))))))))))))))))))) :: ((S (S (S (S (S (S (S (S (S (S (S (S (S
    (S (S (S (S (S (S (S (S (S (S (S (S (S (S (S (S (S
    O)))))))))))))))))))))))))))))) :: ((S (S (S (S (S (S (S (S (S (S (S (S
    (S (S (S (S (S (S (S (S (S (S (S (S (S (S (S (S (S (S (S
    O))))))))))))))))))))))))))))))) :: ((S (S (S (S (S (S (S (S (S (S (S (S
    (S (S (S (S (S (S (S (S (S (S (S (S (S (S (S (S (S (S (S (S
    O)))))))))))))))))))))))))))))))) :: ((S
    O) :: [])))))))))))))))))))))))))))))))))))))))))))))))

(** val des_P : nat list **)

let des_P =
  (S (S (S (S (S (S (S (S (S (S (S (S (S (S (S (S O)))))))))))))))) :: ((S (S
    (S (S (S (S (S O))))))) :: ((S (S (S (S (S (S (S (S (S (S (S (S (S (S (S
    (S (S (S (S (S O)))))))))))))))))))) :: ((S (S (S (S (S (S (S (S (S (S (S
    (S (S (S (S (S (S (S (S (S (S O))))))))))))))))))))) :: ((S (S (S (S (S
    (S (S (S (S (S (S (S (S (S (S (S (S (S (S (S (S (S (S (S (S (S (S (S (S
    O))))))))))))))))))))))))))))) :: ((S (S (S (S (S (S (S (S (S (S (S (S
    O)))))))))))) :: ((S (S (S (S (S (S (S (S (S (S (S (S (S (S (S (S (S (S
    (S (S (S (S (S (S (S (S (S (S O)))))))))))))))))))))))))))) :: ((S (S (S
    (S (S (S (S (S (S (S (S (S (S (S (S (S (S O))))))))))))))))) :: ((S
    O) :: ((S (S (S (S (S (S (S (S (S (S (S (S (S (S (S
    O))))))))))))))) :: ((S (S (S (S (S (S (S (S (S (S (S (S (S (S (S (S (S
    (S (S (S (S (S (S O))))))))))))))))))))))) :: ((S (S (S (S (S (S (S (S (S
    (S (S (S (S (S (S (S (S (S (S (S (S (S (S (S (S (S
    O)))))))))))))))))))))))))) :: ((S (S (S (S (S O))))) :: ((S (S (S (S (S
    (S (S (S (S (S (S (S (S (S (S (S (S (S O)))))))))))))))))) :: ((S (S (S
    (S (S (S (S (S (S (S (S (S (S (S (S (S (S (S (S (S (S (S (S (S (S (S (S
    (S (S (S (S O))))))))))))))))))))))))))))))) :: ((S (S (S (S (S (S (S (S
    (S (S O)))))))))) :: ((S (S O)) :: ((S (S (S (S (S (S (S (S
    O)))))))) :: ((S (S (S (S (S (S (S (S (S (S (S (S (S (S (S (S (S (S (S (S
    (S (S (S (S O)))))))))))))))))))))))) :: ((S (S (S (S (S (S (S (S (S (S
    (S (S (S (S O)))))))))))))) :: ((S (S (S (S (S (S (S (S (S (S (S (S (S (S
    (S (S (S (S (S (S (S (S (S (S (S (S (S (S (S (S (S (S
    O)))))))))))))))))))))))))))))))) :: ((S (S (S (S (S (S (S (S (S (S (S (S
    (S (S (S (S (S (S (S (S (S (S (S (S (S (S (S
    O))))))))))))))))))))))))))) :: ((S (S (S O))) :: ((S (S (S (S (S (S (S
    (S (S O))))))))) :: ((S (S (S (S (S (S (S (S (S (S (S (S (S (S (S (S (S
    (S (S O))))))))))))))))))) :: ((S (S (S (S (S (S (S (S (S (S (S (S (S
    O))))))))))))) :: ((S (S (S (S (S (S (S (S (S (S (S (S (S (S (S (S (S (S
    (S (S (S (S (S (S (S (S (S (S (S (S
    O)))))))))))))))))))))))))))))) :: ((S (S (S (S (S (S O)))))) :: ((S (S
    (S (S (S (S (S (S (S (S (S (S (S (S (S (S (S (S (S (S (S (S
    O)))))))))))))))))))))) :: ((S (S (S (S (S (S (S (S (S (S (S
    O))))))))))) :: ((S (S (S (S O)))) :: ((S (S (S (S (S (S (S (S (S (S (S
    (S (S (S (S (S (S (S (S (S (S (S (S (S (S
    O))))))))))))))))))))))))) :: [])))))))))))))))))))))))))))))))

(** val des_PC1 : nat list **)

let des_PC1 =
  (S (S (S (S (S (S (S (S (S (S (S (S (S (S (S (S (S (S (S (S (S (S (S (S (S
    (S (S (S (S (S (S (S (S (S (S (S (S (S (S (S (S (S (S (S (S (S (S (S (S
    (S (S (S (S (S (S (S (S
    O))))))))))))))))))))))))))))))))))))))))))))))))))))))))) :: ((S (S (S
    (S (S (S (S (S (S (S (S (S (S (S (S (S (S (S (S (S (S (S (S (S (S (S (S
    (S (S (S (S (S (S (S (S (S (S (S (S (S (S (S (S (S (S (S (S (S (S
    O))))))))))))))))))))))))))))))))))))))))))))))))) :: ((S (S (S (S (S (S
    (S (S (S (S (S (S (S (S (S (S (S (S (S (S (S (S (S (S (S (S (S (S (S (S
    (S (S (S (S (S (S (S (S (S (S (S
    O))))))))))))))))))))))))))))))))))))))))) :: ((S (S (S (S (S (S (S (S (S
    (S (S (S (S (S (S (S (S (S (S (S (S (S (S (S (S (S (S (S (S (S (S (S (S
    O))))))))))))))))))))))))))))))))) :: ((S (S (S (S (S (S (S (S (S (S (S
    (S (S (S (S (S (S (S (S (S (S (S (S (S (S
    O))))))))))))))))))))))))) :: ((S (S (S (S (S (S (S (S (S (S (S (S (S (S
    (S (S (S O))))))))))))))))) :: ((S (S (S (S (S (S (S (S (S
    O))))))))) :: ((S O) :: ((S (S (S (S (S (S (S (S (S (S (S (S (S (S (S (S
    (S (S (S (S (S (S (S (S (S (S (S (S (S (S (S (S (S (S (S (S (S (S (S (S
    (S (S (S (S (S (S (S (S (S (S (S (S (S (S (S (S (S (S
    O)))))))))))))))))))))))))))))))))))))))))))))))))))))))))) :: ((S (S (S
    (S (S (S (S (S (S (S (S (S (S (S (S (S (S (S (S (S (S (S (S (S (S (S (S
    (S (S (S (S (S (S (S (S (S (S (S (S (S (S (S (S (S (S (S (S (S (S (S
    O)))))))))))))))))))))))))))))))))))))))))))))))))) :: ((S (S (S (S (S (S
    (S (S (S (S (S (S (S (S (S (S (S (S (S (S (S (S (S (S (S (S (S (S (S (S
    (S (S (S (S (S (S (S (S (S (S (S (S
    O)))))))))))))))))))))))))))))))))))))))))) :: ((S (S (S (S (S (S (S (S
    (S (S (S (S (S (S (S (S (S (S (S (S (S (S (S (S (S (S (S (S (S (S (S (S
    (S (S O)))))))))))))))))))))))))))))))))) :: ((S (S (S (S (S (S (S (S (S
    (S (S (S (S (S (S (S (S (S (S (S (S (S (S (S (S (S
    O)))))))))))))))))))))))))) :: ((S (S (S (S (S (S (S (S (S (S (S (S (S (S
    (S (S (S (S O)))))))))))))))))) :: ((S (S (S (S (S (S (S (S (S (S
    O)))))))))) :: ((S (S O)) :: ((S (S (S (S (S (S (S (S (S (S (S (S (S (S
    (S (S (S (S (S (S (S (S (S (S (S (S (S (S (S (S (S (S (S (S (S (S (S (S
    (S (S (S (S (S (S (S (S (S (S (S (S (S (S (S (S (S (S (S (S (S
    O))))))))))))))))))))))))))))))))))))))))))))))))))))))))))) :: ((S (S (S
    (S (S (S (S (S (S (S (S (S (S (S (S (S (S (S (S (S (S (S (S (S (S (S (S
    (S (S (S (S (S (S (S (S (S (S (S (S (S (S (S (S (S (S (S (S (S (S (S (S
    O))))))))))))))))))))))))))))))))))))))))))))))))))) :: ((S (S (S (S (S
    (S (S (S (S (S (S (S (S (S (S (S (S (S (S (S (S (S (S (S (S (S (S (S (S
    (S (S (S (S (S (S (S (S (S (S (S (S (S (S
    O))))))))))))))))))))))))))))))))))))))))))) :: ((S (S (S (S (S (S (S (S
    (S (S (S (S (S (S (S (S (S (S (S (S (S (S (S (S (S (S (S (S (S (S (S (S
    (S (S (S O))))))))))))))))))))))))))))))))))) :: ((S (S (S (S (S (S (S (S
    (S (S (S (S (S (S (S (S (S (S (S (S (S (S (S (S (S (S (S
    O))))))))))))))))))))))))))) :: ((S (S (S (S (S (S (S (S (S (S (S (S (S
    (S (S (S (S (S (S O))))))))))))))))))) :: ((S (S (S (S (S (S (S (S (S (S
    (S O))))))))))) :: ((S (S (S O))) :: ((S (S (S (S (S (S (S (S (S (S (S (S
    (S (S (S (S (S (S (S (S (S (S (S (S (S (S (S (S (S (S (S (S (S (S (S (S
    (S (S (S (S (S (S (S (S (S (S (S (S (S (S (S (S (S (S (S (S (S (S (S (S
    O)))))))))))))))))))))))))))))))))))))))))))))))))))))))))))) :: ((S (S
    (S (S (S (S (S (S (S (S (S (S (S (S (S (S (S (S (S (S (S (S (S (S (S (S
    (S (S (S (S (S (S (S (S (S (S (S (S (S (S (S (S (S (S (S (S (S (S (S (S
    (S (S O)))))))))))))))))))))))))))))))))))))))))))))))))))) :: ((S (S (S
    (S (S (S (S (S (S (S (S (S (S (S (S (S (S (S (S (S (S (S (S (S (S (S (S
    (S (S (S (S (S (S (S (S (S (S (S (S (S (S (S (S (S
    O)))))))))))))))))))))))))))))))))))))))))))) :: ((S (S (S (S (S (S (S (S
    (S (S (S (S (S (S (S (S (S (S (S (S (S (S (S (S (S (S (S (S (S (S (S (S
    (S (S (S (S O)))))))))))))))))))))))))))))))))))) :: ((S (S (S (S (S (S
    (S (S (S (S (S (S (S (S (S (S (S (S (S (S (S (S (S (S (S (S (S (S (S (S
    (S (S (S (S (S (S (S (S (S (S (S (S (S (S (S (S (S (S (S (S (S (S (S (S
    (S (S (S (S (S (S (S (S (S
    O))))))))))))))))))))))))))))))))))))))))))))))))))))))))))))))) :: ((S
    (S (S (S (S (S (S (S (S (S (S (S (S (S (S (S (S (S (S (S (S (S (S (S (S
    (S (S (S (S (S (S (S (S (S (S (S (S (S (S (S (S (S (S (S (S (S (S (S (S
    (S (S (S (S (S (S
    O))))))))))))))))))))))))))))))))))))))))))))))))))))))) :: ((S (S (S (S
    (S (S (S (S (S (S (S (S (S (S (S (S (S (S (S (S (S (S (S (S (S (S (S (S
    (S (S (S (S (S (S (S (S (S (S (S (S (S (S (S (S (S (S (S
    O))))))))))))))))))))))))))))))))))))))))))))))) :: ((S (S (S (S (S (S (S
    (S (S (S (S (S (S (S (S (S (S (S (S (S (S (S (S (S (S (S (S (S (S (S (S
    (S (S (S (S (S (S (S (S O))))))))))))))))))))))))))))))))))))))) :: ((S
    (S (S (S (S (S (S (S (S (S (S (S (S (S (S (S (S (S (S (S (S (S (S (S (S
    (S (S (S (S (S (S O))))))))))))))))))))))))))))))) :: ((S (S (S (S (S (S
    (S (S (S (S (S (S (S (S (S (S (S (S (S (S (S (S (S
    O))))))))))))))))))))))) :: ((S (S (S (S (S (S (S (S (S (S (S (S (S (S (S
    O))))))))))))))) :: ((S (S (S (S (S (S (S O))))))) :: ((S (S (S (S (S (S
    (S (S (S (S (S (S (S (S (S (S (S (S (S (S (S (S (S (S (S (S (S (S (S (S
    (S (S (S (S (S (S (S (S (S (S (S (S (S (S (S (S (S (S (S (S (S (S (S (S
    (S (S (S (S (S (S (S (S
    O)))))))))))))))))))))))))))))))))))))))))))))))))))))))))))))) :: ((S (S
    (S (S (S (S (S (S (S (S (S (S (S (S (S (S (S (S (S (S (S (S (S (S (S (S
    (S (S (S (S (S (S (S (S (S (S (S (S (S (S (S (S (S (S (S (S (S (S (S (S
    (S (S (S (S
    O)))))))))))))))))))))))))))))))))))))))))))))))))))))) :: ((S (S (S (S
    (S (S (S (S (S (S (S (S (S (S (S (S (S (S (S (S (S (S (S (S (S (S (S (S
    (S (S (S (S (S (S (S (S (S (S (S (S (S (S (S (S (S (S
    O)))))))))))))))))))))))))))))))))))))))))))))) :: ((S (S (S (S (S (S (S
    (S (S (S (S (S (S (S (S (S (S (S (S (S (S (S (S (S (S (S (S (S (S (S (S
    (S (S (S (S (S (S (S O)))))))))))))))))))))))))))))))))))))) :: ((S (S (S
    (S (S (S (S (S (S (S (S (S (S (S (S (S (S (S (S (S (S (S (S (S (S (S (S
    (S (S (S O)))))))))))))))))))))))))))))) :: ((S (S (S (S (S (S (S (S (S
    (S (S (S (S (S (S (S (S (S (S (S (S (S O)))))))))))))))))))))) :: ((S (S
    (S (S (S (S (S (S (S (S (S (S (S (S O)))))))))))))) :: ((S (S (S (S (S (S
    O)))))) :: ((S (S (S (S (S (S (S (S (S (S (S (S (S (S (S (S (S (S (S (S
    (S (S (S (S (S (S (S (S (S (S (S (S (S (S (S (S (S (S (S (S (S (S (S (S
    (S (S (S (S (S (S (S (S (S (S (S (S (S (S (S (S (S
    O))))))))))))))))))))))))))))))))))))))))))))))))))))))))))))) :: ((S (S
    (S (S (S (S (S (S (S (S (S (S (S (S (S (S (S (S (S (S (S (S (S (S (S (S
    (S (S (S (S (S (S (S (S (S (S (S (S (S (S (S (S (S (S (S (S (S (S (S (S
    (S (S (S O))))))))))))))))))))))))))))))))))))))))))))))))))))) :: ((S (S
    (S (S (S (S (S (S (S (S (S (S (S (S (S (S (S (S (S (S (S (S (S (S (S (S
    (S (S (S (S (S (S (S (S (S (S (S (S (S (S (S (S (S (S (S
    O))))))))))))))))))))))))))))))))))))))))))))) :: ((S (S (S (S (S (S (S
    (S (S (S (S (S (S (S (S (S (S (S (S (S (S (S (S (S (S (S (S (S (S (S (S
    (S (S (S (S (S (S O))))))))))))))))))))))))))))))))))))) :: ((S (S (S (S
    (S (S (S (S (S (S (S (S (S (S (S (S (S (S (S (S (S (S (S (S (S (S (S (S
    (S O))))))))))))))))))))))))))))) :: ((S (S (S (S (S (S (S (S (S (S (S (S
    (S (S (S (S (S (S (S (S (S O))))))))))))))))))))) :: ((S (S (S (S (S (S
    (S (S (S (S (S (S (S O))))))))))))) :: ((S (S (S (S (S O))))) :: ((S (S
    (S (S (S (S (S (S (S (S (S (S (S (S (S (S (S (S (S (S (S (S (S (S (S (S
    (S (S O)))))))))))))))))))))))))))) :: ((S (S (S (S (S (S (S (S (S (S (S
    (S (S (S (S (S (S (S (S (S O)))))))))))))))))))) :: ((S (S (S (S (S (S (S
    (S (S (S (S (S O)))))))))))) :: ((S (S (S (S
    O)))) :: [])))))))))))))))))))))))))))))))))))))))))))))))))))))))

(** val des_PC2 : nat list **)

let des_PC2 =
  (S (S (S (S (S (S (S (S (S (S (S (S (S (S O)))))))))))))) :: ((S (S (S (S
    (S (S (S (S (S (S (S (S (S (S (S (S (S O))))))))))))))))) :: ((S (S (S (S
    (S (S (S (S (S (S (S O))))))))))) :: ((S (S (S (S (S (S (S (S (S (S (S (S
    (S (S (S (S (S (S (S (S (S (S (S (S O)))))))))))))))))))))))) :: ((S
    O) :: ((S (S (S (S (S O))))) :: ((S (S (S O))) :: ((S (S (S (S (S (S (S
    (S (S (S (S (S (S (S (S (S (S (S (S (S (S (S (S (S (S (S (S (S
    O)))))))))))))))))))))))))))) :: ((S (S (S (S (S (S (S (S (S (S (S (S (S
    (S (S O))))))))))))))) :: ((S (S (S (S (S (S O)))))) :: ((S (S (S (S (S
    (S (S (S (S (S (S (S (S (S (S (S (S (S (S (S (S
    O))))))))))))))))))))) :: ((S (S (S (S (S (S (S (S (S (S
    O)))))))))) :: ((S (S (S (S (S (S (S (S (S (S (S (S (S (S (S (S (S (S (S
    (S (S (S (S O))))))))))))))))))))))) :: ((S (S (S (S (S (S (S (S (S (S (S
    (S (S (S (S (S (S (S (S O))))))))))))))))))) :: ((S (S (S (S (S (S (S (S
    (S (S (S (S O)))))))))))) :: ((S (S (S (S O)))) :: ((S (S (S (S (S (S (S
    (S (S (S (S (S (S (S (S (S (S (S (S (S (S (S (S (S (S (S
    O)))))))))))))))))))))))))) :: ((S (S (S (S (S (S (S (S O)))))))) :: ((S
    (S (S (S (S (S (S (S (S (S (S (S (S (S (S (S O)))))))))))))))) :: ((S (S
    (S (S (S (S (S O))))))) :: ((S (S (S (S (S (S (S (S (S (S (S (S (S (S (S
    (S (S (S (S (S (S (S (S (S (S (S (S O))))))))))))))))))))))))))) :: ((S
    (S (S (S (S (S (S (S (S (S (S (S (S (S (S (S (S (S (S (S
    O)))))))))))))))))))) :: ((S (S (S (S (S (S (S (S (S (S (S (S (S
    O))))))))))))) :: ((S (S O)) :: ((S (S (S (S (S (S (S (S (S (S (S (S (S
    (S (S (S (S (S (S (S (S (S (S (S (S (S (S (S (S (S (S (S (S (S (S (S (S
    (S (S (S (S O))))))))))))))))))))))))))))))))))))))))) :: ((S (S (S (S (S
    (S (S (S (S (S (S (S (S (S (S (S (S (S (S (S (S (S (S (S (S (S (S (S (S
    (S (S (S (S (S (S (S (S (S (S (S (S (S (S (S (S (S (S (S (S (S (S (S
    O)))))))))))))))))))))))))))))))))))))))))))))))))))) :: ((S (S (S (S (S
    (S (S (S (S (S (S (S (S (S (S (S (S (S (S (S (S (S (S (S (S (S (S (S (S
    (S (S O))))))))))))))))))))))))))))))) :: ((S (S (S (S (S (S (S (S (S (S
    (S (S (S (S (S (S (S (S (S (S (S (S (S (S (S (S (S (S (S (S (S (S (S (S
    (S (S (S O))))))))))))))))))))))))))))))))))))) :: ((S (S (S (S (S (S (S
    (S (S (S (S (S (S (S (S (S (S (S (S (S (S (S (S (S (S (S (S (S (S (S (S
    (S (S (S (S (S (S (S (S (S (S (S (S (S (S (S (S
    O))))))))))))))))))))))))))))))))))))))))))))))) :: ((S (S (S (S (S (S (S
    (S (S (S (S (S (S (S (S (S (S (S (S (S (S (S (S (S (S (S (S (S (S (S (S
    (S (S (S (S (S (S (S (S (S (S (S (S (S (S (S (S (S (S (S (S (S (S (S (S
    O))))))))))))))))))))))))))))))))))))))))))))))))))))))) :: ((S (S (S (S
    (S (S (S (S (S (S (S (S (S (S (S (S (S (S (S (S (S (S (S (S (S (S (S (S
    (S (S O)))))))))))))))))))))))))))))) :: ((S (S (S (S (S (S (S (S (S (S
    (S (S (S (S (S (S (S (S (S (S (S (S (S (S (S (S (S (S (S (S (S (S (S (S
    (S (S (S (S (S (S O)))))))))))))))))))))))))))))))))))))))) :: ((S (S (S
    (S (S (S (S (S (S (S (S (S (S (S (S (S (S (S (S (S (S (S (S (S (S (S (S
    (S (S (S (S (S (S (S (S (S (S (S (S (S (S (S (S (S (S (S (S (S (S (S (S
    O))))))))))))))))))))))))))))))))))))))))))))))))))) :: ((S (S (S (S (S
    (S (S (S (S (S (S (S (S (S (S (S (S (S (S (S (S (S (S (S (S (S (S (S (S
    (S (S (S (S (S (S (S (S (S (S (S (S (S (S (S (S
    O))))))))))))))))))))))))))))))))))))))))))))) :: ((S (S (S (S (S (S (S
    (S (S (S (S (S (S (S (S (S (S (S (S (S (S (S (S (S (S (S (S (S (S (S (S
    (S (S O))))))))))))))))))))))))))))))))) :: ((S (S (S (S (S (S (S (S (S
    (S (S (S (S (S (S (S (S (S (S (S (S (S (S (S (S (S (S (S (S (S (S (S (S
    (S (S (S (S (S (S (S (S (S (S (S (S (S (S (S
    O)))))))))))))))))))))))))))))))))))))))))))))))) :: ((S (S (S (S (S (S
    (S (S (S (S (S (S (S (S (S (S (S (S (S (S (S (S (S (S (S (S (S (S (S (S
    (S (S (S (S (S (S (S (S (S (S (S (S (S (S
    O)))))))))))))))))))))))))))))))))))))))))))) :: ((S (S (S (S (S (S (S (S
    (S (S (S (S (S (S (S (S (S (S (S (S (S (S (S (S (S (S (S (S (S (S (S (S
    (S (S (S (S (S (S (S (S (S (S (S (S (S (S (S (S (S
    O))))))))))))))))))))))))))))))))))))))))))))))))) :: ((S (S (S (S (S (S
    (S (S (S (S (S (S (S (S (S (S (S (S (S (S (S (S (S (S (S (S (S (S (S (S
    (S (S (S (S (S (S (S (S (S
    O))))))))))))))))))))))))))))))))))))))) :: ((S (S (S (S (S (S (S (S (S
    (S (S (S (S (S (S (S (S (S (S (S (S (S (S (S (S (S (S (S (S (S (S (S (S
    (S (S (S (S (S (S (S (S (S (S (S (S (S (S (S (S (S (S (S (S (S (S (S
    O)))))))))))))))))))))))))))))))))))))))))))))))))))))))) :: ((S (S (S (S
    (S (S (S (S (S (S (S (S (S (S (S (S (S (S (S (S (S (S (S (S (S (S (S (S
    (S (S (S (S (S (S O)))))))))))))))))))))))))))))))))) :: ((S (S (S (S (S
    (S (S (S (S (S (S (S (S (S (S (S (S (S (S (S (S (S (S (S (S (S (S (S (S
    (S (S (S (S (S (S (S (S (S (S (S (S (S (S (S (S (S (S (S (S (S (S (S (S
    O))))))))))))))))))))))))))))))))))))))))))))))))))))) :: ((S (S (S (S (S
    (S (S (S (S (S (S (S (S (S (S (S (S (S (S (S (S (S (S (S (S (S (S (S (S
    (S (S (S (S (S (S (S (S (S (S (S (S (S (S (S (S (S
    O)))))))))))))))))))))))))))))))))))))))))))))) :: ((S (S (S (S (S (S (S
    (S (S (S (S (S (S (S (S (S (S (S (S (S (S (S (S (S (S (S (S (S (S (S (S
    (S (S (S (S (S (S (S (S (S (S (S
    O)))))))))))))))))))))))))))))))))))))))))) :: ((S (S (S (S (S (S (S (S
    (S (S (S (S (S (S (S (S (S (S (S (S (S (S (S (S (S (S (S (S (S (S (S (S
    (S (S (S (S (S (S (S (S (S (S (S (S (S (S (S (S (S (S
    O)))))))))))))))))))))))))))))))))))))))))))))))))) :: ((S (S (S (S (S (S
    (S (S (S (S (S (S (S (S (S (S (S (S (S (S (S (S (S (S (S (S (S (S (S (S
    (S (S (S (S (S (S O)))))))))))))))))))))))))))))))))))) :: ((S (S (S (S
    (S (S (S (S (S (S (S (S (S (S (S (S (S (S (S (S (S (S (S (S (S (S (S (S
    (S O))))))))))))))))))))))))))))) :: ((S (S (S (S (S (S (S (S (S (S (S (S
    (S (S (S (S (S (S (S (S (S (S (S (S (S (S (S (S (S (S (S (S
    O)))))))))))))))))))))))))))))))) :: [])))))))))))))))))))))))))))))))))))))))))))))))

(** val des_shifts : nat list **)

let des_shifts =
  (S O) :: ((S O) :: ((S (S O)) :: ((S (S O)) :: ((S (S O)) :: ((S (S
    O)) :: ((S (S O)) :: ((S (S O)) :: ((S O) :: ((S (S O)) :: ((S (S
    O)) :: ((S (S O)) :: ((S (S O)) :: ((S (S O)) :: ((S (S O)) :: ((S
    O) :: [])))))))))))))))

(** val des_S1 : n list **)

let des_S1 =
  (Npos (XO (XI (XI XH)))) :: ((Npos (XO (XO XH))) :: ((Npos (XI (XO (XI
    XH)))) :: ((Npos XH) :: ((Npos (XO XH)) :: ((Npos (XI (XI (XI
    XH)))) :: ((Npos (XI (XI (XO XH)))) :: ((Npos (XO (XO (XO
    XH)))) :: ((Npos (XI XH)) :: ((Npos (XO (XI (XO XH)))) :: ((Npos (XO (XI
    XH))) :: ((Npos (XO (XO (XI XH)))) :: ((Npos (XI (XO XH))) :: ((Npos (XI
    (XO (XO XH)))) :: (N0 :: ((Npos (XI (XI XH))) :: (N0 :: ((Npos (XI (XI
    (XI XH)))) :: ((Npos (XI (XI XH))) :: ((Npos (XO (XO XH))) :: ((Npos (XO
    (XI (XI XH)))) :: ((Npos (XO XH)) :: ((Npos (XI (XO (XI XH)))) :: ((Npos
    XH) :: ((Npos (XO (XI (XO XH)))) :: ((Npos (XO (XI XH))) :: ((Npos (XO
    (XO (XI XH)))) :: ((Npos (XI (XI (XO XH)))) :: ((Npos (XI (XO (XO
    XH)))) :: ((Npos (XI (XO XH))) :: ((Npos (XI XH)) :: ((Npos (XO (XO (XO
    XH)))) :: ((Npos (XO (XO XH))) :: ((Npos XH) :: ((Npos (XO (XI (XI
    XH)))) :: ((Npos (XO (XO (XO XH)))) :: ((Npos (XI (XO (XI
    XH)))) :: ((Npos (XO (XI XH))) :: ((Npos (XO XH)) :: ((Npos (XI (XI (XO
    XH)))) :: ((Npos (XI (XI (XI XH)))) :: ((Npos (XO (XO (XI
    XH)))) :: ((Npos (XI (XO (XO XH)))) :: ((Npos (XI (XI XH))) :: ((Npos (XI
    XH)) :: ((Npos (XO (XI (XO XH)))) :: ((Npos (XI (XO
    XH))) :: (N0 :: ((Npos (XI (XI (XI XH)))) :: ((Npos (XO (XO (XI
    XH)))) :: ((Npos (XO (XO (XO XH)))) :: ((Npos (XO XH)) :: ((Npos (XO (XO
    XH))) :: ((Npos (XI (XO (XO XH)))) :: ((Npos XH) :: ((Npos (XI (XI
    XH))) :: ((Npos (XI (XO XH))) :: ((Npos (XI (XI (XO XH)))) :: ((Npos (XI
    XH)) :: ((Npos (XO (XI (XI XH)))) :: ((Npos (XO (XI (XO
    XH)))) :: (N0 :: ((Npos (XO (XI XH))) :: ((Npos (XI (XO (XI
    XH)))) :: [])))))))))))))))))))))))))))))))))))))))))))))))))))))))))))))))

(** val des_S2 : n list **)

let des_S2 =
  (Npos (XI (XI (XI XH)))) :: ((Npos XH) :: ((Npos (XO (XO (XO
    XH)))) :: ((Npos (XO (XI (XI XH)))) :: ((Npos (XO (XI XH))) :: ((Npos (XI
    (XI (XO XH)))) :: ((Npos (XI XH)) :: ((Npos (XO (XO XH))) :: ((Npos (XI
    (XO (XO XH)))) :: ((Npos (XI (XI XH))) :: ((Npos (XO XH)) :: ((Npos (XI
    (XO (XI XH)))) :: ((Npos (XO (XO (XI XH)))) :: (N0 :: ((Npos (XI (XO
    XH))) :: ((Npos (XO (XI (XO XH)))) :: ((Npos (XI XH)) :: ((Npos (XI (XO
    (XI XH)))) :: ((Npos (XO (XO XH))) :: ((Npos (XI (XI XH))) :: ((Npos (XI
    (XI (XI XH)))) :: ((Npos (XO XH)) :: ((Npos (XO (XO (XO XH)))) :: ((Npos
    (XO (XI (XI XH)))) :: ((Npos (XO (XO (XI XH)))) :: (N0 :: ((Npos
    XH) :: ((Npos (XO (XI (XO XH)))) :: ((Npos (XO (XI XH))) :: ((Npos (XI
    (XO (XO XH)))) :: ((Npos (XI (XI (XO XH)))) :: ((Npos (XI (XO
    XH))) :: (N0 :: ((Npos (XO (XI (XI XH)))) :: ((Npos (XI (XI
    XH))) :: ((Npos (XI (XI (XO XH)))) :: ((Npos (XO (XI (XO XH)))) :: ((Npos
    (XO (XO XH))) :: ((Npos (XI (XO (XI XH)))) :: ((Npos XH) :: ((Npos (XI
    (XO XH))) :: ((Npos (XO (XO (XO XH)))) :: ((Npos (XO (XO (XI
    XH)))) :: ((Npos (XO (XI XH))) :: ((Npos (XI (XO (XO XH)))) :: ((Npos (XI
    XH)) :: ((Npos (XO XH)) :: ((Npos (XI (XI (XI XH)))) :: ((Npos (XI (XO
    (XI XH)))) :: ((Npos (XO (XO (XO XH)))) :: ((Npos (XO (XI (XO
    XH)))) :: ((Npos XH) :: ((Npos (XI XH)) :: ((Npos (XI (XI (XI
    XH)))) :: ((Npos (XO (XO XH))) :: ((Npos (XO XH)) :: ((Npos (XI (XI (XO
    XH)))) :: ((Npos (XO (XI XH))) :: ((Npos (XI (XI XH))) :: ((Npos (XO (XO
    (XI XH)))) :: (N0 :: ((Npos (XI (XO XH))) :: ((Npos (XO (XI (XI
    XH)))) :: ((Npos (XI (XO (XO
    XH)))) :: [])))))))))))))))))))))))))))))))))))))))))))))))))))))))))))))))

(** val des_S3 : n list **)

let des_S3 =
  (Npos (XO (XI (XO XH)))) :: (N0 :: ((Npos (XI (XO (XO XH)))) :: ((Npos (XO
    (XI (XI XH)))) :: ((Npos (XO (XI XH))) :: ((Npos (XI XH)) :: ((Npos (XI
    (XI (XI XH)))) :: ((Npos (XI (XO XH))) :: ((Npos XH) :: ((Npos (XI (XO
    (XI XH)))) :: ((Npos (XO (XO (XI XH)))) :: ((Npos (XI (XI XH))) :: ((Npos
    (XI (XI (XO XH)))) :: ((Npos (XO (XO XH))) :: ((Npos (XO XH)) :: ((Npos
    (XO (XO (XO XH)))) :: ((Npos (XI (XO (XI XH)))) :: ((Npos (XI (XI
    XH))) :: (N0 :: ((Npos (XI (XO (XO XH)))) :: ((Npos (XI XH)) :: ((Npos
    (XO (XO XH))) :: ((Npos (XO (XI XH))) :: ((Npos (XO (XI (XO
    XH)))) :: ((Npos (XO XH)) :: ((Npos (XO (XO (XO XH)))) :: ((Npos (XI (XO
    XH))) :: ((Npos (XO (XI (XI XH)))) :: ((Npos (XO (XO (XI XH)))) :: ((Npos
    (XI (XI (XO XH)))) :: ((Npos (XI (XI (XI XH)))) :: ((Npos XH) :: ((Npos
    (XI (XO (XI XH)))) :: ((Npos (XO (XI XH))) :: ((Npos (XO (XO
    XH))) :: ((Npos (XI (XO (XO XH)))) :: ((Npos (XO (XO (XO XH)))) :: ((Npos
    (XI (XI (XI XH)))) :: ((Npos (XI XH)) :: (N0 :: ((Npos (XI (XI (XO
    XH)))) :: ((Npos XH) :: ((Npos (XO XH)) :: ((Npos (XO (XO (XI
    XH)))) :: ((Npos (XI (XO XH))) :: ((Npos (XO (XI (XO XH)))) :: ((Npos (XO
    (XI (XI XH)))) :: ((Npos (XI (XI XH))) :: ((Npos XH) :: ((Npos (XO (XI
    (XO XH)))) :: ((Npos (XI (XO (XI XH)))) :: (N0 :: ((Npos (XO (XI
    XH))) :: ((Npos (XI (XO (XO XH)))) :: ((Npos (XO (XO (XO XH)))) :: ((Npos
    (XI (XI XH))) :: ((Npos (XO (XO XH))) :: ((Npos (XI (XI (XI
    XH)))) :: ((Npos (XO (XI (XI XH)))) :: ((Npos (XI XH)) :: ((Npos (XI (XI
    (XO XH)))) :: ((Npos (XI (XO XH))) :: ((Npos (XO XH)) :: ((Npos (XO (XO
    (XI
    XH)))) :: [])))))))))))))))))))))))))))))))))))))))))))))))))))))))))))))))

(** val des_S4 : n list **)

let des_S4 =
  (Npos (XI (XI XH))) :: ((Npos (XI (XO (XI XH)))) :: ((Npos (XO (XI (XI
    XH)))) :: ((Npos (XI XH)) :: (N0 :: ((Npos (XO (XI XH))) :: ((Npos (XI
    (XO (XO XH)))) :: ((Npos (XO (XI (XO XH)))) :: ((Npos XH) :: ((Npos (XO
    XH)) :: ((Npos (XO (XO (XO XH)))) :: ((Npos (XI (XO XH))) :: ((Npos (XI
    (XI (XO XH)))) :: ((Npos (XO (XO (XI XH)))) :: ((Npos (XO (XO
    XH))) :: ((Npos (XI (XI (XI XH)))) :: ((Npos (XI (XO (XI XH)))) :: ((Npos
    (XO (XO (XO XH)))) :: ((Npos (XI (XI (XO XH)))) :: ((Npos (XI (XO
    XH))) :: ((Npos (XO (XI XH))) :: ((Npos (XI (XI (XI
    XH)))) :: (N0 :: ((Npos (XI XH)) :: ((Npos (XO (XO XH))) :: ((Npos (XI
    (XI XH))) :: ((Npos (XO XH)) :: ((Npos (XO (XO (XI XH)))) :: ((Npos
    XH) :: ((Npos (XO (XI (XO XH)))) :: ((Npos (XO (XI (XI XH)))) :: ((Npos
    (XI (XO (XO XH)))) :: ((Npos (XO (XI (XO XH)))) :: ((Npos (XO (XI
    XH))) :: ((Npos (XI (XO (XO XH)))) :: (N0 :: ((Npos (XO (XO (XI
    XH)))) :: ((Npos (XI (XI (XO XH)))) :: ((Npos (XI (XI XH))) :: ((Npos (XI
    (XO (XI XH)))) :: ((Npos (XI (XI (XI XH)))) :: ((Npos XH) :: ((Npos (XI
    XH)) :: ((Npos (XO (XI (XI XH)))) :: ((Npos (XI (XO XH))) :: ((Npos (XO
    XH)) :: ((Npos (XO (XO (XO XH)))) :: ((Npos (XO (XO XH))) :: ((Npos (XI
    XH)) :: ((Npos (XI (XI (XI XH)))) :: (N0 :: ((Npos (XO (XI
    XH))) :: ((Npos (XO (XI (XO XH)))) :: ((Npos XH) :: ((Npos (XI (XO (XI
    XH)))) :: ((Npos (XO (XO (XO XH)))) :: ((Npos (XI (XO (XO
    XH)))) :: ((Npos (XO (XO XH))) :: ((Npos (XI (XO XH))) :: ((Npos (XI (XI
    (XO XH)))) :: ((Npos (XO (XO (XI XH)))) :: ((Npos (XI (XI XH))) :: ((Npos
    (XO XH)) :: ((Npos (XO (XI (XI
    XH)))) :: [])))))))))))))))))))))))))))))))))))))))))))))))))))))))))))))))

(** val des_S5 : n list **)

let des_S5 =
  (Npos (XO XH)) :: ((Npos (XO (XO (XI XH)))) :: ((Npos (XO (XO
    XH))) :: ((Npos XH) :: ((Npos (XI (XI XH))) :: ((Npos (XO (XI (XO
    XH)))) :: ((Npos (XI (XI (XO XH)))) :: ((Npos (XO (XI XH))) :: ((Npos (XO
    (XO (XO XH)))) :: ((Npos (XI (XO XH))) :: ((Npos (XI XH)) :: ((Npos (XI
    (XI (XI XH)))) :: ((Npos (XI (XO (XI XH)))) :: (N0 :: ((Npos (XO (XI (XI
    XH)))) :: ((Npos (XI (XO (XO XH)))) :: ((Npos (XO (XI (XI
    XH)))) :: ((Npos (XI (XI (XO XH)))) :: ((Npos (XO XH)) :: ((Npos (XO (XO
    (XI XH)))) :: ((Npos (XO (XO XH))) :: ((Npos (XI (XI XH))) :: ((Npos (XI
    (XO (XI XH)))) :: ((Npos XH) :: ((Npos (XI (XO XH))) :: (N0 :: ((Npos (XI
    (XI (XI XH)))) :: ((Npos (XO (XI (XO XH)))) :: ((Npos (XI XH)) :: ((Npos
    (XI (XO (XO XH)))) :: ((Npos (XO (XO (XO XH)))) :: ((Npos (XO (XI
    XH))) :: ((Npos (XO (XO XH))) :: ((Npos (XO XH)) :: ((Npos XH) :: ((Npos
    (XI (XI (XO XH)))) :: ((Npos (XO (XI (XO XH)))) :: ((Npos (XI (XO (XI
    XH)))) :: ((Npos (XI (XI XH))) :: ((Npos (XO (XO (XO XH)))) :: ((Npos (XI
    (XI (XI XH)))) :: ((Npos (XI (XO (XO XH)))) :: ((Npos (XO (XO (XI
    XH)))) :: ((Npos (XI (XO XH))) :: ((Npos (XO (XI XH))) :: ((Npos (XI
    XH)) :: (N0 :: ((Npos (XO (XI (XI XH)))) :: ((Npos (XI (XI (XO
    XH)))) :: ((Npos (XO (XO (XO XH)))) :: ((Npos (XO (XO (XI
    XH)))) :: ((Npos (XI (XI XH))) :: ((Npos XH) :: ((Npos (XO (XI (XI
    XH)))) :: ((Npos (XO XH)) :: ((Npos (XI (XO (XI XH)))) :: ((Npos (XO (XI
    XH))) :: ((Npos (XI (XI (XI XH)))) :: (N0 :: ((Npos (XI (XO (XO
    XH)))) :: ((Npos (XO (XI (XO XH)))) :: ((Npos (XO (XO XH))) :: ((Npos (XI
    (XO XH))) :: ((Npos (XI
    XH)) :: [])))))))))))))))))))))))))))))))))))))))))))))))))))))))))))))))

(** val des_S6 : n list **)

let des_S6 =
  (Npos (XO (XO (XI XH)))) :: ((Npos XH) :: ((Npos (XO (XI (XO
    XH)))) :: ((Npos (XI (XI (XI XH)))) :: ((Npos (XI (XO (XO
    XH)))) :: ((Npos (XO XH)) :: ((Npos (XO (XI XH))) :: ((Npos (XO (XO (XO
    XH)))) :: (N0 :: ((Npos (XI (XO (XI XH)))) :: ((Npos (XI XH)) :: ((Npos
    (XO (XO XH))) :: ((Npos (XO (XI (XI XH)))) :: ((Npos (XI (XI
    XH))) :: ((Npos (XI (XO XH))) :: ((Npos (XI (XI (XO XH)))) :: ((Npos (XO
    (XI (XO XH)))) :: ((Npos (XI (XI (XI XH)))) :: ((Npos (XO (XO
    XH))) :: ((Npos (XO XH)) :: ((Npos (XI (XI XH))) :: ((Npos (XO (XO (XI
    XH)))) :: ((Npos (XI (XO (XO XH)))) :: ((Npos (XI (XO XH))) :: ((Npos (XO
    (XI XH))) :: ((Npos XH) :: ((Npos (XI (XO (XI XH)))) :: ((Npos (XO (XI
    (XI XH)))) :: (N0 :: ((Npos (XI (XI (XO XH)))) :: ((Npos (XI
    XH)) :: ((Npos (XO (XO (XO XH)))) :: ((Npos (XI (XO (XO XH)))) :: ((Npos
    (XO (XI (XI XH)))) :: ((Npos (XI (XI (XI XH)))) :: ((Npos (XI (XO
    XH))) :: ((Npos (XO XH)) :: ((Npos (XO (XO (XO XH)))) :: ((Npos (XO (XO
    (XI XH)))) :: ((Npos (XI XH)) :: ((Npos (XI (XI XH))) :: (N0 :: ((Npos
    (XO (XO XH))) :: ((Npos (XO (XI (XO XH)))) :: ((Npos XH) :: ((Npos (XI
    (XO (XI XH)))) :: ((Npos (XI (XI (XO XH)))) :: ((Npos (XO (XI
    XH))) :: ((Npos (XO (XO XH))) :: ((Npos (XI XH)) :: ((Npos (XO
    XH)) :: ((Npos (XO (XO (XI XH)))) :: ((Npos (XI (XO (XO XH)))) :: ((Npos
    (XI (XO XH))) :: ((Npos (XI (XI (XI XH)))) :: ((Npos (XO (XI (XO
    XH)))) :: ((Npos (XI (XI (XO XH)))) :: ((Npos (XO (XI (XI
    XH)))) :: ((Npos XH) :: ((Npos (XI (XI XH))) :: ((Npos (XO (XI
    XH))) :: (N0 :: ((Npos (XO (XO (XO XH)))) :: ((Npos (XI (XO (XI
    XH)))) :: [])))))))))))))))))))))))))))))))))))))))))))))))))))))))))))))))

(** val des_S7 : n list **)

let des_S7 =
  (Npos (XO (XO XH))) :: ((Npos (XI (XI (XO XH)))) :: ((Npos (XO
    XH)) :: ((Npos (XO (XI (XI XH)))) :: ((Npos (XI (XI (XI
    XH)))) :: (N0 :: ((Npos (XO (XO (XO XH)))) :: ((Npos (XI (XO (XI
    XH)))) :: ((Npos (XI XH)) :: ((Npos (XO (XO (XI XH)))) :: ((Npos (XI (XO
    (XO XH)))) :: ((Npos (XI (XI XH))) :: ((Npos (XI (XO XH))) :: ((Npos (XO
    (XI (XO XH)))) :: ((Npos (XO (XI XH))) :: ((Npos XH) :: ((Npos (XI (XO
    (XI XH)))) :: (N0 :: ((Npos (XI (XI (XO XH)))) :: ((Npos (XI (XI
    XH))) :: ((Npos (XO (XO XH))) :: ((Npos (XI (XO (XO XH)))) :: ((Npos
    XH) :: ((Npos (XO (XI (XO XH)))) :: ((Npos (XO (XI (XI XH)))) :: ((Npos
    (XI XH)) :: ((Npos (XI (XO XH))) :: ((Npos (XO (XO (XI XH)))) :: ((Npos
    (XO XH)) :: ((Npos (XI (XI (XI XH)))) :: ((Npos (XO (XO (XO
    XH)))) :: ((Npos (XO (XI XH))) :: ((Npos XH) :: ((Npos (XO (XO
    XH))) :: ((Npos (XI (XI (XO XH)))) :: ((Npos (XI (XO (XI XH)))) :: ((Npos
    (XO (XO (XI XH)))) :: ((Npos (XI XH)) :: ((Npos (XI (XI XH))) :: ((Npos
    (XO (XI (XI XH)))) :: ((Npos (XO (XI (XO XH)))) :: ((Npos (XI (XI (XI
    XH)))) :: ((Npos (XO (XI XH))) :: ((Npos (XO (XO (XO
    XH)))) :: (N0 :: ((Npos (XI (XO XH))) :: ((Npos (XI (XO (XO
    XH)))) :: ((Npos (XO XH)) :: ((Npos (XO (XI XH))) :: ((Npos (XI (XI (XO
    XH)))) :: ((Npos (XI (XO (XI XH)))) :: ((Npos (XO (XO (XO
    XH)))) :: ((Npos XH) :: ((Npos (XO (XO XH))) :: ((Npos (XO (XI (XO
    XH)))) :: ((Npos (XI (XI XH))) :: ((Npos (XI (XO (XO XH)))) :: ((Npos (XI
    (XO XH))) :: (N0 :: ((Npos (XI (XI (XI XH)))) :: ((Npos (XO (XI (XI
    XH)))) :: ((Npos (XO XH)) :: ((Npos (XI XH)) :: ((Npos (XO (XO (XI
    XH)))) :: [])))))))))))))))))))))))))))))))))))))))))))))))))))))))))))))))

(** val des_S8 : n list **)

let des_S8 =
  (Npos (XI (XO (XI XH)))) :: ((Npos (XO XH)) :: ((Npos (XO (XO (XO
    XH)))) :: ((Npos (XO (XO XH))) :: ((Npos (XO (XI XH))) :: ((Npos (XI (XI
    (XI XH)))) :: ((Npos (XI (XI (XO XH)))) :: ((Npos XH) :: ((Npos (XO (XI
    (XO XH)))) :: ((Npos (XI (XO (XO XH)))) :: ((Npos (XI XH)) :: ((Npos (XO
    (XI (XI XH)))) :: ((Npos (XI (XO XH))) :: (N0 :: ((Npos (XO (XO (XI
    XH)))) :: ((Npos (XI (XI XH))) :: ((Npos XH) :: ((Npos (XI (XI (XI
    XH)))) :: ((Npos (XI (XO (XI XH)))) :: ((Npos (XO (XO (XO
    XH)))) :: ((Npos (XO (XI (XO XH)))) :: ((Npos (XI XH)) :: ((Npos (XI (XI
    XH))) :: ((Npos (XO (XO XH))) :: ((Npos (XO (XO (XI XH)))) :: ((Npos (XI
    (XO XH))) :: ((Npos (XO (XI XH))) :: ((Npos (XI (XI (XO
    XH)))) :: (N0 :: ((Npos (XO (XI (XI XH)))) :: ((Npos (XI (XO (XO
    XH)))) :: ((Npos (XO XH)) :: ((Npos (XI (XI XH))) :: ((Npos (XI (XI (XO
    XH)))) :: ((Npos (XO (XO XH))) :: ((Npos XH) :: ((Npos (XI (XO (XO
    XH)))) :: ((Npos (XO (XO (XI XH)))) :: ((Npos (XO (XI (XI
    XH)))) :: ((Npos (XO XH)) :: (N0 :: ((Npos (XO (XI XH))) :: ((Npos (XO
    (XI (XO XH)))) :: ((Npos (XI (XO (XI XH)))) :: ((Npos (XI (XI (XI
    XH)))) :: ((Npos (XI XH)) :: ((Npos (XI (XO XH))) :: ((Npos (XO (XO (XO
    XH)))) :: ((Npos (XO XH)) :: ((Npos XH) :: ((Npos (XO (XI (XI
    XH)))) :: ((Npos (XI (XI XH))) :: ((Npos (XO (XO XH))) :: ((Npos (XO (XI
    (XO XH)))) :: ((Npos (XO (XO (XO XH)))) :: ((Npos (XI (XO (XI
    XH)))) :: ((Npos (XI (XI (XI XH)))) :: ((Npos (XO (XO (XI
    XH)))) :: ((Npos (XI (XO (XO XH)))) :: (N0 :: ((Npos (XI XH)) :: ((Npos
    (XI (XO XH))) :: ((Npos (XO (XI XH))) :: ((Npos (XI (XI (XO
    XH)))) :: [])))))))))))))))))))))))))))))))))))))))))))))))))))))))))))))))

(** val des_SBOXES : n list list **)

let des_SBOXES =
  des_S1 :: (des_S2 :: (des_S3 :: (des_S4 :: (des_S5 :: (des_S6 :: (des_S7 :: (des_S8 :: [])))))))

(** val des_nibble_bits : n -> bool list **)

let des_nibble_bits v =
  (N.testbit v (Npos (XI XH))) :: ((N.testbit v (Npos (XO XH))) :: ((N.testbit
                                                                    v (Npos
                                                                    XH)) :: (
    (N.testbit v N0) :: [])))

(** val des_b2n : bool -> nat -> nat **)

let des_b2n b w =
  if b then w else O

(** val des_sboxes : n list list -> bool list -> bool list **)

let rec des_sboxes boxes bits =
  match boxes with
  | [] -> []
  | box :: boxes' ->
    (match bits with
     | [] -> []
     | b6 :: l ->
       (match l with
        | [] -> []
        | b7 :: l0 ->
          (match l0 with
           | [] -> []
           | b8 :: l1 ->
             (match l1 with
              | [] -> []
              | b9 :: l2 ->
                (match l2 with
                 | [] -> []
                 | b10 :: l3 ->
                   (match l3 with
                    | [] -> []
                    | b11 :: tl0 ->
                      let idx =
                        add
                          (add
                            (add
                              (add
                                (add
                                  (des_b2n b6 (S (S (S (S (S (S (S (S (S (S
                                    (S (S (S (S (S (S (S (S (S (S (S (S (S (S
                                    (S (S (S (S (S (S (S (S
                                    O)))))))))))))))))))))))))))))))))
                                  (des_b2n b11 (S (S (S (S (S (S (S (S (S (S
                                    (S (S (S (S (S (S O))))))))))))))))))
                                (des_b2n b7 (S (S (S (S (S (S (S (S O))))))))))
                              (des_b2n b8 (S (S (S (S O))))))
                            (des_b2n b9 (S (S O)))) (des_b2n b10 (S O))
                      in
                      app (des_nibble_bits (nth idx box N0))
                        (des_sboxes boxes' tl0)))))))

(** val des_f : bool list -> bool list -> bool list **)

let des_f r k =
  des_permute des_P (des_sboxes des_SBOXES (des_xor (des_permute des_E r) k))

(** val des_subkeys_from :
    nat list -> bool list -> bool list -> bool list list **)

let rec des_subkeys_from shifts c d =
  match shifts with
  | [] -> []
  | s :: shifts' ->
    let c' = des_rotl s c in
    let d' = des_rotl s d in
    (des_permute des_PC2 (app c' d')) :: (des_subkeys_from shifts' c' d')

(** val des_subkeys : bool list -> bool list list **)

let des_subkeys keybits =
  let cd = des_permute des_PC1 keybits in
  des_subkeys_from des_shifts
    (firstn (S (S (S (S (S (S (S (S (S (S (S (S (S (S (S (S (S (S (S (S (S (S
      (S (S (S (S (S (S O)))))))))))))))))))))))))))) cd)
    (skipn (S (S (S (S (S (S (S (S (S (S (S (S (S (S (S (S (S (S (S (S (S (S
      (S (S (S (S (S (S O)))))))))))))))))))))))))))) cd)

(** val des_rounds :
    bool list list -> bool list -> bool list -> bool list * bool list **)

let rec des_rounds keys l r =
  match keys with
  | [] -> (l, r)
  | k :: keys' -> des_rounds keys' r (des_xor l (des_f r k))

(** val des_block_bits : bool list list -> bool list -> bool list **)

let des_block_bits keys blockbits =
  let ip = des_permute des_IP blockbits in
  let (l16, r16) =
    des_rounds keys
      (firstn (S (S (S (S (S (S (S (S (S (S (S (S (S (S (S (S (S (S (S (S (S
        (S (S (S (S (S (S (S (S (S (S (S O)))))))))))))))))))))))))))))))) ip)
      (skipn (S (S (S (S (S (S (S (S (S (S (S (S (S (S (S (S (S (S (S (S (S
        (S (S (S (S (S (S (S (S (S (S (S O)))))))))))))))))))))))))))))))) ip)
  in
  des_permute des_FP (app r16 l16)

(** val des_serialize : bool list -> n list **)

let des_serialize bits =
  (des_byte_at bits O) :: ((des_byte_at bits (S O)) :: ((des_byte_at bits (S
                                                          (S O))) :: (
    (des_byte_at bits (S (S (S O)))) :: ((des_byte_at bits (S (S (S (S O))))) :: (
    (des_byte_at bits (S (S (S (S (S O)))))) :: ((des_byte_at bits (S (S (S
                                                   (S (S (S O))))))) :: (
    (des_byte_at bits (S (S (S (S (S (S (S O)))))))) :: [])))))))

(** val des_encrypt : n list -> n list -> n list **)

let des_encrypt key0 block =
  if (&&) (eqb (length key0) (S (S (S (S (S (S (S (S O)))))))))
       (eqb (length block) (S (S (S (S (S (S (S (S O)))))))))
  then des_serialize
         (des_block_bits (des_subkeys (des_bits_of_bytes key0))
           (des_bits_of_bytes block))
  else []

(** val utf16_rune_error : n **)

let utf16_rune_error =
  Npos (XI (XO (XI (XI (XI (XI (XI (XI (XI (XI (XI (XI (XI (XI (XI
    XH)))))))))))))))

(** val utf16_in_range : n -> n -> n -> bool **)

let utf16_in_range lo hi b =
  (&&) (N.leb lo b) (N.leb b hi)

(** val utf16_cont : n -> bool **)

let utf16_cont b =
  utf16_in_range (Npos (XO (XO (XO (XO (XO (XO (XO XH)))))))) (Npos (XI (XI
    (XI (XI (XI (XI (XO XH)))))))) b

(** val utf16_invalid : n * nat **)

let utf16_invalid =
  (utf16_rune_error, (S O))

(** val utf16_decode : n -> n list -> n * nat **)

let utf16_decode b0 tl0 =
  if N.ltb b0 (Npos (XO (XO (XO (XO (XO (XO (XO XH))))))))
  then (b0, (S O))
  else if N.ltb b0 (Npos (XO (XI (XO (XO (XO (XO (XI XH))))))))
       then utf16_invalid
       else if N.ltb b0 (Npos (XO (XO (XO (XO (XO (XI (XI XH))))))))
            then (match tl0 with
                  | [] -> utf16_invalid
                  | b6 :: _ ->
                    if utf16_cont b6
                    then ((N.coq_lor
                            (N.shiftl
                              (N.coq_land b0 (Npos (XI (XI (XI (XI XH))))))
                              (Npos (XO (XI XH))))
                            (N.coq_land b6 (Npos (XI (XI (XI (XI (XI XH)))))))),
                           (S (S O)))
                    else utf16_invalid)
            else if N.ltb b0 (Npos (XO (XO (XO (XO (XI (XI (XI XH))))))))
                 then let lo =
                        if N.eqb b0 (Npos (XO (XO (XO (XO (XO (XI (XI
                             XH))))))))
                        then Npos (XO (XO (XO (XO (XO (XI (XO XH)))))))
                        else Npos (XO (XO (XO (XO (XO (XO (XO XH)))))))
                      in
                      let hi =
                        if N.eqb b0 (Npos (XI (XO (XI (XI (XO (XI (XI
                             XH))))))))
                        then Npos (XI (XI (XI (XI (XI (XO (XO XH)))))))
                        else Npos (XI (XI (XI (XI (XI (XI (XO XH)))))))
                      in
                      (match tl0 with
                       | [] -> utf16_invalid
                       | b6 :: l ->
                         (match l with
                          | [] -> utf16_invalid
                          | b7 :: _ ->
                            if (&&) (utf16_in_range lo hi b6) (utf16_cont b7)
                            then ((N.coq_lor
                                    (N.shiftl
                                      (N.coq_land b0 (Npos (XI (XI (XI XH)))))
                                      (Npos (XO (XO (XI XH)))))
                                    (N.coq_lor
                                      (N.shiftl
                                        (N.coq_land b6 (Npos (XI (XI (XI (XI
                                          (XI XH))))))) (Npos (XO (XI XH))))
                                      (N.coq_land b7 (Npos (XI (XI (XI (XI
                                        (XI XH))))))))), (S (S (S O))))
                            else utf16_invalid))
                 else if N.ltb b0 (Npos (XI (XO (XI (XO (XI (XI (XI XH))))))))
                      then let lo =
                             if N.eqb b0 (Npos (XO (XO (XO (XO (XI (XI (XI
                                  XH))))))))
                             then Npos (XO (XO (XO (XO (XI (XO (XO XH)))))))
                             else Npos (XO (XO (XO (XO (XO (XO (XO XH)))))))
                           in
                           let hi =
                             if N.eqb b0 (Npos (XO (XO (XI (XO (XI (XI (XI
                                  XH))))))))
                             then Npos (XI (XI (XI (XI (XO (XO (XO XH)))))))
                             else Npos (XI (XI (XI (XI (XI (XI (XO XH)))))))
                           in
                           (match tl0 with
                            | [] -> utf16_invalid
                            | b6 :: l ->
                              (match l with
                               | [] -> utf16_invalid
                               | b7 :: l0 ->
                                 (match l0 with
                                  | [] -> utf16_invalid
                                  | b8 :: _ ->
                                    if (&&)
                                         ((&&) (utf16_in_range lo hi b6)
                                           (utf16_cont b7)) (utf16_cont b8)
                                    then ((N.coq_lor
                                            (N.shiftl
                                              (N.coq_land b0 (Npos (XI (XI
                                                XH)))) (Npos (XO (XI (XO (XO
                                              XH))))))
                                            (N.coq_lor
                                              (N.shiftl
                                                (N.coq_land b6 (Npos (XI (XI
                                                  (XI (XI (XI XH))))))) (Npos
                                                (XO (XO (XI XH)))))
                                              (N.coq_lor
                                                (N.shiftl
                                                  (N.coq_land b7 (Npos (XI
                                                    (XI (XI (XI (XI XH)))))))
                                                  (Npos (XO (XI XH))))
                                                (N.coq_land b8 (Npos (XI (XI
                                                  (XI (XI (XI XH)))))))))),
                                           (S (S (S (S O)))))
                                    else utf16_invalid)))
                      else utf16_invalid

(** val utf16_unit_le : n -> n list **)

let utf16_unit_le u =
  (N.coq_land u (Npos (XI (XI (XI (XI (XI (XI (XI XH))))))))) :: ((N.coq_land
                                                                    (N.shiftr
                                                                    u (Npos
                                                                    (XO (XO
                                                                    (XO
                                                                    XH)))))
                                                                    (Npos (XI
                                                                    (XI (XI
                                                                    (XI (XI
                                                                    (XI (XI
                                                                    XH))))))))) :: [])

(** val utf16_emit : n -> n list **)

let utf16_emit r =
  if N.ltb r (Npos (XO (XO (XO (XO (XO (XO (XO (XO (XO (XO (XO (XO (XO (XO
       (XO (XO XH)))))))))))))))))
  then utf16_unit_le r
  else let r' =
         N.sub r (Npos (XO (XO (XO (XO (XO (XO (XO (XO (XO (XO (XO (XO (XO
           (XO (XO (XO XH)))))))))))))))))
       in
       app
         (utf16_unit_le
           (N.add (Npos (XO (XO (XO (XO (XO (XO (XO (XO (XO (XO (XO (XI (XI
             (XO (XI XH))))))))))))))))
             (N.coq_land (N.shiftr r' (Npos (XO (XI (XO XH))))) (Npos (XI (XI
               (XI (XI (XI (XI (XI (XI (XI XH)))))))))))))
         (utf16_unit_le
           (N.add (Npos (XO (XO (XO (XO (XO (XO (XO (XO (XO (XO (XI (XI (XI
             (XO (XI XH))))))))))))))))
             (N.coq_land r' (Npos (XI (XI (XI (XI (XI (XI (XI (XI (XI
               XH)))))))))))))

(** val utf16_go : nat -> n list -> n list **)

let rec utf16_go skip = function
| [] -> []
| b0 :: tl0 ->
  (match skip with
   | O ->
     let (r, size) = utf16_decode b0 tl0 in
     app (utf16_emit r) (utf16_go (pred size) tl0)
   | S k -> utf16_go k tl0)

(** val utf8_to_utf16le : n list -> n list **)

let utf8_to_utf16le s =
  utf16_go O s

type tok =
| TI of z
| TB of bytes

(** val name_is : bytes -> string -> bool **)

let name_is name s =
  beq name (s2b s)

(** val t_res : 'a1 res -> ('a1 -> tok list) -> tok list **)

let t_res r f =
  match r with
  | Ok a -> (TI Z0) :: (f a)
  | Err e -> (TI (Zpos XH)) :: ((TI (Z.of_N e)) :: [])
  | Panic -> (TI (Zpos (XO XH))) :: []
  | OutOfFuel -> (TI (Zpos (XI XH))) :: []

(** val t_res_s : 'a1 res -> ('a1 -> tok list) -> tok list **)

let t_res_s r f =
  match r with
  | Ok a -> (TI Z0) :: (f a)
  | Err _ -> (TI (Zpos XH)) :: []
  | Panic -> (TI (Zpos (XO XH))) :: []
  | OutOfFuel -> (TI (Zpos (XI XH))) :: []

(** val t_attrs : attrs -> tok list **)

let t_attrs l =
  (TI (zlen l)) :: (flat_map (fun a -> (TI a.atype) :: ((TB a.aval) :: [])) l)

(** val t_opt : bytes option -> tok list **)

let t_opt = function
| Some v -> (TI (Zpos XH)) :: ((TB v) :: [])
| None -> (TI Z0) :: []

(** val take_attrs :
    nat -> z list -> bytes list -> attrs * (z list * bytes list) **)

let rec take_attrs n0 zs bs =
  match n0 with
  | O -> ([], (zs, bs))
  | S n' ->
    (match zs with
     | [] -> ([], (zs, bs))
     | z0 :: zs' ->
       (match bs with
        | [] -> ([], (zs, bs))
        | b :: bs' ->
          let (l, rest) = take_attrs n' zs' bs' in
          (({ atype = z0; aval = b } :: l), rest)))

(** val take_ops : z list -> bytes list -> op list **)

let rec take_ops zs bs =
  match zs with
  | [] -> []
  | c :: l ->
    (match l with
     | [] -> []
     | k :: zs' ->
       (match bs with
        | [] -> []
        | v :: bs' ->
          (if Z.eqb c Z0
           then OAdd (k, v)
           else if Z.eqb c (Zpos XH)
                then OSet (k, v)
                else if Z.eqb c (Zpos (XO XH))
                     then ODel k
                     else if Z.eqb c (Zpos (XI XH)) then OGet k else OLookup k) :: 
            (take_ops zs' bs')))

(** val pkt_of : attrs -> packet **)

let pkt_of l =
  { code = (Zpos XH); ident = N0; auth =
    (repeat N0 (S (S (S (S (S (S (S (S (S (S (S (S (S (S (S (S
      O))))))))))))))))); secret = []; pattrs = l }

(** val t_after : attrs -> tok list **)

let t_after l =
  app (t_attrs l)
    (app (t_res (enc_len l) (fun n0 -> (TI (Z.of_nat n0)) :: []))
      (t_res (marshal (pkt_of l)) (fun b -> (TB b) :: [])))

(** val m_trace : attrs -> op list -> tok list **)

let rec m_trace l = function
| [] -> []
| o :: r ->
  (match o with
   | OAdd (k, v) -> let l' = add0 k v l in app (t_after l') (m_trace l' r)
   | OSet (k, v) ->
     (match set k v l with
      | Ok l' -> app (t_after l') (m_trace l' r)
      | _ -> (TI (Zneg (XI (XI (XO (XO (XO (XI XH)))))))) :: [])
   | ODel k ->
     (match del k l with
      | Ok l' -> app (t_after l') (m_trace l' r)
      | _ -> (TI (Zneg (XI (XI (XO (XO (XO (XI XH)))))))) :: [])
   | OGet k -> (TB (get k l)) :: (app (t_after l) (m_trace l r))
   | OLookup k -> app (t_opt (lookup k l)) (app (t_after l) (m_trace l r)))

(** val s_after : attrs -> tok list **)

let s_after l =
  app (t_attrs l)
    (if forallb (fun a ->
          (||) (negb (in_range a))
            (Nat.leb (length a.aval) (S (S (S (S (S (S (S (S (S (S (S (S (S
              (S (S (S (S (S (S (S (S (S (S (S (S (S (S (S (S (S (S (S (S (S
              (S (S (S (S (S (S (S (S (S (S (S (S (S (S (S (S (S (S (S (S (S
              (S (S (S (S (S (S (S (S (S (S (S (S (S (S (S (S (S (S (S (S (S
              (S (S (S (S (S (S (S (S (S (S (S (S (S (S (S (S (S (S (S (S (S
              (S (S (S (S (S (S (S (S (S (S (S (S (S (S (S (S (S (S (S (S (S
              (S (S (S (S (S (S (S (S (S (S (S (S (S (S (S (S (S (S (S (S (S
              (S (S (S (S (S (S (S (S (S (S (S (S (S (S (S (S (S (S (S (S (S
              (S (S (S (S (S (S (S (S (S (S (S (S (S (S (S (S (S (S (S (S (S
              (S (S (S (S (S (S (S (S (S (S (S (S (S (S (S (S (S (S (S (S (S
              (S (S (S (S (S (S (S (S (S (S (S (S (S (S (S (S (S (S (S (S (S
              (S (S (S (S (S (S (S (S (S (S (S (S (S (S (S (S (S (S (S (S (S
              (S (S (S (S (S (S (S (S (S
              O)))))))))))))))))))))))))))))))))))))))))))))))))))))))))))))))))))))))))))))))))))))))))))))))))))))))))))))))))))))))))))))))))))))))))))))))))))))))))))))))))))))))))))))))))))))))))))))))))))))))))))))))))))))))))))))))))))))))))))))))))))))))))))))))
          l
     then let w = spec_wire l in
          app ((TI Z0) :: ((TI (Z.of_nat (length w))) :: []))
            (if Nat.leb
                  (add (S (S (S (S (S (S (S (S (S (S (S (S (S (S (S (S (S (S
                    (S (S O)))))))))))))))))))) (length w)) (S (S (S (S (S (S
                  (S (S (S (S (S (S (S (S (S (S (S (S (S (S (S (S (S (S (S (S
                  (S (S (S (S (S (S (S (S (S (S (S (S (S (S (S (S (S (S (S (S
                  (S (S (S (S (S (S (S (S (S (S (S (S (S (S (S (S (S (S (S (S
                  (S (S (S (S (S (S (S (S (S (S (S (S (S (S (S (S (S (S (S (S
                  (S (S (S (S (S (S (S (S (S (S (S (S (S (S (S (S (S (S (S (S
                  (S (S (S (S (S (S (S (S (S (S (S (S (S (S (S (S (S (S (S (S
                  (S (S (S (S (S (S (S (S (S (S (S (S (S (S (S (S (S (S (S (S
                  (S (S (S (S (S (S (S (S (S (S (S (S (S (S (S (S (S (S (S (S
                  (S (S (S (S (S (S (S (S (S (S (S (S (S (S (S (S (S (S (S (S
                  (S (S (S (S (S (S (S (S (S (S (S (S (S (S (S (S (S (S (S (S
                  (S (S (S (S (S (S (S (S (S (S (S (S (S (S (S (S (S (S (S (S
                  (S (S (S (S (S (S (S (S (S (S (S (S (S (S (S (S (S (S (S (S
                  (S (S (S (S (S (S (S (S (S (S (S (S (S (S (S (S (S (S (S (S
                  (S (S (S (S (S (S (S (S (S (S (S (S (S (S (S (S (S (S (S (S
                  (S (S (S (S (S (S (S (S (S (S (S (S (S (S (S (S (S (S (S (S
                  (S (S (S (S (S (S (S (S (S (S (S (S (S (S (S (S (S (S (S (S
                  (S (S (S (S (S (S (S (S (S (S (S (S (S (S (S (S (S (S (S (S
                  (S (S (S (S (S (S (S (S (S (S (S (S (S (S (S (S (S (S (S (S
                  (S (S (S (S (S (S (S (S (S (S (S (S (S (S (S (S (S (S (S (S
                  (S (S (S (S (S (S (S (S (S (S (S (S (S (S (S (S (S (S (S (S
                  (S (S (S (S (S (S (S (S (S (S (S (S (S (S (S (S (S (S (S (S
                  (S (S (S (S (S (S (S (S (S (S (S (S (S (S (S (S (S (S (S (S
                  (S (S (S (S (S (S (S (S (S (S (S (S (S (S (S (S (S (S (S (S
                  (S (S (S (S (S (S (S (S (S (S (S (S (S (S (S (S (S (S (S (S
                  (S (S (S (S (S (S (S (S (S (S (S (S (S (S (S (S (S (S (S (S
                  (S (S (S (S (S (S (S (S (S (S (S (S (S (S (S (S (S (S (S (S
                  (S (S (S (S (S (S (S (S (S (S (S (S (S (S (S (S (S (S (S (S
                  (S (S (S (S (S (S (S (S (S (S (S (S (S (S (S (S (S (S (S (S
                  (S (S (S (S (S (S (S (S (S (S (S (S (S (S (S (S (S (S (S (S
                  (S (S (S (S (S (S (S (S (S (S (S (S (S (S (S (S (S (S (S (S
                  (S (S (S (S (S (S (S (S (S (S (S (S (S (S (S (S (S (S (S (S
                  (S (S (S (S (S (S (S (S (S (S (S (S (S (S (S (S (S (S (S (S
                  (S (S (S (S (S (S (S (S (S (S (S (S (S (S (S (S (S (S (S (S
                  (S (S (S (S (S (S (S (S (S (S (S (S (S (S (S (S (S (S (S (S
                  (S (S (S (S (S (S (S (S (S (S (S (S (S (S (S (S (S (S (S (S
                  (S (S (S (S (S (S (S (S (S (S (S (S (S (S (S (S (S (S (S (S
                  (S (S (S (S (S (S (S (S (S (S (S (S (S (S (S (S (S (S (S (S
                  (S (S (S (S (S (S (S (S (S (S (S (S (S (S (S (S (S (S (S (S
                  (S (S (S (S (S (S (S (S (S (S (S (S (S (S (S (S (S (S (S (S
                  (S (S (S (S (S (S (S (S (S (S (S (S (S (S (S (S (S (S (S (S
                  (S (S (S (S (S (S (S (S (S (S (S (S (S (S (S (S (S (S (S (S
                  (S (S (S (S (S (S (S (S (S (S (S (S (S (S (S (S (S (S (S (S
                  (S (S (S (S (S (S (S (S (S (S (S (S (S (S (S (S (S (S (S (S
                  (S (S (S (S (S (S (S (S (S (S (S (S (S (S (S (S (S (S (S (S
                  (S (S (S (S (S (S (S (S (S (S (S (S (S (S (S (S (S (S (S (S
                  (S (S (S (S (S (S (S (S (S (S (S (S (S (S (S (S (S (S (S (S
                  (S (S (S (S (S (S (S (S (S (S (S (S (S (S (S (S (S (S (S (S
                  (S (S (S (S (S (S (S (S (S (S (S (S (S (S (S (S (S (S (S (S
                  (S (S (S (S (S (S (S (S (S (S (S (S (S (S (S (S (S (S (S (S
                  (S (S (S (S (S (S (S (S (S (S (S (S (S (S (S (S (S (S (S (S
                  (S (S (S (S (S (S (S (S (S (S (S (S (S (S (S (S (S (S (S (S
                  (S (S (S (S (S (S (S (S (S (S (S (S (S (S (S (S (S (S (S (S
                  (S (S (S (S (S (S (S (S (S (S (S (S (S (S (S (S (S (S (S (S
                  (S (S (S (S (S (S (S (S (S (S (S (S (S (S (S (S (S (S (S (S
                  (S (S (S (S (S (S (S (S (S (S (S (S (S (S (S (S (S (S (S (S
                  (S (S (S (S (S (S (S (S (S (S (S (S (S (S (S (S (S (S (S (S
                  (S (S (S (S (S (S (S (S (S (S (S (S (S (S (S (S (S (S (S (S
                  (S (S (S (S (S (S (S (S (S (S (S (S (S (S (S (S (S (S (S (S
                  (S (S (S (S (S (S (S (S (S (S (S (S (S (S (S (S (S (S (S (S
                  (S (S (S (S (S (S (S (S (S (S (S (S (S (S (S (S (S (S (S (S
                  (S (S (S (S (S (S (S (S (S (S (S (S (S (S (S (S (S (S (S (S
                  (S (S (S (S (S (S (S (S (S (S (S (S (S (S (S (S (S (S (S (S
                  (S (S (S (S (S (S (S (S (S (S (S (S (S (S (S (S (S (S (S (S
                  (S (S (S (S (S (S (S (S (S (S (S (S (S (S (S (S (S (S (S (S
                  (S (S (S (S (S (S (S (S (S (S (S (S (S (S (S (S (S (S (S (S
                  (S (S (S (S (S (S (S (S (S (S (S (S (S (S (S (S (S (S (S (S
                  (S (S (S (S (S (S (S (S (S (S (S (S (S (S (S (S (S (S (S (S
                  (S (S (S (S (S (S (S (S (S (S (S (S (S (S (S (S (S (S (S (S
                  (S (S (S (S (S (S (S (S (S (S (S (S (S (S (S (S (S (S (S (S
                  (S (S (S (S (S (S (S (S (S (S (S (S (S (S (S (S (S (S (S (S
                  (S (S (S (S (S (S (S (S (S (S (S (S (S (S (S (S (S (S (S (S
                  (S (S (S (S (S (S (S (S (S (S (S (S (S (S (S (S (S (S (S (S
                  (S (S (S (S (S (S (S (S (S (S (S (S (S (S (S (S (S (S (S (S
                  (S (S (S (S (S (S (S (S (S (S (S (S (S (S (S (S (S (S (S (S
                  (S (S (S (S (S (S (S (S (S (S (S (S (S (S (S (S (S (S (S (S
                  (S (S (S (S (S (S (S (S (S (S (S (S (S (S (S (S (S (S (S (S
                  (S (S (S (S (S (S (S (S (S (S (S (S (S (S (S (S (S (S (S (S
                  (S (S (S (S (S (S (S (S (S (S (S (S (S (S (S (S (S (S (S (S
                  (S (S (S (S (S (S (S (S (S (S (S (S (S (S (S (S (S (S (S (S
                  (S (S (S (S (S (S (S (S (S (S (S (S (S (S (S (S (S (S (S (S
                  (S (S (S (S (S (S (S (S (S (S (S (S (S (S (S (S (S (S (S (S
                  (S (S (S (S (S (S (S (S (S (S (S (S (S (S (S (S (S (S (S (S
                  (S (S (S (S (S (S (S (S (S (S (S (S (S (S (S (S (S (S (S (S
                  (S (S (S (S (S (S (S (S (S (S (S (S (S (S (S (S (S (S (S (S
                  (S (S (S (S (S (S (S (S (S (S (S (S (S (S (S (S (S (S (S (S
                  (S (S (S (S (S (S (S (S (S (S (S (S (S (S (S (S (S (S (S (S
                  (S (S (S (S (S (S (S (S (S (S (S (S (S (S (S (S (S (S (S (S
                  (S (S (S (S (S (S (S (S (S (S (S (S (S (S (S (S (S (S (S (S
                  (S (S (S (S (S (S (S (S (S (S (S (S (S (S (S (S (S (S (S (S
                  (S (S (S (S (S (S (S (S (S (S (S (S (S (S (S (S (S (S (S (S
                  (S (S (S (S (S (S (S (S (S (S (S (S (S (S (S (S (S (S (S (S
                  (S (S (S (S (S (S (S (S (S (S (S (S (S (S (S (S (S (S (S (S
                  (S (S (S (S (S (S (S (S (S (S (S (S (S (S (S (S (S (S (S (S
                  (S (S (S (S (S (S (S (S (S (S (S (S (S (S (S (S (S (S (S (S
                  (S (S (S (S (S (S (S (S (S (S (S (S (S (S (S (S (S (S (S (S
                  (S (S (S (S (S (S (S (S (S (S (S (S (S (S (S (S (S (S (S (S
                  (S (S (S (S (S (S (S (S (S (S (S (S (S (S (S (S (S (S (S (S
                  (S (S (S (S (S (S (S (S (S (S (S (S (S (S (S (S (S (S (S (S
                  (S (S (S (S (S (S (S (S (S (S (S (S (S (S (S (S (S (S (S (S
                  (S (S (S (S (S (S (S (S (S (S (S (S (S (S (S (S (S (S (S (S
                  (S (S (S (S (S (S (S (S (S (S (S (S (S (S (S (S (S (S (S (S
                  (S (S (S (S (S (S (S (S (S (S (S (S (S (S (S (S (S (S (S (S
                  (S (S (S (S (S (S (S (S (S (S (S (S (S (S (S (S (S (S (S (S
                  (S (S (S (S (S (S (S (S (S (S (S (S (S (S (S (S (S (S (S (S
                  (S (S (S (S (S (S (S (S (S (S (S (S (S (S (S (S (S (S (S (S
                  (S (S (S (S (S (S (S (S (S (S (S (S (S (S (S (S (S (S (S (S
                  (S (S (S (S (S (S (S (S (S (S (S (S (S (S (S (S (S (S (S (S
                  (S (S (S (S (S (S (S (S (S (S (S (S (S (S (S (S (S (S (S (S
                  (S (S (S (S (S (S (S (S (S (S (S (S (S (S (S (S (S (S (S (S
                  (S (S (S (S (S (S (S (S (S (S (S (S (S (S (S (S (S (S (S (S
                  (S (S (S (S (S (S (S (S (S (S (S (S (S (S (S (S (S (S (S (S
                  (S (S (S (S (S (S (S (S (S (S (S (S (S (S (S (S (S (S (S (S
                  (S (S (S (S (S (S (S (S (S (S (S (S (S (S (S (S (S (S (S (S
                  (S (S (S (S (S (S (S (S (S (S (S (S (S (S (S (S (S (S (S (S
                  (S (S (S (S (S (S (S (S (S (S (S (S (S (S (S (S (S (S (S (S
                  (S (S (S (S (S (S (S (S (S (S (S (S (S (S (S (S (S (S (S (S
                  (S (S (S (S (S (S (S (S (S (S (S (S (S (S (S (S (S (S (S (S
                  (S (S (S (S (S (S (S (S (S (S (S (S (S (S (S (S (S (S (S (S
                  (S (S (S (S (S (S (S (S (S (S (S (S (S (S (S (S (S (S (S (S
                  (S (S (S (S (S (S (S (S (S (S (S (S (S (S (S (S (S (S (S (S
                  (S (S (S (S (S (S (S (S (S (S (S (S (S (S (S (S (S (S (S (S
                  (S (S (S (S (S (S (S (S (S (S (S (S (S (S (S (S (S (S (S (S
                  (S (S (S (S (S (S (S (S (S (S (S (S (S (S (S (S (S (S (S (S
                  (S (S (S (S (S (S (S (S (S (S (S (S (S (S (S (S (S (S (S (S
                  (S (S (S (S (S (S (S (S (S (S (S (S (S (S (S (S (S (S (S (S
                  (S (S (S (S (S (S (S (S (S (S (S (S (S (S (S (S (S (S (S (S
                  (S (S (S (S (S (S (S (S (S (S (S (S (S (S (S (S (S (S (S (S
                  (S (S (S (S (S (S (S (S (S (S (S (S (S (S (S (S (S (S (S (S
                  (S (S (S (S (S (S (S (S (S (S (S (S (S (S (S (S (S (S (S (S
                  (S (S (S (S (S (S (S (S (S (S (S (S (S (S (S (S (S (S (S (S
                  (S (S (S (S (S (S (S (S (S (S (S (S (S (S (S (S (S (S (S (S
                  (S (S (S (S (S (S (S (S (S (S (S (S (S (S (S (S (S (S (S (S
                  (S (S (S (S (S (S (S (S (S (S (S (S (S (S (S (S (S (S (S (S
                  (S (S (S (S (S (S (S (S (S (S (S (S (S (S (S (S (S (S (S (S
                  (S (S (S (S (S (S (S (S (S (S (S (S (S (S (S (S (S (S (S (S
                  (S (S (S (S (S (S (S (S (S (S (S (S (S (S (S (S (S (S (S (S
                  (S (S (S (S (S (S (S (S (S (S (S (S (S (S (S (S (S (S (S (S
                  (S (S (S (S (S (S (S (S (S (S (S (S (S (S (S (S (S (S (S (S
                  (S (S (S (S (S (S (S (S (S (S (S (S (S (S (S (S (S (S (S (S
                  (S (S (S (S (S (S (S (S (S (S (S (S (S (S (S (S (S (S (S (S
                  (S (S (S (S (S (S (S (S (S (S (S (S (S (S (S (S (S (S (S (S
                  (S (S (S (S (S (S (S (S (S (S (S (S (S (S (S (S (S (S (S (S
                  (S (S (S (S (S (S (S (S (S (S (S (S (S (S (S (S (S (S (S (S
                  (S (S (S (S (S (S (S (S (S (S (S (S (S (S (S (S (S (S (S (S
                  (S (S (S (S (S (S (S (S (S (S (S (S (S (S (S (S (S (S (S (S
                  (S (S (S (S (S (S (S (S (S (S (S (S (S (S (S (S (S (S (S (S
                  (S (S (S (S (S (S (S (S (S (S (S (S (S (S (S (S (S (S (S (S
                  (S (S (S (S (S (S (S (S (S (S (S (S (S (S (S (S (S (S (S (S
                  (S (S (S (S (S (S (S (S (S (S (S (S (S (S (S (S (S (S (S (S
                  (S (S (S (S (S (S (S (S (S (S (S (S (S (S (S (S (S (S (S (S
                  (S (S (S (S (S (S (S (S (S (S (S (S (S (S (S (S (S (S (S (S
                  (S (S (S (S (S (S (S (S (S (S (S (S (S (S (S (S (S (S (S (S
                  (S (S (S (S (S (S (S (S (S (S (S (S (S (S (S (S (S (S (S (S
                  (S (S (S (S (S (S (S (S (S (S (S (S (S (S (S (S (S (S (S (S
                  (S (S (S (S (S (S (S (S (S (S (S (S (S (S (S (S (S (S (S (S
                  (S (S (S (S (S (S (S (S (S (S (S (S (S (S (S (S (S (S (S (S
                  (S (S (S (S (S (S (S (S (S (S (S (S (S (S (S (S (S (S (S (S
                  (S (S (S (S (S (S (S (S (S (S (S (S (S (S (S (S (S (S (S (S
                  (S (S (S (S (S (S (S (S (S (S (S (S (S (S (S (S (S (S (S (S
                  (S (S (S (S (S (S (S (S (S (S (S (S (S (S (S (S (S (S (S (S
                  (S (S (S (S (S (S (S (S (S (S (S (S (S (S (S (S (S (S (S (S
                  (S (S (S (S (S (S (S (S (S (S (S (S (S (S (S (S (S (S (S (S
                  (S (S (S (S (S (S (S (S (S (S (S (S (S (S (S (S (S (S (S (S
                  (S (S (S (S (S (S (S (S (S (S (S (S (S (S (S (S (S (S (S (S
                  (S (S (S (S (S (S (S (S (S (S (S (S (S (S (S (S (S (S (S (S
                  (S (S (S (S (S (S (S (S (S (S (S (S (S (S (S (S (S (S (S (S
                  (S (S (S (S (S (S (S (S (S (S (S (S (S (S (S (S (S (S (S (S
                  (S (S (S (S (S (S (S (S (S (S (S (S (S (S (S (S (S (S (S (S
                  (S (S (S (S (S (S (S (S (S (S (S (S (S (S (S (S (S (S (S (S
                  (S (S (S (S (S (S (S (S (S (S (S (S (S (S (S (S (S (S (S (S
                  (S (S (S (S (S (S (S (S (S (S (S (S (S (S (S (S (S (S (S (S
                  (S (S (S (S (S (S (S (S (S (S (S (S (S (S (S (S (S (S (S (S
                  (S (S (S (S (S (S (S (S (S (S (S (S (S (S (S (S (S (S (S (S
                  (S (S (S (S (S (S (S (S (S (S (S (S (S (S (S (S (S (S (S (S
                  (S (S (S (S (S (S (S (S (S (S (S (S (S (S (S (S (S (S (S (S
                  (S (S (S (S (S (S (S (S (S (S (S (S (S (S (S (S (S (S (S (S
                  (S (S (S (S (S (S (S (S (S (S (S (S (S (S (S (S (S (S (S (S
                  (S (S (S (S (S (S (S (S (S (S (S (S (S (S (S (S (S (S (S (S
                  (S (S (S (S (S (S (S (S (S (S (S (S (S (S (S (S (S (S (S (S
                  (S (S (S (S (S (S (S (S (S (S (S (S (S (S (S (S (S (S (S (S
                  (S (S (S (S (S (S (S (S (S (S (S (S (S (S (S (S (S (S (S (S
                  (S (S (S (S (S (S (S (S (S (S (S (S (S (S (S (S (S (S (S (S
                  (S (S (S (S (S (S (S (S (S (S (S (S (S (S (S (S (S (S (S (S
                  (S (S (S (S (S (S (S (S (S (S (S (S (S (S (S (S (S (S (S (S
                  (S (S (S (S (S (S (S (S (S (S (S (S (S (S (S (S (S (S (S (S
                  (S (S (S (S (S (S (S (S (S (S (S (S (S (S (S (S (S (S (S (S
                  (S (S (S (S (S (S (S (S (S (S (S (S (S (S (S (S (S (S (S (S
                  (S (S (S (S (S (S (S (S (S (S (S (S (S (S (S (S (S (S (S (S
                  (S (S (S (S (S (S (S (S (S (S (S (S (S (S (S (S (S (S (S (S
                  (S (S (S (S (S (S (S (S (S (S (S (S (S (S (S (S (S (S (S (S
                  (S (S (S (S (S (S (S (S (S (S (S (S (S (S (S (S (S (S (S (S
                  (S (S (S (S (S (S (S (S (S (S (S (S (S (S (S (S (S (S (S (S
                  (S (S (S (S (S (S (S (S (S (S (S (S (S (S (S (S (S (S (S (S
                  (S (S (S (S (S (S (S (S (S (S (S (S (S (S (S (S (S (S (S (S
                  (S (S (S (S (S (S (S (S (S (S (S (S (S (S (S (S (S (S (S (S
                  (S (S (S (S (S (S (S (S (S (S (S (S (S (S (S (S (S (S (S (S
                  (S (S (S (S (S (S (S (S (S (S (S (S (S (S (S (S (S (S (S (S
                  (S (S (S (S (S (S (S (S (S (S (S (S (S (S (S (S (S (S (S (S
                  (S (S (S (S (S (S (S (S (S (S (S (S (S (S (S (S (S (S (S (S
                  (S (S (S (S (S (S (S (S (S (S (S (S (S (S (S (S (S (S (S (S
                  (S (S (S (S (S (S (S (S (S (S (S (S (S (S (S (S (S (S (S (S
                  (S (S (S (S (S (S (S (S (S (S (S (S (S (S (S (S (S (S (S (S
                  (S (S (S (S (S (S (S (S (S (S (S (S (S (S (S (S (S (S (S (S
                  (S (S (S (S (S (S (S (S (S (S (S (S (S (S (S (S (S (S (S (S
                  (S (S (S (S (S (S (S (S (S (S
                  O))))))))))))))))))))))))))))))))))))))))))))))))))))))))))))))))))))))))))))))))))))))))))))))))))))))))))))))))))))))))))))))))))))))))))))))))))))))))))))))))))))))))))))))))))))))))))))))))))))))))))))))))))))))))))))))))))))))))))))))))))))))))))))))))))))))))))))))))))))))))))))))))))))))))))))))))))))))))))))))))))))))))))))))))))))))))))))))))))))))))))))))))))))))))))))))))))))))))))))))))))))))))))))))))))))))))))))))))))))))))))))))))))))))))))))))))))))))))))))))))))))))))))))))))))))))))))))))))))))))))))))))))))))))))))))))))))))))))))))))))))))))))))))))))))))))))))))))))))))))))))))))))))))))))))))))))))))))))))))))))))))))))))))))))))))))))))))))))))))))))))))))))))))))))))))))))))))))))))))))))))))))))))))))))))))))))))))))))))))))))))))))))))))))))))))))))))))))))))))))))))))))))))))))))))))))))))))))))))))))))))))))))))))))))))))))))))))))))))))))))))))))))))))))))))))))))))))))))))))))))))))))))))))))))))))))))))))))))))))))))))))))))))))))))))))))))))))))))))))))))))))))))))))))))))))))))))))))))))))))))))))))))))))))))))))))))))))))))))))))))))))))))))))))))))))))))))))))))))))))))))))))))))))))))))))))))))))))))))))))))))))))))))))))))))))))))))))))))))))))))))))))))))))))))))))))))))))))))))))))))))))))))))))))))))))))))))))))))))))))))))))))))))))))))))))))))))))))))))))))))))))))))))))))))))))))))))))))))))))))))))))))))))))))))))))))))))))))))))))))))))))))))))))))))))))))))))))))))))))))))))))))))))))))))))))))))))))))))))))))))))))))))))))))))))))))))))))))))))))))))))))))))))))))))))))))))))))))))))))))))))))))))))))))))))))))))))))))))))))))))))))))))))))))))))))))))))))))))))))))))))))))))))))))))))))))))))))))))))))))))))))))))))))))))))))))))))))))))))))))))))))))))))))))))))))))))))))))))))))))))))))))))))))))))))))))))))))))))))))))))))))))))))))))))))))))))))))))))))))))))))))))))))))))))))))))))))))))))))))))))))))))))))))))))))))))))))))))))))))))))))))))))))))))))))))))))))))))))))))))))))))))))))))))))))))))))))))))))))))))))))))))))))))))))))))))))))))))))))))))))))))))))))))))))))))))))))))))))))))))))))))))))))))))))))))))))))))))))))))))))))))))))))))))))))))))))))))))))))))))))))))))))))))))))))))))))))))))))))))))))))))))))))))))))))))))))))))))))))))))))))))))))))))))))))))))))))))))))))))))))))))))))))))))))))))))))))))))))))))))))))))))))))))))))))))))))))))))))))))))))))))))))))))))))))))))))))))))))))))))))))))))))))))))))))))))))))))))))))))))))))))))))))))))))))))))))))))))))))))))))))))))))))))))))))))))))))))))))))))))))))))))))))))))))))))))))))))))))))))))))))))))))))))))))))))))))))))))))))))))))))))))))))))))))))))))))))))))))))))))))))))))))))))))))))))))))))))))))))))))))))))))))))))))))))))))))))))))))))))))))))))))))))))))))))))))))))))))))))))))))))))))))))))))))))))))))))))))))))))))))))))))))))))))))))))))))))))))))))))))))))))))))))))))))))))))))))))))))))))))))))))))))))))))))))))))))))))))))))))))))))))))))))))))))))))))))))))))))))))))))))))))))))))))))))))))))))))))))))))))))))))))))))))))))))))))))))))))))))))))))))))))))))))))))))))))))))))))))))))))))))))))))))))))))))))))))))))))))))))))))))))))))))))))))))))))))))))))))))))))))))))))))))))))))))))))))))))))))))))))))))))))))))))))))))))))))))))))))))))))))))))))))))))))))))))))))))))))))))))))))))))))))))))))))))))))))))))))))))))))))))))))))))))))))))))))))))))))))))))))))))))))))))))))))))))))))))))))))))))))))))))))))))))))))))))))))))))))))))))))))))))))))))))))))))))))))))))))))))))))))))))))))))))))))))))))))))))))))))))))))))))))))))))))))))))))))))))))))))))))))))))))))))))))))))))))))))))))))))))))))))))))))))))))))))))))))))))))))))))))))))))))))))))))))))))))))))))))))))))))))))))))))))))))))))))))))))))))))))))))))))))))))))))))))))))))))))))))))))))))))))))))))))))))))))))))))))))))))))))))))))))))))))))))))))))))))))))))))))))))))))))))))))))))))))))))))))))))))))))))))))))))))))))))))))))))))))))))))))))))))))))))))))))))))))))))))))))))))))))))))))))))))))))))))))))))))))))))))))))))))))))))))))))))))))))))))))))))))))))))))))))))))))))))))))))))))))))))))))))))))))))))))))))))))
             then (TI Z0) :: ((TB
                    (app ((Npos XH) :: (N0 :: []))
                      (app
                        (be_enc (S (S O))
                          (N.of_nat
                            (add (S (S (S (S (S (S (S (S (S (S (S (S (S (S (S
                              (S (S (S (S (S O)))))))))))))))))))) (length w))))
                        (app
                          (repeat N0 (S (S (S (S (S (S (S (S (S (S (S (S (S
                            (S (S (S O))))))))))))))))) w)))) :: [])
             else (TI (Zpos XH)) :: [])
     else (TI (Zpos XH)) :: ((TI (Zpos XH)) :: []))

(** val s_trace : attrs -> op list -> tok list **)

let rec s_trace l = function
| [] -> []
| o :: r ->
  let (l', out) = spec_step l o in
  app
    (match o with
     | OGet _ ->
       (match out with
        | Some o0 ->
          (match o0 with
           | Some v -> (TB v) :: []
           | None -> (TB []) :: [])
        | None -> (TB []) :: [])
     | OLookup _ -> (match out with
                     | Some x -> t_opt x
                     | None -> [])
     | _ -> []) (app (s_after l') (s_trace l' r))

(** val run_attrs : bool -> bytes list -> z list -> tok list **)

let run_attrs spec bs = function
| [] -> (TI (Zneg (XO (XI (XO (XO (XO (XI XH)))))))) :: []
| n0 :: zs' ->
  let (l, p) = take_attrs (Z.to_nat n0) zs' bs in
  let (zs'', bs'') = p in
  let os = take_ops zs'' bs'' in if spec then s_trace l os else m_trace l os

(** val t_packet : packet -> tok list **)

let t_packet p =
  app ((TI p.code) :: ((TI (Z.of_N p.ident)) :: ((TB p.auth) :: ((TB
    p.secret) :: [])))) (t_attrs p.pattrs)

(** val t_tuple : ((((z * n) * bytes) * bytes) * attrs) -> tok list **)

let t_tuple = function
| (p, at_) ->
  let (p0, s) = p in
  let (p1, au) = p0 in
  let (c, i) = p1 in
  app ((TI c) :: ((TI (Z.of_N i)) :: ((TB au) :: ((TB s) :: []))))
    (t_attrs at_)

(** val arg_packet : bytes list -> z list -> packet **)

let arg_packet bs = function
| [] -> { code = Z0; ident = N0; auth = []; secret = []; pattrs = [] }
| c :: l ->
  (match l with
   | [] -> { code = Z0; ident = N0; auth = []; secret = []; pattrs = [] }
   | i :: l0 ->
     (match l0 with
      | [] -> { code = Z0; ident = N0; auth = []; secret = []; pattrs = [] }
      | n0 :: zs' ->
        (match bs with
         | [] ->
           { code = Z0; ident = N0; auth = []; secret = []; pattrs = [] }
         | au :: l1 ->
           (match l1 with
            | [] ->
              { code = Z0; ident = N0; auth = []; secret = []; pattrs = [] }
            | sec :: bs' ->
              let (l2, _) = take_attrs (Z.to_nat n0) zs' bs' in
              { code = c; ident = (Z.to_N i); auth = au; secret = sec;
              pattrs = l2 }))))

(** val b1 : bytes list -> bytes **)

let b1 bs =
  nth O bs []

(** val b2 : bytes list -> bytes **)

let b2 bs =
  nth (S O) bs []

(** val b3 : bytes list -> bytes **)

let b3 bs =
  nth (S (S O)) bs []

(** val z1 : z list -> z **)

let z1 zs =
  nth O zs Z0

(** val tbool : bool -> tok list **)

let tbool b =
  (TI (if b then Zpos XH else Z0)) :: []

(** val dispatch_c01 : bytes -> bytes list -> z list -> tok list option **)

let dispatch_c01 name bs zs =
  if name_is name (String ((Ascii (true, false, true, true, false, true,
       true, false)), (String ((Ascii (false, true, true, true, false, true,
       false, false)), (String ((Ascii (false, false, false, false, true,
       true, true, false)), (String ((Ascii (true, false, false, false,
       false, true, true, false)), (String ((Ascii (false, true, false,
       false, true, true, true, false)), (String ((Ascii (true, true, false,
       false, true, true, true, false)), (String ((Ascii (true, false, true,
       false, false, true, true, false)), EmptyString))))))))))))))
  then Some (t_res (parse (b1 bs) (b2 bs)) t_packet)
  else if name_is name (String ((Ascii (true, true, false, false, true, true,
            true, false)), (String ((Ascii (false, true, true, true, false,
            true, false, false)), (String ((Ascii (false, false, false,
            false, true, true, true, false)), (String ((Ascii (true, false,
            false, false, false, true, true, false)), (String ((Ascii (false,
            true, false, false, true, true, true, false)), (String ((Ascii
            (true, true, false, false, true, true, true, false)), (String
            ((Ascii (true, false, true, false, false, true, true, false)),
            EmptyString))))))))))))))
       then Some (t_res_s (spec_parse (b1 bs) (b2 bs)) t_tuple)
       else if name_is name (String ((Ascii (true, false, true, true, false,
                 true, true, false)), (String ((Ascii (false, true, true,
                 true, false, true, false, false)), (String ((Ascii (false,
                 false, false, false, true, true, true, false)), (String
                 ((Ascii (true, false, false, false, false, true, true,
                 false)), (String ((Ascii (false, true, false, false, true,
                 true, true, false)), (String ((Ascii (true, true, false,
                 false, true, true, true, false)), (String ((Ascii (true,
                 false, true, false, false, true, true, false)), (String
                 ((Ascii (true, true, true, true, true, false, true, false)),
                 (String ((Ascii (true, false, false, false, false, true,
                 true, false)), (String ((Ascii (false, false, true, false,
                 true, true, true, false)), (String ((Ascii (false, false,
                 true, false, true, true, true, false)), (String ((Ascii
                 (false, true, false, false, true, true, true, false)),
                 (String ((Ascii (true, true, false, false, true, true, true,
                 false)), EmptyString))))))))))))))))))))))))))
            then Some (t_res (parse_attrs (b1 bs)) t_attrs)
            else if name_is name (String ((Ascii (true, true, false, false,
                      true, true, true, false)), (String ((Ascii (false,
                      true, true, true, false, true, false, false)), (String
                      ((Ascii (false, false, false, false, true, true, true,
                      false)), (String ((Ascii (true, false, false, false,
                      false, true, true, false)), (String ((Ascii (false,
                      true, false, false, true, true, true, false)), (String
                      ((Ascii (true, true, false, false, true, true, true,
                      false)), (String ((Ascii (true, false, true, false,
                      false, true, true, false)), (String ((Ascii (true,
                      true, true, true, true, false, true, false)), (String
                      ((Ascii (true, false, false, false, false, true, true,
                      false)), (String ((Ascii (false, false, true, false,
                      true, true, true, false)), (String ((Ascii (false,
                      false, true, false, true, true, true, false)), (String
                      ((Ascii (false, true, false, false, true, true, true,
                      false)), (String ((Ascii (true, true, false, false,
                      true, true, true, false)),
                      EmptyString))))))))))))))))))))))))))
                 then Some (t_res_s (spec_tlv_dec (b1 bs)) t_attrs)
                 else if name_is name (String ((Ascii (true, false, true,
                           true, false, true, true, false)), (String ((Ascii
                           (false, true, true, true, false, true, false,
                           false)), (String ((Ascii (true, false, true, true,
                           false, true, true, false)), (String ((Ascii (true,
                           false, false, false, false, true, true, false)),
                           (String ((Ascii (false, true, false, false, true,
                           true, true, false)), (String ((Ascii (true, true,
                           false, false, true, true, true, false)), (String
                           ((Ascii (false, false, false, true, false, true,
                           true, false)), (String ((Ascii (true, false,
                           false, false, false, true, true, false)), (String
                           ((Ascii (false, false, true, true, false, true,
                           true, false)), EmptyString))))))))))))))))))
                      then Some
                             (t_res (marshal (arg_packet bs zs)) (fun b ->
                               (TB b) :: []))
                      else if name_is name (String ((Ascii (true, true,
                                false, false, true, true, true, false)),
                                (String ((Ascii (false, true, true, true,
                                false, true, false, false)), (String ((Ascii
                                (true, false, true, true, false, true, true,
                                false)), (String ((Ascii (true, false, false,
                                false, false, true, true, false)), (String
                                ((Ascii (false, true, false, false, true,
                                true, true, false)), (String ((Ascii (true,
                                true, false, false, true, true, true,
                                false)), (String ((Ascii (false, false,
                                false, true, false, true, true, false)),
                                (String ((Ascii (true, false, false, false,
                                false, true, true, false)), (String ((Ascii
                                (false, false, true, true, false, true, true,
                                false)), EmptyString))))))))))))))))))
                           then let p = arg_packet bs zs in
                                Some
                                (t_res_s
                                  (spec_marshal p.code p.ident p.auth
                                    p.pattrs) (fun b -> (TB b) :: []))
                           else if name_is name (String ((Ascii (true, false,
                                     true, true, false, true, true, false)),
                                     (String ((Ascii (false, true, true,
                                     true, false, true, false, false)),
                                     (String ((Ascii (true, false, true,
                                     false, false, true, true, false)),
                                     (String ((Ascii (false, true, true,
                                     true, false, true, true, false)),
                                     (String ((Ascii (true, true, false,
                                     false, false, true, true, false)),
                                     (String ((Ascii (true, true, true, true,
                                     false, true, true, false)), (String
                                     ((Ascii (false, false, true, false,
                                     false, true, true, false)), (String
                                     ((Ascii (true, false, true, false,
                                     false, true, true, false)),
                                     EmptyString))))))))))))))))
                                then Some
                                       (t_res (encode md5 (arg_packet bs zs))
                                         (fun b -> (TB b) :: []))
                                else if name_is name (String ((Ascii (true,
                                          true, false, false, true, true,
                                          true, false)), (String ((Ascii
                                          (false, true, true, true, false,
                                          true, false, false)), (String
                                          ((Ascii (true, false, true, false,
                                          false, true, true, false)), (String
                                          ((Ascii (false, true, true, true,
                                          false, true, true, false)), (String
                                          ((Ascii (true, true, false, false,
                                          false, true, true, false)), (String
                                          ((Ascii (true, true, true, true,
                                          false, true, true, false)), (String
                                          ((Ascii (false, false, true, false,
                                          false, true, true, false)), (String
                                          ((Ascii (true, false, true, false,
                                          false, true, true, false)),
                                          EmptyString))))))))))))))))
                                     then let p = arg_packet bs zs in
                                          Some
                                          (t_res_s
                                            (spec_encode md5 p.code p.ident
                                              p.auth p.secret p.pattrs)
                                            (fun b -> (TB b) :: []))
                                     else if name_is name (String ((Ascii
                                               (true, false, true, true,
                                               false, true, true, false)),
                                               (String ((Ascii (false, true,
                                               true, true, false, true,
                                               false, false)), (String
                                               ((Ascii (true, false, false,
                                               true, false, true, true,
                                               false)), (String ((Ascii
                                               (true, true, false, false,
                                               true, true, true, false)),
                                               (String ((Ascii (false, true,
                                               false, false, true, true,
                                               true, false)), (String ((Ascii
                                               (true, false, true, false,
                                               false, true, true, false)),
                                               (String ((Ascii (true, true,
                                               false, false, true, true,
                                               true, false)), (String ((Ascii
                                               (false, false, false, false,
                                               true, true, true, false)),
                                               EmptyString))))))))))))))))
                                          then Some
                                                 (tbool
                                                   (is_authentic_response md5
                                                     (b1 bs) (b2 bs) 
                                                     (b3 bs)))
                                          else if name_is name (String
                                                    ((Ascii (true, true,
                                                    false, false, true, true,
                                                    true, false)), (String
                                                    ((Ascii (false, true,
                                                    true, true, false, true,
                                                    false, false)), (String
                                                    ((Ascii (true, false,
                                                    false, true, false, true,
                                                    true, false)), (String
                                                    ((Ascii (true, true,
                                                    false, false, true, true,
                                                    true, false)), (String
                                                    ((Ascii (false, true,
                                                    false, false, true, true,
                                                    true, false)), (String
                                                    ((Ascii (true, false,
                                                    true, false, false, true,
                                                    true, false)), (String
                                                    ((Ascii (true, true,
                                                    false, false, true, true,
                                                    true, false)), (String
                                                    ((Ascii (false, false,
                                                    false, false, true, true,
                                                    true, false)),
                                                    EmptyString))))))))))))))))
                                               then Some
                                                      (tbool
                                                        (spec_is_authentic_response
                                                          md5 (b1 bs) 
                                                          (b2 bs) (b3 bs)))
                                               else if name_is name (String
                                                         ((Ascii (true,
                                                         false, true, true,
                                                         false, true, true,
                                                         false)), (String
                                                         ((Ascii (false,
                                                         true, true, true,
                                                         false, true, false,
                                                         false)), (String
                                                         ((Ascii (true,
                                                         false, false, true,
                                                         false, true, true,
                                                         false)), (String
                                                         ((Ascii (true, true,
                                                         false, false, true,
                                                         true, true, false)),
                                                         (String ((Ascii
                                                         (false, true, false,
                                                         false, true, true,
                                                         true, false)),
                                                         (String ((Ascii
                                                         (true, false, true,
                                                         false, false, true,
                                                         true, false)),
                                                         (String ((Ascii
                                                         (true, false, false,
                                                         false, true, true,
                                                         true, false)),
                                                         EmptyString))))))))))))))
                                                    then Some
                                                           (tbool
                                                             (is_authentic_request
                                                               md5 (b1 bs)
                                                               (b2 bs)))
                                                    else if name_is name
                                                              (String ((Ascii
                                                              (true, true,
                                                              false, false,
                                                              true, true,
                                                              true, false)),
                                                              (String ((Ascii
                                                              (false, true,
                                                              true, true,
                                                              false, true,
                                                              false, false)),
                                                              (String ((Ascii
                                                              (true, false,
                                                              false, true,
                                                              false, true,
                                                              true, false)),
                                                              (String ((Ascii
                                                              (true, true,
                                                              false, false,
                                                              true, true,
                                                              true, false)),
                                                              (String ((Ascii
                                                              (false, true,
                                                              false, false,
                                                              true, true,
                                                              true, false)),
                                                              (String ((Ascii
                                                              (true, false,
                                                              true, false,
                                                              false, true,
                                                              true, false)),
                                                              (String ((Ascii
                                                              (true, false,
                                                              false, false,
                                                              true, true,
                                                              true, false)),
                                                              EmptyString))))))))))))))
                                                         then Some
                                                                (tbool
                                                                  (spec_is_authentic_request
                                                                    md5
                                                                    (b1 bs)
                                                                    (b2 bs)))
                                                         else if name_is name
                                                                   (String
                                                                   ((Ascii
                                                                   (true,
                                                                   false,
                                                                   true,
                                                                   true,
                                                                   false,
                                                                   true,
                                                                   true,
                                                                   false)),
                                                                   (String
                                                                   ((Ascii
                                                                   (false,
                                                                   true,
                                                                   true,
                                                                   true,
                                                                   false,
                                                                   true,
                                                                   false,
                                                                   false)),
                                                                   (String
                                                                   ((Ascii
                                                                   (false,
                                                                   true,
                                                                   true,
                                                                   true,
                                                                   false,
                                                                   true,
                                                                   true,
                                                                   false)),
                                                                   (String
                                                                   ((Ascii
                                                                   (true,
                                                                   false,
                                                                   true,
                                                                   false,
                                                                   false,
                                                                   true,
                                                                   true,
                                                                   false)),
                                                                   (String
                                                                   ((Ascii
                                                                   (true,
                                                                   true,
                                                                   true,
                                                                   false,
                                                                   true,
                                                                   true,
                                                                   true,
                                                                   false)),
                                                                   EmptyString))))))))))
                                                              then Some
                                                                    (t_res
                                                                    (new_packet
                                                                    (z1 zs)
                                                                    (b1 bs)
                                                                    (b2 bs))
                                                                    t_packet)
                                                              else if 
                                                                    name_is
                                                                    name
                                                                    (String
                                                                    ((Ascii
                                                                    (true,
                                                                    false,
                                                                    true,
                                                                    true,
                                                                    false,
                                                                    true,
                                                                    true,
                                                                    false)),
                                                                    (String
                                                                    ((Ascii
                                                                    (false,
                                                                    true,
                                                                    true,
                                                                    true,
                                                                    false,
                                                                    true,
                                                                    false,
                                                                    false)),
                                                                    (String
                                                                    ((Ascii
                                                                    (false,
                                                                    true,
                                                                    false,
                                                                    false,
                                                                    true,
                                                                    true,
                                                                    true,
                                                                    false)),
                                                                    (String
                                                                    ((Ascii
                                                                    (true,
                                                                    false,
                                                                    true,
                                                                    false,
                                                                    false,
                                                                    true,
                                                                    true,
                                                                    false)),
                                                                    (String
                                                                    ((Ascii
                                                                    (true,
                                                                    true,
                                                                    false,
                                                                    false,
                                                                    true,
                                                                    true,
                                                                    true,
                                                                    false)),
                                                                    (String
                                                                    ((Ascii
                                                                    (false,
                                                                    false,
                                                                    false,
                                                                    false,
                                                                    true,
                                                                    true,
                                                                    true,
                                                                    false)),
                                                                    (String
                                                                    ((Ascii
                                                                    (true,
                                                                    true,
                                                                    true,
                                                                    true,
                                                                    false,
                                                                    true,
                                                                    true,
                                                                    false)),
                                                                    (String
                                                                    ((Ascii
                                                                    (false,
                                                                    true,
                                                                    true,
                                                                    true,
                                                                    false,
                                                                    true,
                                                                    true,
                                                                    false)),
                                                                    (String
                                                                    ((Ascii
                                                                    (true,
                                                                    true,
                                                                    false,
                                                                    false,
                                                                    true,
                                                                    true,
                                                                    true,
                                                                    false)),
                                                                    (String
                                                                    ((Ascii
                                                                    (true,
                                                                    false,
                                                                    true,
                                                                    false,
                                                                    false,
                                                                    true,
                                                                    true,
                                                                    false)),
                                                                    EmptyString))))))))))))))))))))
                                                                   then 
                                                                    Some
                                                                    (t_packet
                                                                    (response
                                                                    (arg_packet
                                                                    bs
                                                                    (skipn (S
                                                                    O) zs))
                                                                    (z1 zs)))
                                                                   else None

(** val b4 : bytes list -> bytes **)

let b4 bs =
  nth (S (S (S O))) bs []

(** val t_bytes : bytes -> tok list **)

let t_bytes b =
  (TB b) :: []

(** val t_pair : (bytes * bytes) -> tok list **)

let t_pair p =
  (TB (fst p)) :: ((TB (snd p)) :: [])

(** val dispatch_pw : bytes -> bytes list -> z list -> tok list option **)

let dispatch_pw name bs _ =
  if name_is name (String ((Ascii (true, false, true, true, false, true,
       true, false)), (String ((Ascii (false, true, true, true, false, true,
       false, false)), (String ((Ascii (false, true, true, true, false, true,
       true, false)), (String ((Ascii (true, false, true, false, true, true,
       true, false)), (String ((Ascii (false, false, false, false, true,
       true, true, false)), EmptyString))))))))))
  then Some (t_res (new_user_password md5 (b1 bs) (b2 bs) (b3 bs)) t_bytes)
  else if name_is name (String ((Ascii (true, true, false, false, true, true,
            true, false)), (String ((Ascii (false, true, true, true, false,
            true, false, false)), (String ((Ascii (false, true, true, true,
            false, true, true, false)), (String ((Ascii (true, false, true,
            false, true, true, true, false)), (String ((Ascii (false, false,
            false, false, true, true, true, false)), EmptyString))))))))))
       then Some
              (t_res_s (spec_new_user_password md5 (b1 bs) (b2 bs) (b3 bs))
                t_bytes)
       else if name_is name (String ((Ascii (true, false, true, true, false,
                 true, true, false)), (String ((Ascii (false, true, true,
                 true, false, true, false, false)), (String ((Ascii (true,
                 false, true, false, true, true, true, false)), (String
                 ((Ascii (false, false, false, false, true, true, true,
                 false)), EmptyString))))))))
            then Some
                   (t_res (user_password md5 (b1 bs) (b2 bs) (b3 bs)) t_bytes)
            else if name_is name (String ((Ascii (true, true, false, false,
                      true, true, true, false)), (String ((Ascii (false,
                      true, true, true, false, true, false, false)), (String
                      ((Ascii (true, false, true, false, true, true, true,
                      false)), (String ((Ascii (false, false, false, false,
                      true, true, true, false)), EmptyString))))))))
                 then Some
                        (t_res_s
                          (spec_user_password md5 (b1 bs) (b2 bs) (b3 bs))
                          t_bytes)
                 else if name_is name (String ((Ascii (true, false, true,
                           true, false, true, true, false)), (String ((Ascii
                           (false, true, true, true, false, true, false,
                           false)), (String ((Ascii (false, true, true, true,
                           false, true, true, false)), (String ((Ascii
                           (false, false, true, false, true, true, true,
                           false)), (String ((Ascii (false, false, false,
                           false, true, true, true, false)),
                           EmptyString))))))))))
                      then Some
                             (t_res
                               (new_tunnel_password md5 (b1 bs) (b2 bs)
                                 (b3 bs) (b4 bs)) t_bytes)
                      else if name_is name (String ((Ascii (true, true,
                                false, false, true, true, true, false)),
                                (String ((Ascii (false, true, true, true,
                                false, true, false, false)), (String ((Ascii
                                (false, true, true, true, false, true, true,
                                false)), (String ((Ascii (false, false, true,
                                false, true, true, true, false)), (String
                                ((Ascii (false, false, false, false, true,
                                true, true, false)), EmptyString))))))))))
                           then Some
                                  (t_res_s
                                    (spec_new_tunnel_password md5 (b1 bs)
                                      (b2 bs) (b3 bs) (b4 bs)) t_bytes)
                           else if name_is name (String ((Ascii (true, false,
                                     true, true, false, true, true, false)),
                                     (String ((Ascii (false, true, true,
                                     true, false, true, false, false)),
                                     (String ((Ascii (false, false, true,
                                     false, true, true, true, false)),
                                     (String ((Ascii (false, false, false,
                                     false, true, true, true, false)),
                                     EmptyString))))))))
                                then Some
                                       (t_res
                                         (tunnel_password md5 (b1 bs) 
                                           (b2 bs) (b3 bs)) t_pair)
                                else if name_is name (String ((Ascii (true,
                                          true, false, false, true, true,
                                          true, false)), (String ((Ascii
                                          (false, true, true, true, false,
                                          true, false, false)), (String
                                          ((Ascii (false, false, true, false,
                                          true, true, true, false)), (String
                                          ((Ascii (false, false, false,
                                          false, true, true, true, false)),
                                          EmptyString))))))))
                                     then Some
                                            (t_res_s
                                              (spec_tunnel_password md5
                                                (b1 bs) (b2 bs) (b3 bs))
                                              t_pair)
                                     else None

(** val t_n : n -> tok list **)

let t_n n0 =
  (TI (Z.of_N n0)) :: []

(** val t_z : z -> tok list **)

let t_z z0 =
  (TI z0) :: []

(** val t_nb : (n * bytes) -> tok list **)

let t_nb p =
  (TI (Z.of_N (fst p))) :: ((TB (snd p)) :: [])

(** val zn : z list -> n **)

let zn zs =
  Z.to_N (z1 zs)

(** val dispatch_codec : bytes -> bytes list -> z list -> tok list option **)

let dispatch_codec name bs zs =
  if name_is name (String ((Ascii (true, false, true, true, false, true,
       true, false)), (String ((Ascii (false, true, true, true, false, true,
       false, false)), (String ((Ascii (true, false, false, true, false,
       true, true, false)), (String ((Ascii (false, true, true, true, false,
       true, true, false)), (String ((Ascii (false, false, true, false, true,
       true, true, false)), (String ((Ascii (true, false, true, false, false,
       true, true, false)), (String ((Ascii (true, true, true, false, false,
       true, true, false)), (String ((Ascii (true, false, true, false, false,
       true, true, false)), (String ((Ascii (false, true, false, false, true,
       true, true, false)), EmptyString))))))))))))))))))
  then Some (t_res (integer (b1 bs)) t_n)
  else if name_is name (String ((Ascii (true, true, false, false, true, true,
            true, false)), (String ((Ascii (false, true, true, true, false,
            true, false, false)), (String ((Ascii (true, false, false, true,
            false, true, true, false)), (String ((Ascii (false, true, true,
            true, false, true, true, false)), (String ((Ascii (false, false,
            true, false, true, true, true, false)), (String ((Ascii (true,
            false, true, false, false, true, true, false)), (String ((Ascii
            (true, true, true, false, false, true, true, false)), (String
            ((Ascii (true, false, true, false, false, true, true, false)),
            (String ((Ascii (false, true, false, false, true, true, true,
            false)), EmptyString))))))))))))))))))
       then Some (t_res_s (spec_dec_uint (S (S (S (S O)))) (b1 bs)) t_n)
       else if name_is name (String ((Ascii (true, false, true, true, false,
                 true, true, false)), (String ((Ascii (false, true, true,
                 true, false, true, false, false)), (String ((Ascii (true,
                 true, false, false, true, true, true, false)), (String
                 ((Ascii (false, false, false, true, false, true, true,
                 false)), (String ((Ascii (true, true, true, true, false,
                 true, true, false)), (String ((Ascii (false, true, false,
                 false, true, true, true, false)), (String ((Ascii (false,
                 false, true, false, true, true, true, false)),
                 EmptyString))))))))))))))
            then Some (t_res (short (b1 bs)) t_n)
            else if name_is name (String ((Ascii (true, true, false, false,
                      true, true, true, false)), (String ((Ascii (false,
                      true, true, true, false, true, false, false)), (String
                      ((Ascii (true, true, false, false, true, true, true,
                      false)), (String ((Ascii (false, false, false, true,
                      false, true, true, false)), (String ((Ascii (true,
                      true, true, true, false, true, true, false)), (String
                      ((Ascii (false, true, false, false, true, true, true,
                      false)), (String ((Ascii (false, false, true, false,
                      true, true, true, false)), EmptyString))))))))))))))
                 then Some (t_res_s (spec_dec_uint (S (S O)) (b1 bs)) t_n)
                 else if name_is name (String ((Ascii (true, false, true,
                           true, false, true, true, false)), (String ((Ascii
                           (false, true, true, true, false, true, false,
                           false)), (String ((Ascii (true, false, false,
                           true, false, true, true, false)), (String ((Ascii
                           (false, true, true, true, false, true, true,
                           false)), (String ((Ascii (false, false, true,
                           false, true, true, true, false)), (String ((Ascii
                           (true, false, true, false, false, true, true,
                           false)), (String ((Ascii (true, true, true, false,
                           false, true, true, false)), (String ((Ascii (true,
                           false, true, false, false, true, true, false)),
                           (String ((Ascii (false, true, false, false, true,
                           true, true, false)), (String ((Ascii (false, true,
                           true, false, true, true, false, false)), (String
                           ((Ascii (false, false, true, false, true, true,
                           false, false)), EmptyString))))))))))))))))))))))
                      then Some (t_res (integer64 (b1 bs)) t_n)
                      else if name_is name (String ((Ascii (true, true,
                                false, false, true, true, true, false)),
                                (String ((Ascii (false, true, true, true,
                                false, true, false, false)), (String ((Ascii
                                (true, false, false, true, false, true, true,
                                false)), (String ((Ascii (false, true, true,
                                true, false, true, true, false)), (String
                                ((Ascii (false, false, true, false, true,
                                true, true, false)), (String ((Ascii (true,
                                false, true, false, false, true, true,
                                false)), (String ((Ascii (true, true, true,
                                false, false, true, true, false)), (String
                                ((Ascii (true, false, true, false, false,
                                true, true, false)), (String ((Ascii (false,
                                true, false, false, true, true, true,
                                false)), (String ((Ascii (false, true, true,
                                false, true, true, false, false)), (String
                                ((Ascii (false, false, true, false, true,
                                true, false, false)),
                                EmptyString))))))))))))))))))))))
                           then Some
                                  (t_res_s
                                    (spec_dec_uint (S (S (S (S (S (S (S (S
                                      O)))))))) (b1 bs)) t_n)
                           else if name_is name (String ((Ascii (true, false,
                                     true, true, false, true, true, false)),
                                     (String ((Ascii (false, true, true,
                                     true, false, true, false, false)),
                                     (String ((Ascii (false, true, true,
                                     true, false, true, true, false)),
                                     (String ((Ascii (true, false, true,
                                     false, false, true, true, false)),
                                     (String ((Ascii (true, true, true,
                                     false, true, true, true, false)),
                                     (String ((Ascii (true, true, true, true,
                                     true, false, true, false)), (String
                                     ((Ascii (true, false, false, true,
                                     false, true, true, false)), (String
                                     ((Ascii (false, true, true, true, false,
                                     true, true, false)), (String ((Ascii
                                     (false, false, true, false, true, true,
                                     true, false)), (String ((Ascii (true,
                                     false, true, false, false, true, true,
                                     false)), (String ((Ascii (true, true,
                                     true, false, false, true, true, false)),
                                     (String ((Ascii (true, false, true,
                                     false, false, true, true, false)),
                                     (String ((Ascii (false, true, false,
                                     false, true, true, true, false)),
                                     EmptyString))))))))))))))))))))))))))
                                then Some ((TB (new_integer (zn zs))) :: [])
                                else if name_is name (String ((Ascii (true,
                                          true, false, false, true, true,
                                          true, false)), (String ((Ascii
                                          (false, true, true, true, false,
                                          true, false, false)), (String
                                          ((Ascii (false, true, true, true,
                                          false, true, true, false)), (String
                                          ((Ascii (true, false, true, false,
                                          false, true, true, false)), (String
                                          ((Ascii (true, true, true, false,
                                          true, true, true, false)), (String
                                          ((Ascii (true, true, true, true,
                                          true, false, true, false)), (String
                                          ((Ascii (true, false, false, true,
                                          false, true, true, false)), (String
                                          ((Ascii (false, true, true, true,
                                          false, true, true, false)), (String
                                          ((Ascii (false, false, true, false,
                                          true, true, true, false)), (String
                                          ((Ascii (true, false, true, false,
                                          false, true, true, false)), (String
                                          ((Ascii (true, true, true, false,
                                          false, true, true, false)), (String
                                          ((Ascii (true, false, true, false,
                                          false, true, true, false)), (String
                                          ((Ascii (false, true, false, false,
                                          true, true, true, false)),
                                          EmptyString))))))))))))))))))))))))))
                                     then Some ((TB
                                            (spec_enc_uint (S (S (S (S O))))
                                              (zn zs))) :: [])
                                     else if name_is name (String ((Ascii
                                               (true, false, true, true,
                                               false, true, true, false)),
                                               (String ((Ascii (false, true,
                                               true, true, false, true,
                                               false, false)), (String
                                               ((Ascii (false, true, true,
                                               true, false, true, true,
                                               false)), (String ((Ascii
                                               (true, false, true, false,
                                               false, true, true, false)),
                                               (String ((Ascii (true, true,
                                               true, false, true, true, true,
                                               false)), (String ((Ascii
                                               (true, true, true, true, true,
                                               false, true, false)), (String
                                               ((Ascii (true, true, false,
                                               false, true, true, true,
                                               false)), (String ((Ascii
                                               (false, false, false, true,
                                               false, true, true, false)),
                                               (String ((Ascii (true, true,
                                               true, true, false, true, true,
                                               false)), (String ((Ascii
                                               (false, true, false, false,
                                               true, true, true, false)),
                                               (String ((Ascii (false, false,
                                               true, false, true, true, true,
                                               false)),
                                               EmptyString))))))))))))))))))))))
                                          then Some ((TB
                                                 (new_short (zn zs))) :: [])
                                          else if name_is name (String
                                                    ((Ascii (true, true,
                                                    false, false, true, true,
                                                    true, false)), (String
                                                    ((Ascii (false, true,
                                                    true, true, false, true,
                                                    false, false)), (String
                                                    ((Ascii (false, true,
                                                    true, true, false, true,
                                                    true, false)), (String
                                                    ((Ascii (true, false,
                                                    true, false, false, true,
                                                    true, false)), (String
                                                    ((Ascii (true, true,
                                                    true, false, true, true,
                                                    true, false)), (String
                                                    ((Ascii (true, true,
                                                    true, true, true, false,
                                                    true, false)), (String
                                                    ((Ascii (true, true,
                                                    false, false, true, true,
                                                    true, false)), (String
                                                    ((Ascii (false, false,
                                                    false, true, false, true,
                                                    true, false)), (String
                                                    ((Ascii (true, true,
                                                    true, true, false, true,
                                                    true, false)), (String
                                                    ((Ascii (false, true,
                                                    false, false, true, true,
                                                    true, false)), (String
                                                    ((Ascii (false, false,
                                                    true, false, true, true,
                                                    true, false)),
                                                    EmptyString))))))))))))))))))))))
                                               then Some ((TB
                                                      (spec_enc_uint (S (S
                                                        O)) (zn zs))) :: [])
                                               else if name_is name (String
                                                         ((Ascii (true,
                                                         false, true, true,
                                                         false, true, true,
                                                         false)), (String
                                                         ((Ascii (false,
                                                         true, true, true,
                                                         false, true, false,
                                                         false)), (String
                                                         ((Ascii (false,
                                                         true, true, true,
                                                         false, true, true,
                                                         false)), (String
                                                         ((Ascii (true,
                                                         false, true, false,
                                                         false, true, true,
                                                         false)), (String
                                                         ((Ascii (true, true,
                                                         true, false, true,
                                                         true, true, false)),
                                                         (String ((Ascii
                                                         (true, true, true,
                                                         true, true, false,
                                                         true, false)),
                                                         (String ((Ascii
                                                         (true, false, false,
                                                         true, false, true,
                                                         true, false)),
                                                         (String ((Ascii
                                                         (false, true, true,
                                                         true, false, true,
                                                         true, false)),
                                                         (String ((Ascii
                                                         (false, false, true,
                                                         false, true, true,
                                                         true, false)),
                                                         (String ((Ascii
                                                         (true, false, true,
                                                         false, false, true,
                                                         true, false)),
                                                         (String ((Ascii
                                                         (true, true, true,
                                                         false, false, true,
                                                         true, false)),
                                                         (String ((Ascii
                                                         (true, false, true,
                                                         false, false, true,
                                                         true, false)),
                                                         (String ((Ascii
                                                         (false, true, false,
                                                         false, true, true,
                                                         true, false)),
                                                         (String ((Ascii
                                                         (false, true, true,
                                                         false, true, true,
                                                         false, false)),
                                                         (String ((Ascii
                                                         (false, false, true,
                                                         false, true, true,
                                                         false, false)),
                                                         EmptyString))))))))))))))))))))))))))))))
                                                    then Some ((TB
                                                           (new_integer64
                                                             (zn zs))) :: [])
                                                    else if name_is name
                                                              (String ((Ascii
                                                              (true, true,
                                                              false, false,
                                                              true, true,
                                                              true, false)),
                                                              (String ((Ascii
                                                              (false, true,
                                                              true, true,
                                                              false, true,
                                                              false, false)),
                                                              (String ((Ascii
                                                              (false, true,
                                                              true, true,
                                                              false, true,
                                                              true, false)),
                                                              (String ((Ascii
                                                              (true, false,
                                                              true, false,
                                                              false, true,
                                                              true, false)),
                                                              (String ((Ascii
                                                              (true, true,
                                                              true, false,
                                                              true, true,
                                                              true, false)),
                                                              (String ((Ascii
                                                              (true, true,
                                                              true, true,
                                                              true, false,
                                                              true, false)),
                                                              (String ((Ascii
                                                              (true, false,
                                                              false, true,
                                                              false, true,
                                                              true, false)),
                                                              (String ((Ascii
                                                              (false, true,
                                                              true, true,
                                                              false, true,
                                                              true, false)),
                                                              (String ((Ascii
                                                              (false, false,
                                                              true, false,
                                                              true, true,
                                                              true, false)),
                                                              (String ((Ascii
                                                              (true, false,
                                                              true, false,
                                                              false, true,
                                                              true, false)),
                                                              (String ((Ascii
                                                              (true, true,
                                                              true, false,
                                                              false, true,
                                                              true, false)),
                                                              (String ((Ascii
                                                              (true, false,
                                                              true, false,
                                                              false, true,
                                                              true, false)),
                                                              (String ((Ascii
                                                              (false, true,
                                                              false, false,
                                                              true, true,
                                                              true, false)),
                                                              (String ((Ascii
                                                              (false, true,
                                                              true, false,
                                                              true, true,
                                                              false, false)),
                                                              (String ((Ascii
                                                              (false, false,
                                                              true, false,
                                                              true, true,
                                                              false, false)),
                                                              EmptyString))))))))))))))))))))))))))))))
                                                         then Some ((TB
                                                                (spec_enc_uint
                                                                  (S (S (S (S
                                                                  (S (S (S (S
                                                                  O))))))))
                                                                  (zn zs))) :: [])
                                                         else if name_is name
                                                                   (String
                                                                   ((Ascii
                                                                   (true,
                                                                   false,
                                                                   true,
                                                                   true,
                                                                   false,
                                                                   true,
                                                                   true,
                                                                   false)),
                                                                   (String
                                                                   ((Ascii
                                                                   (false,
                                                                   true,
                                                                   true,
                                                                   true,
                                                                   false,
                                                                   true,
                                                                   false,
                                                                   false)),
                                                                   (String
                                                                   ((Ascii
                                                                   (false,
                                                                   true,
                                                                   true,
                                                                   true,
                                                                   false,
                                                                   true,
                                                                   true,
                                                                   false)),
                                                                   (String
                                                                   ((Ascii
                                                                   (true,
                                                                   false,
                                                                   true,
                                                                   false,
                                                                   false,
                                                                   true,
                                                                   true,
                                                                   false)),
                                                                   (String
                                                                   ((Ascii
                                                                   (true,
                                                                   true,
                                                                   true,
                                                                   false,
                                                                   true,
                                                                   true,
                                                                   true,
                                                                   false)),
                                                                   (String
                                                                   ((Ascii
                                                                   (true,
                                                                   true,
                                                                   true,
                                                                   true,
                                                                   true,
                                                                   false,
                                                                   true,
                                                                   false)),
                                                                   (String
                                                                   ((Ascii
                                                                   (true,
                                                                   true,
                                                                   false,
                                                                   false,
                                                                   true,
                                                                   true,
                                                                   true,
                                                                   false)),
                                                                   (String
                                                                   ((Ascii
                                                                   (false,
                                                                   false,
                                                                   true,
                                                                   false,
                                                                   true,
                                                                   true,
                                                                   true,
                                                                   false)),
                                                                   (String
                                                                   ((Ascii
                                                                   (false,
                                                                   true,
                                                                   false,
                                                                   false,
                                                                   true,
                                                                   true,
                                                                   true,
                                                                   false)),
                                                                   (String
                                                                   ((Ascii
                                                                   (true,
                                                                   false,
                                                                   false,
                                                                   true,
                                                                   false,
                                                                   true,
                                                                   true,
                                                                   false)),
                                                                   (String
                                                                   ((Ascii
                                                                   (false,
                                                                   true,
                                                                   true,
                                                                   true,
                                                                   false,
                                                                   true,
                                                                   true,
                                                                   false)),
                                                                   (String
                                                                   ((Ascii
                                                                   (true,
                                                                   true,
                                                                   true,
                                                                   false,
                                                                   false,
                                                                   true,
                                                                   true,
                                                                   false)),
                                                                   EmptyString))))))))))))))))))))))))
                                                              then Some
                                                                    (t_res
                                                                    (new_string
                                                                    (b1 bs))
                                                                    t_bytes)
                                                              else if 
                                                                    name_is
                                                                    name
                                                                    (String
                                                                    ((Ascii
                                                                    (true,
                                                                    true,
                                                                    false,
                                                                    false,
                                                                    true,
                                                                    true,
                                                                    true,
                                                                    false)),
                                                                    (String
                                                                    ((Ascii
                                                                    (false,
                                                                    true,
                                                                    true,
                                                                    true,
                                                                    false,
                                                                    true,
                                                                    false,
                                                                    false)),
                                                                    (String
                                                                    ((Ascii
                                                                    (false,
                                                                    true,
                                                                    true,
                                                                    true,
                                                                    false,
                                                                    true,
                                                                    true,
                                                                    false)),
                                                                    (String
                                                                    ((Ascii
                                                                    (true,
                                                                    false,
                                                                    true,
                                                                    false,
                                                                    false,
                                                                    true,
                                                                    true,
                                                                    false)),
                                                                    (String
                                                                    ((Ascii
                                                                    (true,
                                                                    true,
                                                                    true,
                                                                    false,
                                                                    true,
                                                                    true,
                                                                    true,
                                                                    false)),
                                                                    (String
                                                                    ((Ascii
                                                                    (true,
                                                                    true,
                                                                    true,
                                                                    true,
                                                                    true,
                                                                    false,
                                                                    true,
                                                                    false)),
                                                                    (String
                                                                    ((Ascii
                                                                    (true,
                                                                    true,
                                                                    false,
                                                                    false,
                                                                    true,
                                                                    true,
                                                                    true,
                                                                    false)),
                                                                    (String
                                                                    ((Ascii
                                                                    (false,
                                                                    false,
                                                                    true,
                                                                    false,
                                                                    true,
                                                                    true,
                                                                    true,
                                                                    false)),
                                                                    (String
                                                                    ((Ascii
                                                                    (false,
                                                                    true,
                                                                    false,
                                                                    false,
                                                                    true,
                                                                    true,
                                                                    true,
                                                                    false)),
                                                                    (String
                                                                    ((Ascii
                                                                    (true,
                                                                    false,
                                                                    false,
                                                                    true,
                                                                    false,
                                                                    true,
                                                                    true,
                                                                    false)),
                                                                    (String
                                                                    ((Ascii
                                                                    (false,
                                                                    true,
                                                                    true,
                                                                    true,
                                                                    false,
                                                                    true,
                                                                    true,
                                                                    false)),
                                                                    (String
                                                                    ((Ascii
                                                                    (true,
                                                                    true,
                                                                    true,
                                                                    false,
                                                                    false,
                                                                    true,
                                                                    true,
                                                                    false)),
                                                                    EmptyString))))))))))))))))))))))))
                                                                   then 
                                                                    Some
                                                                    (t_res_s
                                                                    (spec_new_octets
                                                                    (b1 bs))
                                                                    t_bytes)
                                                                   else 
                                                                    if 
                                                                    name_is
                                                                    name
                                                                    (String
                                                                    ((Ascii
                                                                    (true,
                                                                    false,
                                                                    true,
                                                                    true,
                                                                    false,
                                                                    true,
                                                                    true,
                                                                    false)),
                                                                    (String
                                                                    ((Ascii
                                                                    (false,
                                                                    true,
                                                                    true,
                                                                    true,
                                                                    false,
                                                                    true,
                                                                    false,
                                                                    false)),
                                                                    (String
                                                                    ((Ascii
                                                                    (false,
                                                                    true,
                                                                    true,
                                                                    true,
                                                                    false,
                                                                    true,
                                                                    true,
                                                                    false)),
                                                                    (String
                                                                    ((Ascii
                                                                    (true,
                                                                    false,
                                                                    true,
                                                                    false,
                                                                    false,
                                                                    true,
                                                                    true,
                                                                    false)),
                                                                    (String
                                                                    ((Ascii
                                                                    (true,
                                                                    true,
                                                                    true,
                                                                    false,
                                                                    true,
                                                                    true,
                                                                    true,
                                                                    false)),
                                                                    (String
                                                                    ((Ascii
                                                                    (true,
                                                                    true,
                                                                    true,
                                                                    true,
                                                                    true,
                                                                    false,
                                                                    true,
                                                                    false)),
                                                                    (String
                                                                    ((Ascii
                                                                    (false,
                                                                    true,
                                                                    false,
                                                                    false,
                                                                    false,
                                                                    true,
                                                                    true,
                                                                    false)),
                                                                    (String
                                                                    ((Ascii
                                                                    (true,
                                                                    false,
                                                                    false,
                                                                    true,
                                                                    true,
                                                                    true,
                                                                    true,
                                                                    false)),
                                                                    (String
                                                                    ((Ascii
                                                                    (false,
                                                                    false,
                                                                    true,
                                                                    false,
                                                                    true,
                                                                    true,
                                                                    true,
                                                                    false)),
                                                                    (String
                                                                    ((Ascii
                                                                    (true,
                                                                    false,
                                                                    true,
                                                                    false,
                                                                    false,
                                                                    true,
                                                                    true,
                                                                    false)),
                                                                    (String
                                                                    ((Ascii
                                                                    (true,
                                                                    true,
                                                                    false,
                                                                    false,
                                                                    true,
                                                                    true,
                                                                    true,
                                                                    false)),
                                                                    EmptyString))))))))))))))))))))))
                                                                    then 
                                                                    Some
                                                                    (t_res
                                                                    (new_bytes
                                                                    (b1 bs))
                                                                    t_bytes)
                                                                    else 
                                                                    if 
                                                                    name_is
                                                                    name
                                                                    (String
                                                                    ((Ascii
                                                                    (true,
                                                                    true,
                                                                    false,
                                                                    false,
                                                                    true,
                                                                    true,
                                                                    true,
                                                                    false)),
                                                                    (String
                                                                    ((Ascii
                                                                    (false,
                                                                    true,
                                                                    true,
                                                                    true,
                                                                    false,
                                                                    true,
                                                                    false,
                                                                    false)),
                                                                    (String
                                                                    ((Ascii
                                                                    (false,
                                                                    true,
                                                                    true,
                                                                    true,
                                                                    false,
                                                                    true,
                                                                    true,
                                                                    false)),
                                                                    (String
                                                                    ((Ascii
                                                                    (true,
                                                                    false,
                                                                    true,
                                                                    false,
                                                                    false,
                                                                    true,
                                                                    true,
                                                                    false)),
                                                                    (String
                                                                    ((Ascii
                                                                    (true,
                                                                    true,
                                                                    true,
                                                                    false,
                                                                    true,
                                                                    true,
                                                                    true,
                                                                    false)),
                                                                    (String
                                                                    ((Ascii
                                                                    (true,
                                                                    true,
                                                                    true,
                                                                    true,
                                                                    true,
                                                                    false,
                                                                    true,
                                                                    false)),
                                                                    (String
                                                                    ((Ascii
                                                                    (false,
                                                                    true,
                                                                    false,
                                                                    false,
                                                                    false,
                                                                    true,
                                                                    true,
                                                                    false)),
                                                                    (String
                                                                    ((Ascii
                                                                    (true,
                                                                    false,
                                                                    false,
                                                                    true,
                                                                    true,
                                                                    true,
                                                                    true,
                                                                    false)),
                                                                    (String
                                                                    ((Ascii
                                                                    (false,
                                                                    false,
                                                                    true,
                                                                    false,
                                                                    true,
                                                                    true,
                                                                    true,
                                                                    false)),
                                                                    (String
                                                                    ((Ascii
                                                                    (true,
                                                                    false,
                                                                    true,
                                                                    false,
                                                                    false,
                                                                    true,
                                                                    true,
                                                                    false)),
                                                                    (String
                                                                    ((Ascii
                                                                    (true,
                                                                    true,
                                                                    false,
                                                                    false,
                                                                    true,
                                                                    true,
                                                                    true,
                                                                    false)),
                                                                    EmptyString))))))))))))))))))))))
                                                                    then 
                                                                    Some
                                                                    (t_res_s
                                                                    (spec_new_octets
                                                                    (b1 bs))
                                                                    t_bytes)
                                                                    else 
                                                                    if 
                                                                    name_is
                                                                    name
                                                                    (String
                                                                    ((Ascii
                                                                    (true,
                                                                    false,
                                                                    true,
                                                                    true,
                                                                    false,
                                                                    true,
                                                                    true,
                                                                    false)),
                                                                    (String
                                                                    ((Ascii
                                                                    (false,
                                                                    true,
                                                                    true,
                                                                    true,
                                                                    false,
                                                                    true,
                                                                    false,
                                                                    false)),
                                                                    (String
                                                                    ((Ascii
                                                                    (true,
                                                                    false,
                                                                    false,
                                                                    true,
                                                                    false,
                                                                    true,
                                                                    true,
                                                                    false)),
                                                                    (String
                                                                    ((Ascii
                                                                    (false,
                                                                    false,
                                                                    false,
                                                                    false,
                                                                    true,
                                                                    true,
                                                                    true,
                                                                    false)),
                                                                    (String
                                                                    ((Ascii
                                                                    (true,
                                                                    false,
                                                                    false,
                                                                    false,
                                                                    false,
                                                                    true,
                                                                    true,
                                                                    false)),
                                                                    (String
                                                                    ((Ascii
                                                                    (false,
                                                                    false,
                                                                    true,
                                                                    false,
                                                                    false,
                                                                    true,
                                                                    true,
                                                                    false)),
                                                                    (String
                                                                    ((Ascii
                                                                    (false,
                                                                    false,
                                                                    true,
                                                                    false,
                                                                    false,
                                                                    true,
                                                                    true,
                                                                    false)),
                                                                    (String
                                                                    ((Ascii
                                                                    (false,
                                                                    true,
                                                                    false,
                                                                    false,
                                                                    true,
                                                                    true,
                                                                    true,
                                                                    false)),
                                                                    EmptyString))))))))))))))))
                                                                    then 
                                                                    Some
                                                                    (t_res
                                                                    (ipaddr
                                                                    (b1 bs))
                                                                    t_bytes)
                                                                    else 
                                                                    if 
                                                                    name_is
                                                                    name
                                                                    (String
                                                                    ((Ascii
                                                                    (true,
                                                                    true,
                                                                    false,
                                                                    false,
                                                                    true,
                                                                    true,
                                                                    true,
                                                                    false)),
                                                                    (String
                                                                    ((Ascii
                                                                    (false,
                                                                    true,
                                                                    true,
                                                                    true,
                                                                    false,
                                                                    true,
                                                                    false,
                                                                    false)),
                                                                    (String
                                                                    ((Ascii
                                                                    (true,
                                                                    false,
                                                                    false,
                                                                    true,
                                                                    false,
                                                                    true,
                                                                    true,
                                                                    false)),
                                                                    (String
                                                                    ((Ascii
                                                                    (false,
                                                                    false,
                                                                    false,
                                                                    false,
                                                                    true,
                                                                    true,
                                                                    true,
                                                                    false)),
                                                                    (String
                                                                    ((Ascii
                                                                    (true,
                                                                    false,
                                                                    false,
                                                                    false,
                                                                    false,
                                                                    true,
                                                                    true,
                                                                    false)),
                                                                    (String
                                                                    ((Ascii
                                                                    (false,
                                                                    false,
                                                                    true,
                                                                    false,
                                                                    false,
                                                                    true,
                                                                    true,
                                                                    false)),
                                                                    (String
                                                                    ((Ascii
                                                                    (false,
                                                                    false,
                                                                    true,
                                                                    false,
                                                                    false,
                                                                    true,
                                                                    true,
                                                                    false)),
                                                                    (String
                                                                    ((Ascii
                                                                    (false,
                                                                    true,
                                                                    false,
                                                                    false,
                                                                    true,
                                                                    true,
                                                                    true,
                                                                    false)),
                                                                    EmptyString))))))))))))))))
                                                                    then 
                                                                    Some
                                                                    (t_res_s
                                                                    (spec_fixed
                                                                    (S (S (S
                                                                    (S O))))
                                                                    (b1 bs))
                                                                    t_bytes)
                                                                    else 
                                                                    if 
                                                                    name_is
                                                                    name
                                                                    (String
                                                                    ((Ascii
                                                                    (true,
                                                                    false,
                                                                    true,
                                                                    true,
                                                                    false,
                                                                    true,
                                                                    true,
                                                                    false)),
                                                                    (String
                                                                    ((Ascii
                                                                    (false,
                                                                    true,
                                                                    true,
                                                                    true,
                                                                    false,
                                                                    true,
                                                                    false,
                                                                    false)),
                                                                    (String
                                                                    ((Ascii
                                                                    (false,
                                                                    true,
                                                                    true,
                                                                    true,
                                                                    false,
                                                                    true,
                                                                    true,
                                                                    false)),
                                                                    (String
                                                                    ((Ascii
                                                                    (true,
                                                                    false,
                                                                    true,
                                                                    false,
                                                                    false,
                                                                    true,
                                                                    true,
                                                                    false)),
                                                                    (String
                                                                    ((Ascii
                                                                    (true,
                                                                    true,
                                                                    true,
                                                                    false,
                                                                    true,
                                                                    true,
                                                                    true,
                                                                    false)),
                                                                    (String
                                                                    ((Ascii
                                                                    (true,
                                                                    true,
                                                                    true,
                                                                    true,
                                                                    true,
                                                                    false,
                                                                    true,
                                                                    false)),
                                                                    (String
                                                                    ((Ascii
                                                                    (true,
                                                                    false,
                                                                    false,
                                                                    true,
                                                                    false,
                                                                    true,
                                                                    true,
                                                                    false)),
                                                                    (String
                                                                    ((Ascii
                                                                    (false,
                                                                    false,
                                                                    false,
                                                                    false,
                                                                    true,
                                                                    true,
                                                                    true,
                                                                    false)),
                                                                    (String
                                                                    ((Ascii
                                                                    (true,
                                                                    false,
                                                                    false,
                                                                    false,
                                                                    false,
                                                                    true,
                                                                    true,
                                                                    false)),
                                                                    (String
                                                                    ((Ascii
                                                                    (false,
                                                                    false,
                                                                    true,
                                                                    false,
                                                                    false,
                                                                    true,
                                                                    true,
                                                                    false)),
                                                                    (String
                                                                    ((Ascii
                                                                    (false,
                                                                    false,
                                                                    true,
                                                                    false,
                                                                    false,
                                                                    true,
                                                                    true,
                                                                    false)),
                                                                    (String
                                                                    ((Ascii
                                                                    (false,
                                                                    true,
                                                                    false,
                                                                    false,
                                                                    true,
                                                                    true,
                                                                    true,
                                                                    false)),
                                                                    EmptyString))))))))))))))))))))))))
                                                                    then 
                                                                    Some
                                                                    (t_res
                                                                    (new_ipaddr
                                                                    (b1 bs))
                                                                    t_bytes)
                                                                    else 
                                                                    if 
                                                                    name_is
                                                                    name
                                                                    (String
                                                                    ((Ascii
                                                                    (true,
                                                                    true,
                                                                    false,
                                                                    false,
                                                                    true,
                                                                    true,
                                                                    true,
                                                                    false)),
                                                                    (String
                                                                    ((Ascii
                                                                    (false,
                                                                    true,
                                                                    true,
                                                                    true,
                                                                    false,
                                                                    true,
                                                                    false,
                                                                    false)),
                                                                    (String
                                                                    ((Ascii
                                                                    (false,
                                                                    true,
                                                                    true,
                                                                    true,
                                                                    false,
                                                                    true,
                                                                    true,
                                                                    false)),
                                                                    (String
                                                                    ((Ascii
                                                                    (true,
                                                                    false,
                                                                    true,
                                                                    false,
                                                                    false,
                                                                    true,
                                                                    true,
                                                                    false)),
                                                                    (String
                                                                    ((Ascii
                                                                    (true,
                                                                    true,
                                                                    true,
                                                                    false,
                                                                    true,
                                                                    true,
                                                                    true,
                                                                    false)),
                                                                    (String
                                                                    ((Ascii
                                                                    (true,
                                                                    true,
                                                                    true,
                                                                    true,
                                                                    true,
                                                                    false,
                                                                    true,
                                                                    false)),
                                                                    (String
                                                                    ((Ascii
                                                                    (true,
                                                                    false,
                                                                    false,
                                                                    true,
                                                                    false,
                                                                    true,
                                                                    true,
                                                                    false)),
                                                                    (String
                                                                    ((Ascii
                                                                    (false,
                                                                    false,
                                                                    false,
                                                                    false,
                                                                    true,
                                                                    true,
                                                                    true,
                                                                    false)),
                                                                    (String
                                                                    ((Ascii
                                                                    (true,
                                                                    false,
                                                                    false,
                                                                    false,
                                                                    false,
                                                                    true,
                                                                    true,
                                                                    false)),
                                                                    (String
                                                                    ((Ascii
                                                                    (false,
                                                                    false,
                                                                    true,
                                                                    false,
                                                                    false,
                                                                    true,
                                                                    true,
                                                                    false)),
                                                                    (String
                                                                    ((Ascii
                                                                    (false,
                                                                    false,
                                                                    true,
                                                                    false,
                                                                    false,
                                                                    true,
                                                                    true,
                                                                    false)),
                                                                    (String
                                                                    ((Ascii
                                                                    (false,
                                                                    true,
                                                                    false,
                                                                    false,
                                                                    true,
                                                                    true,
                                                                    true,
                                                                    false)),
                                                                    EmptyString))))))))))))))))))))))))
                                                                    then 
                                                                    Some
                                                                    (t_res_s
                                                                    (spec_new_ipaddr
                                                                    (b1 bs))
                                                                    t_bytes)
                                                                    else 
                                                                    if 
                                                                    name_is
                                                                    name
                                                                    (String
                                                                    ((Ascii
                                                                    (true,
                                                                    false,
                                                                    true,
                                                                    true,
                                                                    false,
                                                                    true,
                                                                    true,
                                                                    false)),
                                                                    (String
                                                                    ((Ascii
                                                                    (false,
                                                                    true,
                                                                    true,
                                                                    true,
                                                                    false,
                                                                    true,
                                                                    false,
                                                                    false)),
                                                                    (String
                                                                    ((Ascii
                                                                    (true,
                                                                    false,
                                                                    false,
                                                                    true,
                                                                    false,
                                                                    true,
                                                                    true,
                                                                    false)),
                                                                    (String
                                                                    ((Ascii
                                                                    (false,
                                                                    false,
                                                                    false,
                                                                    false,
                                                                    true,
                                                                    true,
                                                                    true,
                                                                    false)),
                                                                    (String
                                                                    ((Ascii
                                                                    (false,
                                                                    true,
                                                                    true,
                                                                    false,
                                                                    true,
                                                                    true,
                                                                    true,
                                                                    false)),
                                                                    (String
                                                                    ((Ascii
                                                                    (false,
                                                                    true,
                                                                    true,
                                                                    false,
                                                                    true,
                                                                    true,
                                                                    false,
                                                                    false)),
                                                                    (String
                                                                    ((Ascii
                                                                    (true,
                                                                    false,
                                                                    false,
                                                                    false,
                                                                    false,
                                                                    true,
                                                                    true,
                                                                    false)),
                                                                    (String
                                                                    ((Ascii
                                                                    (false,
                                                                    false,
                                                                    true,
                                                                    false,
                                                                    false,
                                                                    true,
                                                                    true,
                                                                    false)),
                                                                    (String
                                                                    ((Ascii
                                                                    (false,
                                                                    false,
                                                                    true,
                                                                    false,
                                                                    false,
                                                                    true,
                                                                    true,
                                                                    false)),
                                                                    (String
                                                                    ((Ascii
                                                                    (false,
                                                                    true,
                                                                    false,
                                                                    false,
                                                                    true,
                                                                    true,
                                                                    true,
                                                                    false)),
                                                                    EmptyString))))))))))))))))))))
                                                                    then 
                                                                    Some
                                                                    (t_res
                                                                    (ipv6addr
                                                                    (b1 bs))
                                                                    t_bytes)
                                                                    else 
                                                                    if 
                                                                    name_is
                                                                    name
                                                                    (String
                                                                    ((Ascii
                                                                    (true,
                                                                    true,
                                                                    false,
                                                                    false,
                                                                    true,
                                                                    true,
                                                                    true,
                                                                    false)),
                                                                    (String
                                                                    ((Ascii
                                                                    (false,
                                                                    true,
                                                                    true,
                                                                    true,
                                                                    false,
                                                                    true,
                                                                    false,
                                                                    false)),
                                                                    (String
                                                                    ((Ascii
                                                                    (true,
                                                                    false,
                                                                    false,
                                                                    true,
                                                                    false,
                                                                    true,
                                                                    true,
                                                                    false)),
                                                                    (String
                                                                    ((Ascii
                                                                    (false,
                                                                    false,
                                                                    false,
                                                                    false,
                                                                    true,
                                                                    true,
                                                                    true,
                                                                    false)),
                                                                    (String
                                                                    ((Ascii
                                                                    (false,
                                                                    true,
                                                                    true,
                                                                    false,
                                                                    true,
                                                                    true,
                                                                    true,
                                                                    false)),
                                                                    (String
                                                                    ((Ascii
                                                                    (false,
                                                                    true,
                                                                    true,
                                                                    false,
                                                                    true,
                                                                    true,
                                                                    false,
                                                                    false)),
                                                                    (String
                                                                    ((Ascii
                                                                    (true,
                                                                    false,
                                                                    false,
                                                                    false,
                                                                    false,
                                                                    true,
                                                                    true,
                                                                    false)),
                                                                    (String
                                                                    ((Ascii
                                                                    (false,
                                                                    false,
                                                                    true,
                                                                    false,
                                                                    false,
                                                                    true,
                                                                    true,
                                                                    false)),
                                                                    (String
                                                                    ((Ascii
                                                                    (false,
                                                                    false,
                                                                    true,
                                                                    false,
                                                                    false,
                                                                    true,
                                                                    true,
                                                                    false)),
                                                                    (String
                                                                    ((Ascii
                                                                    (false,
                                                                    true,
                                                                    false,
                                                                    false,
                                                                    true,
                                                                    true,
                                                                    true,
                                                                    false)),
                                                                    EmptyString))))))))))))))))))))
                                                                    then 
                                                                    Some
                                                                    (t_res_s
                                                                    (spec_fixed
                                                                    (S (S (S
                                                                    (S (S (S
                                                                    (S (S (S
                                                                    (S (S (S
                                                                    (S (S (S
                                                                    (S
                                                                    O))))))))))))))))
                                                                    (b1 bs))
                                                                    t_bytes)
                                                                    else 
                                                                    if 
                                                                    name_is
                                                                    name
                                                                    (String
                                                                    ((Ascii
                                                                    (true,
                                                                    false,
                                                                    true,
                                                                    true,
                                                                    false,
                                                                    true,
                                                                    true,
                                                                    false)),
                                                                    (String
                                                                    ((Ascii
                                                                    (false,
                                                                    true,
                                                                    true,
                                                                    true,
                                                                    false,
                                                                    true,
                                                                    false,
                                                                    false)),
                                                                    (String
                                                                    ((Ascii
                                                                    (false,
                                                                    true,
                                                                    true,
                                                                    true,
                                                                    false,
                                                                    true,
                                                                    true,
                                                                    false)),
                                                                    (String
                                                                    ((Ascii
                                                                    (true,
                                                                    false,
                                                                    true,
                                                                    false,
                                                                    false,
                                                                    true,
                                                                    true,
                                                                    false)),
                                                                    (String
                                                                    ((Ascii
                                                                    (true,
                                                                    true,
                                                                    true,
                                                                    false,
                                                                    true,
                                                                    true,
                                                                    true,
                                                                    false)),
                                                                    (String
                                                                    ((Ascii
                                                                    (true,
                                                                    true,
                                                                    true,
                                                                    true,
                                                                    true,
                                                                    false,
                                                                    true,
                                                                    false)),
                                                                    (String
                                                                    ((Ascii
                                                                    (true,
                                                                    false,
                                                                    false,
                                                                    true,
                                                                    false,
                                                                    true,
                                                                    true,
                                                                    false)),
                                                                    (String
                                                                    ((Ascii
                                                                    (false,
                                                                    false,
                                                                    false,
                                                                    false,
                                                                    true,
                                                                    true,
                                                                    true,
                                                                    false)),
                                                                    (String
                                                                    ((Ascii
                                                                    (false,
                                                                    true,
                                                                    true,
                                                                    false,
                                                                    true,
                                                                    true,
                                                                    true,
                                                                    false)),
                                                                    (String
                                                                    ((Ascii
                                                                    (false,
                                                                    true,
                                                                    true,
                                                                    false,
                                                                    true,
                                                                    true,
                                                                    false,
                                                                    false)),
                                                                    (String
                                                                    ((Ascii
                                                                    (true,
                                                                    false,
                                                                    false,
                                                                    false,
                                                                    false,
                                                                    true,
                                                                    true,
                                                                    false)),
                                                                    (String
                                                                    ((Ascii
                                                                    (false,
                                                                    false,
                                                                    true,
                                                                    false,
                                                                    false,
                                                                    true,
                                                                    true,
                                                                    false)),
                                                                    (String
                                                                    ((Ascii
                                                                    (false,
                                                                    false,
                                                                    true,
                                                                    false,
                                                                    false,
                                                                    true,
                                                                    true,
                                                                    false)),
                                                                    (String
                                                                    ((Ascii
                                                                    (false,
                                                                    true,
                                                                    false,
                                                                    false,
                                                                    true,
                                                                    true,
                                                                    true,
                                                                    false)),
                                                                    EmptyString))))))))))))))))))))))))))))
                                                                    then 
                                                                    Some
                                                                    (t_res
                                                                    (new_ipv6addr
                                                                    (b1 bs))
                                                                    t_bytes)
                                                                    else 
                                                                    if 
                                                                    name_is
                                                                    name
                                                                    (String
                                                                    ((Ascii
                                                                    (true,
                                                                    true,
                                                                    false,
                                                                    false,
                                                                    true,
                                                                    true,
                                                                    true,
                                                                    false)),
                                                                    (String
                                                                    ((Ascii
                                                                    (false,
                                                                    true,
                                                                    true,
                                                                    true,
                                                                    false,
                                                                    true,
                                                                    false,
                                                                    false)),
                                                                    (String
                                                                    ((Ascii
                                                                    (false,
                                                                    true,
                                                                    true,
                                                                    true,
                                                                    false,
                                                                    true,
                                                                    true,
                                                                    false)),
                                                                    (String
                                                                    ((Ascii
                                                                    (true,
                                                                    false,
                                                                    true,
                                                                    false,
                                                                    false,
                                                                    true,
                                                                    true,
                                                                    false)),
                                                                    (String
                                                                    ((Ascii
                                                                    (true,
                                                                    true,
                                                                    true,
                                                                    false,
                                                                    true,
                                                                    true,
                                                                    true,
                                                                    false)),
                                                                    (String
                                                                    ((Ascii
                                                                    (true,
                                                                    true,
                                                                    true,
                                                                    true,
                                                                    true,
                                                                    false,
                                                                    true,
                                                                    false)),
                                                                    (String
                                                                    ((Ascii
                                                                    (true,
                                                                    false,
                                                                    false,
                                                                    true,
                                                                    false,
                                                                    true,
                                                                    true,
                                                                    false)),
                                                                    (String
                                                                    ((Ascii
                                                                    (false,
                                                                    false,
                                                                    false,
                                                                    false,
                                                                    true,
                                                                    true,
                                                                    true,
                                                                    false)),
                                                                    (String
                                                                    ((Ascii
                                                                    (false,
                                                                    true,
                                                                    true,
                                                                    false,
                                                                    true,
                                                                    true,
                                                                    true,
                                                                    false)),
                                                                    (String
                                                                    ((Ascii
                                                                    (false,
                                                                    true,
                                                                    true,
                                                                    false,
                                                                    true,
                                                                    true,
                                                                    false,
                                                                    false)),
                                                                    (String
                                                                    ((Ascii
                                                                    (true,
                                                                    false,
                                                                    false,
                                                                    false,
                                                                    false,
                                                                    true,
                                                                    true,
                                                                    false)),
                                                                    (String
                                                                    ((Ascii
                                                                    (false,
                                                                    false,
                                                                    true,
                                                                    false,
                                                                    false,
                                                                    true,
                                                                    true,
                                                                    false)),
                                                                    (String
                                                                    ((Ascii
                                                                    (false,
                                                                    false,
                                                                    true,
                                                                    false,
                                                                    false,
                                                                    true,
                                                                    true,
                                                                    false)),
                                                                    (String
                                                                    ((Ascii
                                                                    (false,
                                                                    true,
                                                                    false,
                                                                    false,
                                                                    true,
                                                                    true,
                                                                    true,
                                                                    false)),
                                                                    EmptyString))))))))))))))))))))))))))))
                                                                    then 
                                                                    Some
                                                                    (t_res_s
                                                                    (spec_new_ipv6addr
                                                                    (b1 bs))
                                                                    t_bytes)
                                                                    else 
                                                                    if 
                                                                    name_is
                                                                    name
                                                                    (String
                                                                    ((Ascii
                                                                    (true,
                                                                    false,
                                                                    true,
                                                                    true,
                                                                    false,
                                                                    true,
                                                                    true,
                                                                    false)),
                                                                    (String
                                                                    ((Ascii
                                                                    (false,
                                                                    true,
                                                                    true,
                                                                    true,
                                                                    false,
                                                                    true,
                                                                    false,
                                                                    false)),
                                                                    (String
                                                                    ((Ascii
                                                                    (true,
                                                                    false,
                                                                    false,
                                                                    true,
                                                                    false,
                                                                    true,
                                                                    true,
                                                                    false)),
                                                                    (String
                                                                    ((Ascii
                                                                    (false,
                                                                    true,
                                                                    true,
                                                                    false,
                                                                    false,
                                                                    true,
                                                                    true,
                                                                    false)),
                                                                    (String
                                                                    ((Ascii
                                                                    (true,
                                                                    false,
                                                                    false,
                                                                    true,
                                                                    false,
                                                                    true,
                                                                    true,
                                                                    false)),
                                                                    (String
                                                                    ((Ascii
                                                                    (false,
                                                                    false,
                                                                    true,
                                                                    false,
                                                                    false,
                                                                    true,
                                                                    true,
                                                                    false)),
                                                                    EmptyString))))))))))))
                                                                    then 
                                                                    Some
                                                                    (t_res
                                                                    (ifid
                                                                    (b1 bs))
                                                                    t_bytes)
                                                                    else 
                                                                    if 
                                                                    name_is
                                                                    name
                                                                    (String
                                                                    ((Ascii
                                                                    (true,
                                                                    true,
                                                                    false,
                                                                    false,
                                                                    true,
                                                                    true,
                                                                    true,
                                                                    false)),
                                                                    (String
                                                                    ((Ascii
                                                                    (false,
                                                                    true,
                                                                    true,
                                                                    true,
                                                                    false,
                                                                    true,
                                                                    false,
                                                                    false)),
                                                                    (String
                                                                    ((Ascii
                                                                    (true,
                                                                    false,
                                                                    false,
                                                                    true,
                                                                    false,
                                                                    true,
                                                                    true,
                                                                    false)),
                                                                    (String
                                                                    ((Ascii
                                                                    (false,
                                                                    true,
                                                                    true,
                                                                    false,
                                                                    false,
                                                                    true,
                                                                    true,
                                                                    false)),
                                                                    (String
                                                                    ((Ascii
                                                                    (true,
                                                                    false,
                                                                    false,
                                                                    true,
                                                                    false,
                                                                    true,
                                                                    true,
                                                                    false)),
                                                                    (String
                                                                    ((Ascii
                                                                    (false,
                                                                    false,
                                                                    true,
                                                                    false,
                                                                    false,
                                                                    true,
                                                                    true,
                                                                    false)),
                                                                    EmptyString))))))))))))
                                                                    then 
                                                                    Some
                                                                    (t_res_s
                                                                    (spec_fixed
                                                                    (S (S (S
                                                                    (S (S (S
                                                                    (S (S
                                                                    O))))))))
                                                                    (b1 bs))
                                                                    t_bytes)
                                                                    else 
                                                                    if 
                                                                    name_is
                                                                    name
                                                                    (String
                                                                    ((Ascii
                                                                    (true,
                                                                    false,
                                                                    true,
                                                                    true,
                                                                    false,
                                                                    true,
                                                                    true,
                                                                    false)),
                                                                    (String
                                                                    ((Ascii
                                                                    (false,
                                                                    true,
                                                                    true,
                                                                    true,
                                                                    false,
                                                                    true,
                                                                    false,
                                                                    false)),
                                                                    (String
                                                                    ((Ascii
                                                                    (false,
                                                                    true,
                                                                    true,
                                                                    true,
                                                                    false,
                                                                    true,
                                                                    true,
                                                                    false)),
                                                                    (String
                                                                    ((Ascii
                                                                    (true,
                                                                    false,
                                                                    true,
                                                                    false,
                                                                    false,
                                                                    true,
                                                                    true,
                                                                    false)),
                                                                    (String
                                                                    ((Ascii
                                                                    (true,
                                                                    true,
                                                                    true,
                                                                    false,
                                                                    true,
                                                                    true,
                                                                    true,
                                                                    false)),
                                                                    (String
                                                                    ((Ascii
                                                                    (true,
                                                                    true,
                                                                    true,
                                                                    true,
                                                                    true,
                                                                    false,
                                                                    true,
                                                                    false)),
                                                                    (String
                                                                    ((Ascii
                                                                    (true,
                                                                    false,
                                                                    false,
                                                                    true,
                                                                    false,
                                                                    true,
                                                                    true,
                                                                    false)),
                                                                    (String
                                                                    ((Ascii
                                                                    (false,
                                                                    true,
                                                                    true,
                                                                    false,
                                                                    false,
                                                                    true,
                                                                    true,
                                                                    false)),
                                                                    (String
                                                                    ((Ascii
                                                                    (true,
                                                                    false,
                                                                    false,
                                                                    true,
                                                                    false,
                                                                    true,
                                                                    true,
                                                                    false)),
                                                                    (String
                                                                    ((Ascii
                                                                    (false,
                                                                    false,
                                                                    true,
                                                                    false,
                                                                    false,
                                                                    true,
                                                                    true,
                                                                    false)),
                                                                    EmptyString))))))))))))))))))))
                                                                    then 
                                                                    Some
                                                                    (t_res
                                                                    (new_ifid
                                                                    (b1 bs))
                                                                    t_bytes)
                                                                    else 
                                                                    if 
                                                                    name_is
                                                                    name
                                                                    (String
                                                                    ((Ascii
                                                                    (true,
                                                                    true,
                                                                    false,
                                                                    false,
                                                                    true,
                                                                    true,
                                                                    true,
                                                                    false)),
                                                                    (String
                                                                    ((Ascii
                                                                    (false,
                                                                    true,
                                                                    true,
                                                                    true,
                                                                    false,
                                                                    true,
                                                                    false,
                                                                    false)),
                                                                    (String
                                                                    ((Ascii
                                                                    (false,
                                                                    true,
                                                                    true,
                                                                    true,
                                                                    false,
                                                                    true,
                                                                    true,
                                                                    false)),
                                                                    (String
                                                                    ((Ascii
                                                                    (true,
                                                                    false,
                                                                    true,
                                                                    false,
                                                                    false,
                                                                    true,
                                                                    true,
                                                                    false)),
                                                                    (String
                                                                    ((Ascii
                                                                    (true,
                                                                    true,
                                                                    true,
                                                                    false,
                                                                    true,
                                                                    true,
                                                                    true,
                                                                    false)),
                                                                    (String
                                                                    ((Ascii
                                                                    (true,
                                                                    true,
                                                                    true,
                                                                    true,
                                                                    true,
                                                                    false,
                                                                    true,
                                                                    false)),
                                                                    (String
                                                                    ((Ascii
                                                                    (true,
                                                                    false,
                                                                    false,
                                                                    true,
                                                                    false,
                                                                    true,
                                                                    true,
                                                                    false)),
                                                                    (String
                                                                    ((Ascii
                                                                    (false,
                                                                    true,
                                                                    true,
                                                                    false,
                                                                    false,
                                                                    true,
                                                                    true,
                                                                    false)),
                                                                    (String
                                                                    ((Ascii
                                                                    (true,
                                                                    false,
                                                                    false,
                                                                    true,
                                                                    false,
                                                                    true,
                                                                    true,
                                                                    false)),
                                                                    (String
                                                                    ((Ascii
                                                                    (false,
                                                                    false,
                                                                    true,
                                                                    false,
                                                                    false,
                                                                    true,
                                                                    true,
                                                                    false)),
                                                                    EmptyString))))))))))))))))))))
                                                                    then 
                                                                    Some
                                                                    (t_res_s
                                                                    (spec_fixed
                                                                    (S (S (S
                                                                    (S (S (S
                                                                    (S (S
                                                                    O))))))))
                                                                    (b1 bs))
                                                                    t_bytes)
                                                                    else 
                                                                    if 
                                                                    name_is
                                                                    name
                                                                    (String
                                                                    ((Ascii
                                                                    (true,
                                                                    false,
                                                                    true,
                                                                    true,
                                                                    false,
                                                                    true,
                                                                    true,
                                                                    false)),
                                                                    (String
                                                                    ((Ascii
                                                                    (false,
                                                                    true,
                                                                    true,
                                                                    true,
                                                                    false,
                                                                    true,
                                                                    false,
                                                                    false)),
                                                                    (String
                                                                    ((Ascii
                                                                    (false,
                                                                    false,
                                                                    true,
                                                                    false,
                                                                    false,
                                                                    true,
                                                                    true,
                                                                    false)),
                                                                    (String
                                                                    ((Ascii
                                                                    (true,
                                                                    false,
                                                                    false,
                                                                    false,
                                                                    false,
                                                                    true,
                                                                    true,
                                                                    false)),
                                                                    (String
                                                                    ((Ascii
                                                                    (false,
                                                                    false,
                                                                    true,
                                                                    false,
                                                                    true,
                                                                    true,
                                                                    true,
                                                                    false)),
                                                                    (String
                                                                    ((Ascii
                                                                    (true,
                                                                    false,
                                                                    true,
                                                                    false,
                                                                    false,
                                                                    true,
                                                                    true,
                                                                    false)),
                                                                    EmptyString))))))))))))
                                                                    then 
                                                                    Some
                                                                    (t_res
                                                                    (date
                                                                    (b1 bs))
                                                                    t_z)
                                                                    else 
                                                                    if 
                                                                    name_is
                                                                    name
                                                                    (String
                                                                    ((Ascii
                                                                    (true,
                                                                    true,
                                                                    false,
                                                                    false,
                                                                    true,
                                                                    true,
                                                                    true,
                                                                    false)),
                                                                    (String
                                                                    ((Ascii
                                                                    (false,
                                                                    true,
                                                                    true,
                                                                    true,
                                                                    false,
                                                                    true,
                                                                    false,
                                                                    false)),
                                                                    (String
                                                                    ((Ascii
                                                                    (false,
                                                                    false,
                                                                    true,
                                                                    false,
                                                                    false,
                                                                    true,
                                                                    true,
                                                                    false)),
                                                                    (String
                                                                    ((Ascii
                                                                    (true,
                                                                    false,
                                                                    false,
                                                                    false,
                                                                    false,
                                                                    true,
                                                                    true,
                                                                    false)),
                                                                    (String
                                                                    ((Ascii
                                                                    (false,
                                                                    false,
                                                                    true,
                                                                    false,
                                                                    true,
                                                                    true,
                                                                    true,
                                                                    false)),
                                                                    (String
                                                                    ((Ascii
                                                                    (true,
                                                                    false,
                                                                    true,
                                                                    false,
                                                                    false,
                                                                    true,
                                                                    true,
                                                                    false)),
                                                                    EmptyString))))))))))))
                                                                    then 
                                                                    Some
                                                                    (t_res_s
                                                                    (spec_date
                                                                    (b1 bs))
                                                                    t_z)
                                                                    else 
                                                                    if 
                                                                    name_is
                                                                    name
                                                                    (String
                                                                    ((Ascii
                                                                    (true,
                                                                    false,
                                                                    true,
                                                                    true,
                                                                    false,
                                                                    true,
                                                                    true,
                                                                    false)),
                                                                    (String
                                                                    ((Ascii
                                                                    (false,
                                                                    true,
                                                                    true,
                                                                    true,
                                                                    false,
                                                                    true,
                                                                    false,
                                                                    false)),
                                                                    (String
                                                                    ((Ascii
                                                                    (false,
                                                                    true,
                                                                    true,
                                                                    true,
                                                                    false,
                                                                    true,
                                                                    true,
                                                                    false)),
                                                                    (String
                                                                    ((Ascii
                                                                    (true,
                                                                    false,
                                                                    true,
                                                                    false,
                                                                    false,
                                                                    true,
                                                                    true,
                                                                    false)),
                                                                    (String
                                                                    ((Ascii
                                                                    (true,
                                                                    true,
                                                                    true,
                                                                    false,
                                                                    true,
                                                                    true,
                                                                    true,
                                                                    false)),
                                                                    (String
                                                                    ((Ascii
                                                                    (true,
                                                                    true,
                                                                    true,
                                                                    true,
                                                                    true,
                                                                    false,
                                                                    true,
                                                                    false)),
                                                                    (String
                                                                    ((Ascii
                                                                    (false,
                                                                    false,
                                                                    true,
                                                                    false,
                                                                    false,
                                                                    true,
                                                                    true,
                                                                    false)),
                                                                    (String
                                                                    ((Ascii
                                                                    (true,
                                                                    false,
                                                                    false,
                                                                    false,
                                                                    false,
                                                                    true,
                                                                    true,
                                                                    false)),
                                                                    (String
                                                                    ((Ascii
                                                                    (false,
                                                                    false,
                                                                    true,
                                                                    false,
                                                                    true,
                                                                    true,
                                                                    true,
                                                                    false)),
                                                                    (String
                                                                    ((Ascii
                                                                    (true,
                                                                    false,
                                                                    true,
                                                                    false,
                                                                    false,
                                                                    true,
                                                                    true,
                                                                    false)),
                                                                    EmptyString))))))))))))))))))))
                                                                    then 
                                                                    Some
                                                                    (t_res
                                                                    (new_date
                                                                    (z1 zs))
                                                                    t_bytes)
                                                                    else 
                                                                    if 
                                                                    name_is
                                                                    name
                                                                    (String
                                                                    ((Ascii
                                                                    (true,
                                                                    true,
                                                                    false,
                                                                    false,
                                                                    true,
                                                                    true,
                                                                    true,
                                                                    false)),
                                                                    (String
                                                                    ((Ascii
                                                                    (false,
                                                                    true,
                                                                    true,
                                                                    true,
                                                                    false,
                                                                    true,
                                                                    false,
                                                                    false)),
                                                                    (String
                                                                    ((Ascii
                                                                    (false,
                                                                    true,
                                                                    true,
                                                                    true,
                                                                    false,
                                                                    true,
                                                                    true,
                                                                    false)),
                                                                    (String
                                                                    ((Ascii
                                                                    (true,
                                                                    false,
                                                                    true,
                                                                    false,
                                                                    false,
                                                                    true,
                                                                    true,
                                                                    false)),
                                                                    (String
                                                                    ((Ascii
                                                                    (true,
                                                                    true,
                                                                    true,
                                                                    false,
                                                                    true,
                                                                    true,
                                                                    true,
                                                                    false)),
                                                                    (String
                                                                    ((Ascii
                                                                    (true,
                                                                    true,
                                                                    true,
                                                                    true,
                                                                    true,
                                                                    false,
                                                                    true,
                                                                    false)),
                                                                    (String
                                                                    ((Ascii
                                                                    (false,
                                                                    false,
                                                                    true,
                                                                    false,
                                                                    false,
                                                                    true,
                                                                    true,
                                                                    false)),
                                                                    (String
                                                                    ((Ascii
                                                                    (true,
                                                                    false,
                                                                    false,
                                                                    false,
                                                                    false,
                                                                    true,
                                                                    true,
                                                                    false)),
                                                                    (String
                                                                    ((Ascii
                                                                    (false,
                                                                    false,
                                                                    true,
                                                                    false,
                                                                    true,
                                                                    true,
                                                                    true,
                                                                    false)),
                                                                    (String
                                                                    ((Ascii
                                                                    (true,
                                                                    false,
                                                                    true,
                                                                    false,
                                                                    false,
                                                                    true,
                                                                    true,
                                                                    false)),
                                                                    EmptyString))))))))))))))))))))
                                                                    then 
                                                                    Some
                                                                    (t_res_s
                                                                    (spec_new_date
                                                                    (z1 zs))
                                                                    t_bytes)
                                                                    else 
                                                                    if 
                                                                    name_is
                                                                    name
                                                                    (String
                                                                    ((Ascii
                                                                    (true,
                                                                    false,
                                                                    true,
                                                                    true,
                                                                    false,
                                                                    true,
                                                                    true,
                                                                    false)),
                                                                    (String
                                                                    ((Ascii
                                                                    (false,
                                                                    true,
                                                                    true,
                                                                    true,
                                                                    false,
                                                                    true,
                                                                    false,
                                                                    false)),
                                                                    (String
                                                                    ((Ascii
                                                                    (false,
                                                                    true,
                                                                    true,
                                                                    false,
                                                                    true,
                                                                    true,
                                                                    true,
                                                                    false)),
                                                                    (String
                                                                    ((Ascii
                                                                    (true,
                                                                    true,
                                                                    false,
                                                                    false,
                                                                    true,
                                                                    true,
                                                                    true,
                                                                    false)),
                                                                    (String
                                                                    ((Ascii
                                                                    (true,
                                                                    false,
                                                                    false,
                                                                    false,
                                                                    false,
                                                                    true,
                                                                    true,
                                                                    false)),
                                                                    EmptyString))))))))))
                                                                    then 
                                                                    Some
                                                                    (t_res
                                                                    (vendor_specific
                                                                    (b1 bs))
                                                                    t_nb)
                                                                    else 
                                                                    if 
                                                                    name_is
                                                                    name
                                                                    (String
                                                                    ((Ascii
                                                                    (true,
                                                                    true,
                                                                    false,
                                                                    false,
                                                                    true,
                                                                    true,
                                                                    true,
                                                                    false)),
                                                                    (String
                                                                    ((Ascii
                                                                    (false,
                                                                    true,
                                                                    true,
                                                                    true,
                                                                    false,
                                                                    true,
                                                                    false,
                                                                    false)),
                                                                    (String
                                                                    ((Ascii
                                                                    (false,
                                                                    true,
                                                                    true,
                                                                    false,
                                                                    true,
                                                                    true,
                                                                    true,
                                                                    false)),
                                                                    (String
                                                                    ((Ascii
                                                                    (true,
                                                                    true,
                                                                    false,
                                                                    false,
                                                                    true,
                                                                    true,
                                                                    true,
                                                                    false)),
                                                                    (String
                                                                    ((Ascii
                                                                    (true,
                                                                    false,
                                                                    false,
                                                                    false,
                                                                    false,
                                                                    true,
                                                                    true,
                                                                    false)),
                                                                    EmptyString))))))))))
                                                                    then 
                                                                    Some
                                                                    (t_res_s
                                                                    (spec_vsa
                                                                    (b1 bs))
                                                                    t_nb)
                                                                    else 
                                                                    if 
                                                                    name_is
                                                                    name
                                                                    (String
                                                                    ((Ascii
                                                                    (true,
                                                                    false,
                                                                    true,
                                                                    true,
                                                                    false,
                                                                    true,
                                                                    true,
                                                                    false)),
                                                                    (String
                                                                    ((Ascii
                                                                    (false,
                                                                    true,
                                                                    true,
                                                                    true,
                                                                    false,
                                                                    true,
                                                                    false,
                                                                    false)),
                                                                    (String
                                                                    ((Ascii
                                                                    (false,
                                                                    true,
                                                                    true,
                                                                    true,
                                                                    false,
                                                                    true,
                                                                    true,
                                                                    false)),
                                                                    (String
                                                                    ((Ascii
                                                                    (true,
                                                                    false,
                                                                    true,
                                                                    false,
                                                                    false,
                                                                    true,
                                                                    true,
                                                                    false)),
                                                                    (String
                                                                    ((Ascii
                                                                    (true,
                                                                    true,
                                                                    true,
                                                                    false,
                                                                    true,
                                                                    true,
                                                                    true,
                                                                    false)),
                                                                    (String
                                                                    ((Ascii
                                                                    (true,
                                                                    true,
                                                                    true,
                                                                    true,
                                                                    true,
                                                                    false,
                                                                    true,
                                                                    false)),
                                                                    (String
                                                                    ((Ascii
                                                                    (false,
                                                                    true,
                                                                    true,
                                                                    false,
                                                                    true,
                                                                    true,
                                                                    true,
                                                                    false)),
                                                                    (String
                                                                    ((Ascii
                                                                    (true,
                                                                    true,
                                                                    false,
                                                                    false,
                                                                    true,
                                                                    true,
                                                                    true,
                                                                    false)),
                                                                    (String
                                                                    ((Ascii
                                                                    (true,
                                                                    false,
                                                                    false,
                                                                    false,
                                                                    false,
                                                                    true,
                                                                    true,
                                                                    false)),
                                                                    EmptyString))))))))))))))))))
                                                                    then 
                                                                    Some
                                                                    (t_res
                                                                    (new_vendor_specific
                                                                    (zn zs)
                                                                    (b1 bs))
                                                                    t_bytes)
                                                                    else 
                                                                    if 
                                                                    name_is
                                                                    name
                                                                    (String
                                                                    ((Ascii
                                                                    (true,
                                                                    true,
                                                                    false,
                                                                    false,
                                                                    true,
                                                                    true,
                                                                    true,
                                                                    false)),
                                                                    (String
                                                                    ((Ascii
                                                                    (false,
                                                                    true,
                                                                    true,
                                                                    true,
                                                                    false,
                                                                    true,
                                                                    false,
                                                                    false)),
                                                                    (String
                                                                    ((Ascii
                                                                    (false,
                                                                    true,
                                                                    true,
                                                                    true,
                                                                    false,
                                                                    true,
                                                                    true,
                                                                    false)),
                                                                    (String
                                                                    ((Ascii
                                                                    (true,
                                                                    false,
                                                                    true,
                                                                    false,
                                                                    false,
                                                                    true,
                                                                    true,
                                                                    false)),
                                                                    (String
                                                                    ((Ascii
                                                                    (true,
                                                                    true,
                                                                    true,
                                                                    false,
                                                                    true,
                                                                    true,
                                                                    true,
                                                                    false)),
                                                                    (String
                                                                    ((Ascii
                                                                    (true,
                                                                    true,
                                                                    true,
                                                                    true,
                                                                    true,
                                                                    false,
                                                                    true,
                                                                    false)),
                                                                    (String
                                                                    ((Ascii
                                                                    (false,
                                                                    true,
                                                                    true,
                                                                    false,
                                                                    true,
                                                                    true,
                                                                    true,
                                                                    false)),
                                                                    (String
                                                                    ((Ascii
                                                                    (true,
                                                                    true,
                                                                    false,
                                                                    false,
                                                                    true,
                                                                    true,
                                                                    true,
                                                                    false)),
                                                                    (String
                                                                    ((Ascii
                                                                    (true,
                                                                    false,
                                                                    false,
                                                                    false,
                                                                    false,
                                                                    true,
                                                                    true,
                                                                    false)),
                                                                    EmptyString))))))))))))))))))
                                                                    then 
                                                                    Some
                                                                    (t_res_s
                                                                    (spec_new_vsa
                                                                    (zn zs)
                                                                    (b1 bs))
                                                                    t_bytes)
                                                                    else 
                                                                    if 
                                                                    name_is
                                                                    name
                                                                    (String
                                                                    ((Ascii
                                                                    (true,
                                                                    false,
                                                                    true,
                                                                    true,
                                                                    false,
                                                                    true,
                                                                    true,
                                                                    false)),
                                                                    (String
                                                                    ((Ascii
                                                                    (false,
                                                                    true,
                                                                    true,
                                                                    true,
                                                                    false,
                                                                    true,
                                                                    false,
                                                                    false)),
                                                                    (String
                                                                    ((Ascii
                                                                    (false,
                                                                    false,
                                                                    true,
                                                                    false,
                                                                    true,
                                                                    true,
                                                                    true,
                                                                    false)),
                                                                    (String
                                                                    ((Ascii
                                                                    (false,
                                                                    false,
                                                                    true,
                                                                    true,
                                                                    false,
                                                                    true,
                                                                    true,
                                                                    false)),
                                                                    (String
                                                                    ((Ascii
                                                                    (false,
                                                                    true,
                                                                    true,
                                                                    false,
                                                                    true,
                                                                    true,
                                                                    true,
                                                                    false)),
                                                                    EmptyString))))))))))
                                                                    then 
                                                                    Some
                                                                    (t_res
                                                                    (tlv_dec
                                                                    (b1 bs))
                                                                    t_nb)
                                                                    else 
                                                                    if 
                                                                    name_is
                                                                    name
                                                                    (String
                                                                    ((Ascii
                                                                    (true,
                                                                    true,
                                                                    false,
                                                                    false,
                                                                    true,
                                                                    true,
                                                                    true,
                                                                    false)),
                                                                    (String
                                                                    ((Ascii
                                                                    (false,
                                                                    true,
                                                                    true,
                                                                    true,
                                                                    false,
                                                                    true,
                                                                    false,
                                                                    false)),
                                                                    (String
                                                                    ((Ascii
                                                                    (false,
                                                                    false,
                                                                    true,
                                                                    false,
                                                                    true,
                                                                    true,
                                                                    true,
                                                                    false)),
                                                                    (String
                                                                    ((Ascii
                                                                    (false,
                                                                    false,
                                                                    true,
                                                                    true,
                                                                    false,
                                                                    true,
                                                                    true,
                                                                    false)),
                                                                    (String
                                                                    ((Ascii
                                                                    (false,
                                                                    true,
                                                                    true,
                                                                    false,
                                                                    true,
                                                                    true,
                                                                    true,
                                                                    false)),
                                                                    EmptyString))))))))))
                                                                    then 
                                                                    Some
                                                                    (t_res_s
                                                                    (spec_tlv6929
                                                                    (b1 bs))
                                                                    t_nb)
                                                                    else 
                                                                    if 
                                                                    name_is
                                                                    name
                                                                    (String
                                                                    ((Ascii
                                                                    (true,
                                                                    false,
                                                                    true,
                                                                    true,
                                                                    false,
                                                                    true,
                                                                    true,
                                                                    false)),
                                                                    (String
                                                                    ((Ascii
                                                                    (false,
                                                                    true,
                                                                    true,
                                                                    true,
                                                                    false,
                                                                    true,
                                                                    false,
                                                                    false)),
                                                                    (String
                                                                    ((Ascii
                                                                    (false,
                                                                    true,
                                                                    true,
                                                                    true,
                                                                    false,
                                                                    true,
                                                                    true,
                                                                    false)),
                                                                    (String
                                                                    ((Ascii
                                                                    (true,
                                                                    false,
                                                                    true,
                                                                    false,
                                                                    false,
                                                                    true,
                                                                    true,
                                                                    false)),
                                                                    (String
                                                                    ((Ascii
                                                                    (true,
                                                                    true,
                                                                    true,
                                                                    false,
                                                                    true,
                                                                    true,
                                                                    true,
                                                                    false)),
                                                                    (String
                                                                    ((Ascii
                                                                    (true,
                                                                    true,
                                                                    true,
                                                                    true,
                                                                    true,
                                                                    false,
                                                                    true,
                                                                    false)),
                                                                    (String
                                                                    ((Ascii
                                                                    (false,
                                                                    false,
                                                                    true,
                                                                    false,
                                                                    true,
                                                                    true,
                                                                    true,
                                                                    false)),
                                                                    (String
                                                                    ((Ascii
                                                                    (false,
                                                                    false,
                                                                    true,
                                                                    true,
                                                                    false,
                                                                    true,
                                                                    true,
                                                                    false)),
                                                                    (String
                                                                    ((Ascii
                                                                    (false,
                                                                    true,
                                                                    true,
                                                                    false,
                                                                    true,
                                                                    true,
                                                                    true,
                                                                    false)),
                                                                    EmptyString))))))))))))))))))
                                                                    then 
                                                                    Some
                                                                    (t_res
                                                                    (new_tlv
                                                                    (zn zs)
                                                                    (b1 bs))
                                                                    t_bytes)
                                                                    else 
                                                                    if 
                                                                    name_is
                                                                    name
                                                                    (String
                                                                    ((Ascii
                                                                    (true,
                                                                    true,
                                                                    false,
                                                                    false,
                                                                    true,
                                                                    true,
                                                                    true,
                                                                    false)),
                                                                    (String
                                                                    ((Ascii
                                                                    (false,
                                                                    true,
                                                                    true,
                                                                    true,
                                                                    false,
                                                                    true,
                                                                    false,
                                                                    false)),
                                                                    (String
                                                                    ((Ascii
                                                                    (false,
                                                                    true,
                                                                    true,
                                                                    true,
                                                                    false,
                                                                    true,
                                                                    true,
                                                                    false)),
                                                                    (String
                                                                    ((Ascii
                                                                    (true,
                                                                    false,
                                                                    true,
                                                                    false,
                                                                    false,
                                                                    true,
                                                                    true,
                                                                    false)),
                                                                    (String
                                                                    ((Ascii
                                                                    (true,
                                                                    true,
                                                                    true,
                                                                    false,
                                                                    true,
                                                                    true,
                                                                    true,
                                                                    false)),
                                                                    (String
                                                                    ((Ascii
                                                                    (true,
                                                                    true,
                                                                    true,
                                                                    true,
                                                                    true,
                                                                    false,
                                                                    true,
                                                                    false)),
                                                                    (String
                                                                    ((Ascii
                                                                    (false,
                                                                    false,
                                                                    true,
                                                                    false,
                                                                    true,
                                                                    true,
                                                                    true,
                                                                    false)),
                                                                    (String
                                                                    ((Ascii
                                                                    (false,
                                                                    false,
                                                                    true,
                                                                    true,
                                                                    false,
                                                                    true,
                                                                    true,
                                                                    false)),
                                                                    (String
                                                                    ((Ascii
                                                                    (false,
                                                                    true,
                                                                    true,
                                                                    false,
                                                                    true,
                                                                    true,
                                                                    true,
                                                                    false)),
                                                                    EmptyString))))))))))))))))))
                                                                    then 
                                                                    Some
                                                                    (t_res_s
                                                                    (spec_new_tlv
                                                                    (zn zs)
                                                                    (b1 bs))
                                                                    t_bytes)
                                                                    else 
                                                                    if 
                                                                    name_is
                                                                    name
                                                                    (String
                                                                    ((Ascii
                                                                    (true,
                                                                    false,
                                                                    true,
                                                                    true,
                                                                    false,
                                                                    true,
                                                                    true,
                                                                    false)),
                                                                    (String
                                                                    ((Ascii
                                                                    (false,
                                                                    true,
                                                                    true,
                                                                    true,
                                                                    false,
                                                                    true,
                                                                    false,
                                                                    false)),
                                                                    (String
                                                                    ((Ascii
                                                                    (false,
                                                                    false,
                                                                    false,
                                                                    false,
                                                                    true,
                                                                    true,
                                                                    true,
                                                                    false)),
                                                                    (String
                                                                    ((Ascii
                                                                    (false,
                                                                    true,
                                                                    false,
                                                                    false,
                                                                    true,
                                                                    true,
                                                                    true,
                                                                    false)),
                                                                    (String
                                                                    ((Ascii
                                                                    (true,
                                                                    false,
                                                                    true,
                                                                    false,
                                                                    false,
                                                                    true,
                                                                    true,
                                                                    false)),
                                                                    (String
                                                                    ((Ascii
                                                                    (false,
                                                                    true,
                                                                    true,
                                                                    false,
                                                                    false,
                                                                    true,
                                                                    true,
                                                                    false)),
                                                                    (String
                                                                    ((Ascii
                                                                    (true,
                                                                    false,
                                                                    false,
                                                                    true,
                                                                    false,
                                                                    true,
                                                                    true,
                                                                    false)),
                                                                    (String
                                                                    ((Ascii
                                                                    (false,
                                                                    false,
                                                                    false,
                                                                    true,
                                                                    true,
                                                                    true,
                                                                    true,
                                                                    false)),
                                                                    EmptyString))))))))))))))))
                                                                    then 
                                                                    Some
                                                                    (t_res
                                                                    (ipv6prefix
                                                                    (b1 bs))
                                                                    t_pair)
                                                                    else 
                                                                    if 
                                                                    name_is
                                                                    name
                                                                    (String
                                                                    ((Ascii
                                                                    (true,
                                                                    true,
                                                                    false,
                                                                    false,
                                                                    true,
                                                                    true,
                                                                    true,
                                                                    false)),
                                                                    (String
                                                                    ((Ascii
                                                                    (false,
                                                                    true,
                                                                    true,
                                                                    true,
                                                                    false,
                                                                    true,
                                                                    false,
                                                                    false)),
                                                                    (String
                                                                    ((Ascii
                                                                    (false,
                                                                    false,
                                                                    false,
                                                                    false,
                                                                    true,
                                                                    true,
                                                                    true,
                                                                    false)),
                                                                    (String
                                                                    ((Ascii
                                                                    (false,
                                                                    true,
                                                                    false,
                                                                    false,
                                                                    true,
                                                                    true,
                                                                    true,
                                                                    false)),
                                                                    (String
                                                                    ((Ascii
                                                                    (true,
                                                                    false,
                                                                    true,
                                                                    false,
                                                                    false,
                                                                    true,
                                                                    true,
                                                                    false)),
                                                                    (String
                                                                    ((Ascii
                                                                    (false,
                                                                    true,
                                                                    true,
                                                                    false,
                                                                    false,
                                                                    true,
                                                                    true,
                                                                    false)),
                                                                    (String
                                                                    ((Ascii
                                                                    (true,
                                                                    false,
                                                                    false,
                                                                    true,
                                                                    false,
                                                                    true,
                                                                    true,
                                                                    false)),
                                                                    (String
                                                                    ((Ascii
                                                                    (false,
                                                                    false,
                                                                    false,
                                                                    true,
                                                                    true,
                                                                    true,
                                                                    true,
                                                                    false)),
                                                                    EmptyString))))))))))))))))
                                                                    then 
                                                                    Some
                                                                    (t_res_s
                                                                    (spec_ipv6prefix
                                                                    (b1 bs))
                                                                    t_pair)
                                                                    else 
                                                                    if 
                                                                    name_is
                                                                    name
                                                                    (String
                                                                    ((Ascii
                                                                    (true,
                                                                    false,
                                                                    true,
                                                                    true,
                                                                    false,
                                                                    true,
                                                                    true,
                                                                    false)),
                                                                    (String
                                                                    ((Ascii
                                                                    (false,
                                                                    true,
                                                                    true,
                                                                    true,
                                                                    false,
                                                                    true,
                                                                    false,
                                                                    false)),
                                                                    (String
                                                                    ((Ascii
                                                                    (false,
                                                                    true,
                                                                    true,
                                                                    true,
                                                                    false,
                                                                    true,
                                                                    true,
                                                                    false)),
                                                                    (String
                                                                    ((Ascii
                                                                    (true,
                                                                    false,
                                                                    true,
                                                                    false,
                                                                    false,
                                                                    true,
                                                                    true,
                                                                    false)),
                                                                    (String
                                                                    ((Ascii
                                                                    (true,
                                                                    true,
                                                                    true,
                                                                    false,
                                                                    true,
                                                                    true,
                                                                    true,
                                                                    false)),
                                                                    (String
                                                                    ((Ascii
                                                                    (true,
                                                                    true,
                                                                    true,
                                                                    true,
                                                                    true,
                                                                    false,
                                                                    true,
                                                                    false)),
                                                                    (String
                                                                    ((Ascii
                                                                    (false,
                                                                    false,
                                                                    false,
                                                                    false,
                                                                    true,
                                                                    true,
                                                                    true,
                                                                    false)),
                                                                    (String
                                                                    ((Ascii
                                                                    (false,
                                                                    true,
                                                                    false,
                                                                    false,
                                                                    true,
                                                                    true,
                                                                    true,
                                                                    false)),
                                                                    (String
                                                                    ((Ascii
                                                                    (true,
                                                                    false,
                                                                    true,
                                                                    false,
                                                                    false,
                                                                    true,
                                                                    true,
                                                                    false)),
                                                                    (String
                                                                    ((Ascii
                                                                    (false,
                                                                    true,
                                                                    true,
                                                                    false,
                                                                    false,
                                                                    true,
                                                                    true,
                                                                    false)),
                                                                    (String
                                                                    ((Ascii
                                                                    (true,
                                                                    false,
                                                                    false,
                                                                    true,
                                                                    false,
                                                                    true,
                                                                    true,
                                                                    false)),
                                                                    (String
                                                                    ((Ascii
                                                                    (false,
                                                                    false,
                                                                    false,
                                                                    true,
                                                                    true,
                                                                    true,
                                                                    true,
                                                                    false)),
                                                                    EmptyString))))))))))))))))))))))))
                                                                    then 
                                                                    Some
                                                                    (t_res
                                                                    (new_ipv6prefix
                                                                    (b1 bs)
                                                                    (b2 bs))
                                                                    t_bytes)
                                                                    else 
                                                                    if 
                                                                    name_is
                                                                    name
                                                                    (String
                                                                    ((Ascii
                                                                    (true,
                                                                    true,
                                                                    false,
                                                                    false,
                                                                    true,
                                                                    true,
                                                                    true,
                                                                    false)),
                                                                    (String
                                                                    ((Ascii
                                                                    (false,
                                                                    true,
                                                                    true,
                                                                    true,
                                                                    false,
                                                                    true,
                                                                    false,
                                                                    false)),
                                                                    (String
                                                                    ((Ascii
                                                                    (false,
                                                                    true,
                                                                    true,
                                                                    true,
                                                                    false,
                                                                    true,
                                                                    true,
                                                                    false)),
                                                                    (String
                                                                    ((Ascii
                                                                    (true,
                                                                    false,
                                                                    true,
                                                                    false,
                                                                    false,
                                                                    true,
                                                                    true,
                                                                    false)),
                                                                    (String
                                                                    ((Ascii
                                                                    (true,
                                                                    true,
                                                                    true,
                                                                    false,
                                                                    true,
                                                                    true,
                                                                    true,
                                                                    false)),
                                                                    (String
                                                                    ((Ascii
                                                                    (true,
                                                                    true,
                                                                    true,
                                                                    true,
                                                                    true,
                                                                    false,
                                                                    true,
                                                                    false)),
                                                                    (String
                                                                    ((Ascii
                                                                    (false,
                                                                    false,
                                                                    false,
                                                                    false,
                                                                    true,
                                                                    true,
                                                                    true,
                                                                    false)),
                                                                    (String
                                                                    ((Ascii
                                                                    (false,
                                                                    true,
                                                                    false,
                                                                    false,
                                                                    true,
                                                                    true,
                                                                    true,
                                                                    false)),
                                                                    (String
                                                                    ((Ascii
                                                                    (true,
                                                                    false,
                                                                    true,
                                                                    false,
                                                                    false,
                                                                    true,
                                                                    true,
                                                                    false)),
                                                                    (String
                                                                    ((Ascii
                                                                    (false,
                                                                    true,
                                                                    true,
                                                                    false,
                                                                    false,
                                                                    true,
                                                                    true,
                                                                    false)),
                                                                    (String
                                                                    ((Ascii
                                                                    (true,
                                                                    false,
                                                                    false,
                                                                    true,
                                                                    false,
                                                                    true,
                                                                    true,
                                                                    false)),
                                                                    (String
                                                                    ((Ascii
                                                                    (false,
                                                                    false,
                                                                    false,
                                                                    true,
                                                                    true,
                                                                    true,
                                                                    true,
                                                                    false)),
                                                                    EmptyString))))))))))))))))))))))))
                                                                    then 
                                                                    Some
                                                                    (t_res_s
                                                                    (spec_new_ipv6prefix
                                                                    (b1 bs)
                                                                    (b2 bs))
                                                                    t_bytes)
                                                                    else None

(** val t_outcome : outcome -> tok list **)

let t_outcome = function
| Returned (p, _) -> (TI Z0) :: (t_packet p)
| Failed (e, _) -> (TI (Zpos XH)) :: ((TI (Z.of_N e)) :: [])
| Waiting _ -> (TI (Zpos (XO XH))) :: []

(** val t_soutcome : soutcome -> tok list **)

let t_soutcome = function
| SReturned (t, _) -> (TI Z0) :: (t_tuple t)
| SFailed (e, _) -> (TI (Zpos XH)) :: ((TI (Z.of_N e)) :: [])
| SWaiting _ -> (TI (Zpos (XO XH))) :: []

(** val dispatch_client : bytes -> bytes list -> z list -> tok list option **)

let dispatch_client name bs zs =
  if name_is name (String ((Ascii (true, false, true, true, false, true,
       true, false)), (String ((Ascii (false, true, true, true, false, true,
       false, false)), (String ((Ascii (true, true, false, false, false,
       true, true, false)), (String ((Ascii (false, false, true, true, false,
       true, true, false)), (String ((Ascii (true, false, false, true, false,
       true, true, false)), (String ((Ascii (true, false, true, false, false,
       true, true, false)), (String ((Ascii (false, true, true, true, false,
       true, true, false)), (String ((Ascii (false, false, true, false, true,
       true, true, false)), EmptyString))))))))))))))))
  then Some
         (t_outcome
           (exchange_recv md5 (z1 zs) (Z.eqb (nth (S O) zs Z0) (Zpos XH))
             (b1 bs) (b2 bs) (skipn (S (S O)) bs)))
  else if name_is name (String ((Ascii (true, true, false, false, true, true,
            true, false)), (String ((Ascii (false, true, true, true, false,
            true, false, false)), (String ((Ascii (true, true, false, false,
            false, true, true, false)), (String ((Ascii (false, false, true,
            true, false, true, true, false)), (String ((Ascii (true, false,
            false, true, false, true, true, false)), (String ((Ascii (true,
            false, true, false, false, true, true, false)), (String ((Ascii
            (false, true, true, true, false, true, true, false)), (String
            ((Ascii (false, false, true, false, true, true, true, false)),
            EmptyString))))))))))))))))
       then Some
              (t_soutcome
                (spec_exchange_recv md5 (z1 zs)
                  (Z.eqb (nth (S O) zs Z0) (Zpos XH)) (b1 bs) (b2 bs)
                  (skipn (S (S O)) bs)))
       else None

(** val take_hacts : z list -> hact list **)

let rec take_hacts = function
| [] -> []
| k :: l ->
  (match l with
   | [] -> []
   | a :: l0 ->
     (match l0 with
      | [] -> []
      | b :: r ->
        (if Z.eqb k Z0
         then HServe (Z.to_nat a)
         else if Z.eqb k (Zpos XH)
              then HRelease (Z.to_nat a)
              else if Z.eqb k (Zpos (XO XH))
                   then HDeliver ((Z.to_nat a), (Z.eqb b (Zpos XH)))
                   else if Z.eqb k (Zpos (XI XH))
                        then HHandlerDone (Z.to_nat a)
                        else if Z.eqb k (Zpos (XO (XO XH)))
                             then HShutdown
                             else if Z.eqb k (Zpos (XI (XO XH)))
                                  then HWait (Z.to_nat a)
                                  else HExpire (Z.to_nat a)) :: (take_hacts r)))

(** val dispatch_sched : bytes -> bytes list -> z list -> tok list option **)

let dispatch_sched name _ zs =
  if name_is name (String ((Ascii (true, false, true, true, false, true,
       true, false)), (String ((Ascii (false, true, true, true, false, true,
       false, false)), (String ((Ascii (true, true, false, false, true, true,
       true, false)), (String ((Ascii (true, true, false, false, false, true,
       true, false)), (String ((Ascii (false, false, false, true, false,
       true, true, false)), (String ((Ascii (true, false, true, false, false,
       true, true, false)), (String ((Ascii (false, false, true, false,
       false, true, true, false)), EmptyString))))))))))))))
  then Some
         (flat_map (fun l -> (TI (Zneg XH)) :: (map (fun x -> TI x) l))
           (run_hacts false init (take_hacts zs)))
  else if name_is name (String ((Ascii (true, false, true, true, false, true,
            true, false)), (String ((Ascii (false, true, true, true, false,
            true, false, false)), (String ((Ascii (true, true, false, false,
            true, true, true, false)), (String ((Ascii (true, true, false,
            false, false, true, true, false)), (String ((Ascii (false, false,
            false, true, false, true, true, false)), (String ((Ascii (true,
            false, true, false, false, true, true, false)), (String ((Ascii
            (false, false, true, false, false, true, true, false)), (String
            ((Ascii (true, true, true, true, true, false, true, false)),
            (String ((Ascii (false, false, true, true, false, true, true,
            false)), (String ((Ascii (true, false, true, false, false, true,
            true, false)), (String ((Ascii (true, true, true, false, false,
            true, true, false)), (String ((Ascii (true, false, false, false,
            false, true, true, false)), (String ((Ascii (true, true, false,
            false, false, true, true, false)), (String ((Ascii (true, false,
            false, true, true, true, true, false)),
            EmptyString))))))))))))))))))))))))))))
       then Some
              (flat_map (fun l -> (TI (Zneg XH)) :: (map (fun x -> TI x) l))
                (run_hacts true init (take_hacts zs)))
       else None

(** val take_devents : z list -> bytes list -> devent list **)

let rec take_devents zs bs =
  match zs with
  | [] -> []
  | k :: l ->
    (match l with
     | [] -> []
     | a :: r ->
       if Z.eqb k Z0
       then (match bs with
             | [] -> []
             | d :: bs' -> (DArrive ((Z.to_N a), d)) :: (take_devents r bs'))
       else (if Z.eqb k (Zpos XH)
             then DReturn (Z.to_nat a)
             else DClean (Z.to_nat a)) :: (take_devents r bs))

(** val t_dout : dout -> tok list **)

let t_dout = function
| ODropped -> (TI Z0) :: []
| ODispatched r ->
  (TI (Zpos XH)) :: ((TI (Z.of_N r.r_remote)) :: (t_packet r.r_packet))
| ONone -> (TI (Zpos (XO XH))) :: []

(** val dispatch_c06 : bytes -> bytes list -> z list -> tok list option **)

let dispatch_c06 name bs zs =
  if name_is name (String ((Ascii (true, true, false, false, true, true,
       true, false)), (String ((Ascii (false, true, true, true, false, true,
       false, false)), (String ((Ascii (false, false, true, false, false,
       true, true, false)), (String ((Ascii (true, false, false, true, false,
       true, true, false)), (String ((Ascii (true, true, false, false, true,
       true, true, false)), (String ((Ascii (false, false, false, false,
       true, true, true, false)), (String ((Ascii (true, false, false, false,
       false, true, true, false)), (String ((Ascii (false, false, true,
       false, true, true, true, false)), (String ((Ascii (true, true, false,
       false, false, true, true, false)), (String ((Ascii (false, false,
       false, true, false, true, true, false)),
       EmptyString))))))))))))))))))))
  then (match zs with
        | [] -> Some ((TI (Zneg (XO (XO (XO (XO (XO (XI XH)))))))) :: [])
        | sk :: l ->
          (match l with
           | [] -> Some ((TI (Zneg (XO (XO (XO (XO (XO (XI XH)))))))) :: [])
           | np :: r ->
             let n0 = Z.to_nat np in
             let errs = firstn n0 r in
             let secs = firstn n0 bs in
             let so = fun a ->
               if Z.eqb (nth (N.to_nat a) errs (Zpos XH)) (Zpos XH)
               then SecErr
               else Sec (nth (N.to_nat a) secs [])
             in
             let (s, outs) =
               spec_drun md5 (Z.eqb sk (Zpos XH)) so dinit
                 (take_devents (skipn n0 r) (skipn n0 bs))
             in
             Some (app (flat_map t_dout outs) ((TI (zlen s.inflight)) :: []))))
  else if name_is name (String ((Ascii (true, false, true, true, false, true,
            true, false)), (String ((Ascii (false, true, true, true, false,
            true, false, false)), (String ((Ascii (false, false, true, false,
            false, true, true, false)), (String ((Ascii (true, false, false,
            true, false, true, true, false)), (String ((Ascii (true, true,
            false, false, true, true, true, false)), (String ((Ascii (false,
            false, false, false, true, true, true, false)), (String ((Ascii
            (true, false, false, false, false, true, true, false)), (String
            ((Ascii (false, false, true, false, true, true, true, false)),
            (String ((Ascii (true, true, false, false, false, true, true,
            false)), (String ((Ascii (false, false, false, true, false, true,
            true, false)), EmptyString))))))))))))))))))))
       then (match zs with
             | [] -> Some ((TI (Zneg (XO (XO (XO (XO (XO (XI XH)))))))) :: [])
             | sk :: l ->
               (match l with
                | [] ->
                  Some ((TI (Zneg (XO (XO (XO (XO (XO (XI XH)))))))) :: [])
                | np :: r ->
                  let n0 = Z.to_nat np in
                  let errs = firstn n0 r in
                  let secs = firstn n0 bs in
                  let so = fun a ->
                    if Z.eqb (nth (N.to_nat a) errs (Zpos XH)) (Zpos XH)
                    then SecErr
                    else Sec (nth (N.to_nat a) secs [])
                  in
                  let (s, outs) =
                    drun md5 (Z.eqb sk (Zpos XH)) so dinit
                      (take_devents (skipn n0 r) (skipn n0 bs))
                  in
                  Some
                  (app (flat_map t_dout outs) ((TI (zlen s.inflight)) :: []))))
       else if name_is name (String ((Ascii (true, false, true, true, false,
                 true, true, false)), (String ((Ascii (false, true, true,
                 true, false, true, false, false)), (String ((Ascii (false,
                 true, false, false, true, true, true, false)), (String
                 ((Ascii (true, false, true, false, false, true, true,
                 false)), (String ((Ascii (false, false, false, false, true,
                 true, true, false)), (String ((Ascii (false, false, true,
                 true, false, true, true, false)), (String ((Ascii (true,
                 false, false, true, true, true, true, false)),
                 EmptyString))))))))))))))
            then (match parse (b1 bs) (b2 bs) with
                  | Ok p ->
                    Some
                      (t_res
                        (response_write md5 { r_packet = p; r_remote =
                          (Z.to_N (nth (S O) zs Z0)) } { code = (z1 zs);
                          ident = p.ident; auth = p.auth; secret = p.secret;
                          pattrs = ({ atype = (Zpos (XO (XI (XO (XO XH)))));
                          aval = (b3 bs) } :: []) }) (fun x -> (TI
                        (Z.of_N (fst x))) :: ((TB (snd x)) :: [])))
                  | _ ->
                    Some ((TI (Zneg (XI (XI (XI (XI (XI (XO XH)))))))) :: []))
            else None

(** val take_xevents : z list -> bytes list -> xevent list * bytes list **)

let rec take_xevents ks bs =
  match ks with
  | [] -> ([], bs)
  | k :: r ->
    if Z.eqb k (Zpos (XO XH))
    then (match bs with
          | [] -> ([], [])
          | d :: bs' ->
            let (es, rest) = take_xevents r bs' in
            (((XDatagram d) :: es), rest))
    else let (es, rest) = take_xevents r bs in
         (((if Z.eqb k Z0
            then XStep
            else if Z.eqb k (Zpos XH)
                 then XDialFail
                 else if Z.eqb k (Zpos (XI XH))
                      then XReadErr
                      else if Z.eqb k (Zpos (XO (XO XH)))
                           then XTick
                           else if Z.eqb k (Zpos (XI (XO XH)))
                                then XCtxDone
                                else XHelper) :: es), rest)

(** val dispatch_c08 : bytes -> bytes list -> z list -> tok list option **)

let dispatch_c08 name bs zs =
  if name_is name (String ((Ascii (true, false, true, true, false, true,
       true, false)), (String ((Ascii (false, true, true, true, false, true,
       false, false)), (String ((Ascii (true, false, true, false, false,
       true, true, false)), (String ((Ascii (false, false, false, true, true,
       true, true, false)), (String ((Ascii (true, true, false, false, false,
       true, true, false)), (String ((Ascii (false, false, false, true,
       false, true, true, false)), (String ((Ascii (true, false, false,
       false, false, true, true, false)), (String ((Ascii (false, true, true,
       true, false, true, true, false)), (String ((Ascii (true, true, true,
       false, false, true, true, false)), (String ((Ascii (true, false, true,
       false, false, true, true, false)), EmptyString))))))))))))))))))))
  then (match zs with
        | [] -> Some ((TI (Zneg (XO (XI (XI (XI (XI (XO XH)))))))) :: [])
        | rt :: l ->
          (match l with
           | [] -> Some ((TI (Zneg (XO (XI (XI (XI (XI (XO XH)))))))) :: [])
           | mx :: l0 ->
             (match l0 with
              | [] ->
                Some ((TI (Zneg (XO (XI (XI (XI (XI (XO XH)))))))) :: [])
              | sk :: l1 ->
                (match l1 with
                 | [] ->
                   Some ((TI (Zneg (XO (XI (XI (XI (XI (XO XH)))))))) :: [])
                 | nev :: r ->
                   let n0 = Z.to_nat nev in
                   let (es, pbs) = take_xevents (firstn n0 r) bs in
                   let rq = arg_packet pbs (skipn n0 r) in
                   let s = xrun md5 rt mx (Z.eqb sk (Zpos XH)) rq xinit es in
                   Some
                   (app
                     (match s.xmain with
                      | M_returned r0 ->
                        (match r0 with
                         | XPacket p -> (TI Z0) :: (t_packet p)
                         | XErr e -> (TI (Zpos XH)) :: ((TI (Z.of_N e)) :: [])
                         | XCtxErr -> (TI (Zpos (XO XH))) :: []
                         | XNetErr -> (TI (Zpos (XI XH))) :: [])
                      | _ -> (TI (Zpos (XI (XO (XO XH))))) :: []) ((TI
                     (zlen s.sent)) :: ((TI
                     (if s.conn_closed then Zpos XH else Z0)) :: [])))))))
  else None

(** val t_optz : z option -> tok list **)

let t_optz = function
| Some v -> (TI (Zpos XH)) :: ((TI v) :: [])
| None -> (TI Z0) :: []

(** val t_attr : attr -> tok list **)

let t_attr a =
  app ((TB a.a_name) :: ((TI (zlen a.a_oid)) :: []))
    (app (map (fun x -> TI x) a.a_oid)
      (app ((TI a.a_type) :: [])
        (app (t_optz a.a_size)
          (app (t_optz a.a_encrypt)
            (app (tbool a.a_has_tag) (tbool a.a_concat))))))

(** val t_value : value -> tok list **)

let t_value v =
  (TB v.v_attr) :: ((TB v.v_name) :: ((TI v.v_number) :: []))

(** val t_vendor : vendor -> tok list **)

let t_vendor v =
  app ((TB v.vn_name) :: ((TI v.vn_number) :: []))
    (app
      (match v.vn_format with
       | Some p ->
         let (t, l) = p in (TI (Zpos XH)) :: ((TI t) :: ((TI l) :: []))
       | None -> (TI Z0) :: [])
      (app ((TI (zlen v.vn_attrs)) :: [])
        (app (flat_map t_attr v.vn_attrs)
          (app ((TI (zlen v.vn_values)) :: []) (flat_map t_value v.vn_values)))))

(** val t_dict : dict -> tok list **)

let t_dict d =
  app ((TI (zlen d.d_attrs)) :: [])
    (app (flat_map t_attr d.d_attrs)
      (app ((TI (zlen d.d_values)) :: [])
        (app (flat_map t_value d.d_values)
          (app ((TI (zlen d.d_vendors)) :: [])
            (flat_map t_vendor d.d_vendors)))))

(** val t_pres : dict pres -> tok list **)

let t_pres = function
| POk d -> (TI Z0) :: (t_dict d)
| PFail e ->
  (match e with
   | ParseErr (c, f, l) ->
     (TI (Zpos XH)) :: ((TI (Z.of_N c)) :: ((TB f) :: ((TI
       (Z.of_nat l)) :: [])))
   | PlainErr c -> (TI (Zpos (XO XH))) :: ((TI (Z.of_N c)) :: []))
| PFuel -> (TI (Zpos (XI XH))) :: []

(** val t_trace : ioev list -> tok list **)

let t_trace tr =
  (TI
    (zlen tr)) :: (flat_map (fun e ->
                    match e with
                    | EvOpen n0 -> (TI Z0) :: ((TB n0) :: [])
                    | EvClose n0 -> (TI (Zpos XH)) :: ((TB n0) :: [])
                    | EvReclose n0 -> (TI (Zpos (XO XH))) :: ((TB n0) :: []))
                    tr)

(** val opener_of : bytes list -> bytes -> (bytes * bytes) option **)

let rec opener_of bs n0 =
  match bs with
  | [] -> None
  | rq :: l ->
    (match l with
     | [] -> None
     | cn :: l0 ->
       (match l0 with
        | [] -> None
        | tx :: r -> if beq rq n0 then Some (cn, tx) else opener_of r n0))

(** val dispatch_dict : bytes -> bytes list -> z list -> tok list option **)

let dispatch_dict name bs zs =
  if name_is name (String ((Ascii (true, false, true, true, false, true,
       true, false)), (String ((Ascii (false, true, true, true, false, true,
       false, false)), (String ((Ascii (false, false, true, false, false,
       true, true, false)), (String ((Ascii (true, false, false, true, false,
       true, true, false)), (String ((Ascii (true, true, false, false, false,
       true, true, false)), (String ((Ascii (false, false, true, false, true,
       true, true, false)), (String ((Ascii (false, false, false, false,
       true, true, true, false)), (String ((Ascii (true, false, false, false,
       false, true, true, false)), (String ((Ascii (false, true, false,
       false, true, true, true, false)), (String ((Ascii (true, true, false,
       false, true, true, true, false)), (String ((Ascii (true, false, true,
       false, false, true, true, false)), EmptyString))))))))))))))))))))))
  then let (r, tr) =
         parse_root (Z.eqb (z1 zs) (Zpos XH))
           (opener_of (skipn (S (S O)) bs)) (Z.to_nat (nth (S O) zs Z0))
           (b1 bs) (b2 bs)
       in
       Some (app (t_pres r) (t_trace tr))
  else if name_is name (String ((Ascii (true, false, true, true, false, true,
            true, false)), (String ((Ascii (false, true, true, true, false,
            true, false, false)), (String ((Ascii (false, true, true, false,
            false, true, true, false)), (String ((Ascii (true, false, false,
            true, false, true, true, false)), (String ((Ascii (true, false,
            true, false, false, true, true, false)), (String ((Ascii (false,
            false, true, true, false, true, true, false)), (String ((Ascii
            (false, false, true, false, false, true, true, false)), (String
            ((Ascii (true, true, false, false, true, true, true, false)),
            EmptyString))))))))))))))))
       then Some (flat_map (fun f -> (TB f) :: []) (fields (b1 bs)))
       else if name_is name (String ((Ascii (true, false, true, true, false,
                 true, true, false)), (String ((Ascii (false, true, true,
                 true, false, true, false, false)), (String ((Ascii (false,
                 false, true, true, false, true, true, false)), (String
                 ((Ascii (true, false, false, true, false, true, true,
                 false)), (String ((Ascii (false, true, true, true, false,
                 true, true, false)), (String ((Ascii (true, false, true,
                 false, false, true, true, false)), (String ((Ascii (true,
                 true, false, false, true, true, true, false)),
                 EmptyString))))))))))))))
            then Some (flat_map (fun f -> (TB f) :: []) (scan_lines (b1 bs)))
            else None

(** val load_all : heap0 -> bytes list -> (heap0 * pdict list) option **)

let rec load_all h = function
| [] -> Some (h, [])
| t :: r ->
  (match fst
           (parse_root false (fun _ -> None) (S (S (S O))) ((Npos (XO (XO (XI
             (XO (XO (XI XH))))))) :: []) t) with
   | POk d ->
     let (h1, pd) = load h d in
     (match load_all h1 r with
      | Some p -> let (h2, ps) = p in Some (h2, (pd :: ps))
      | None -> None)
   | _ -> None)

(** val chain :
    bool -> heap0 -> pdict -> pdict list -> (heap0 * pdict) res **)

let rec chain legacy h acc = function
| [] -> Ok (h, acc)
| d :: r ->
  (match merge legacy h acc d with
   | Ok a -> let (h', acc') = a in chain legacy h' acc' r
   | x -> x)

(** val dispatch_merge : bytes -> bytes list -> z list -> tok list option **)

let dispatch_merge name bs _ =
  if (||)
       (name_is name (String ((Ascii (true, false, true, true, false, true,
         true, false)), (String ((Ascii (false, true, true, true, false,
         true, false, false)), (String ((Ascii (true, false, true, true,
         false, true, true, false)), (String ((Ascii (true, false, true,
         false, false, true, true, false)), (String ((Ascii (false, true,
         false, false, true, true, true, false)), (String ((Ascii (true,
         true, true, false, false, true, true, false)), (String ((Ascii
         (true, false, true, false, false, true, true, false)),
         EmptyString)))))))))))))))
       (name_is name (String ((Ascii (true, true, false, false, true, true,
         true, false)), (String ((Ascii (false, true, true, true, false,
         true, false, false)), (String ((Ascii (true, false, true, true,
         false, true, true, false)), (String ((Ascii (true, false, true,
         false, false, true, true, false)), (String ((Ascii (false, true,
         false, false, true, true, true, false)), (String ((Ascii (true,
         true, true, false, false, true, true, false)), (String ((Ascii
         (true, false, true, false, false, true, true, false)),
         EmptyString)))))))))))))))
  then (match load_all [] bs with
        | Some p ->
          let (h, l) = p in
          (match l with
           | [] -> Some ((TI (Zneg (XI (XO (XI (XI (XI (XO XH)))))))) :: [])
           | d :: ds ->
             (match chain false h d ds with
              | Ok a ->
                let (h', r) = a in
                Some ((TI
                Z0) :: (app (t_dict (view h' r))
                         (flat_map (fun x -> t_dict (view h' x)) (d :: ds))))
              | Err _ -> Some ((TI (Zpos XH)) :: [])
              | _ -> Some ((TI (Zpos (XO XH))) :: [])))
        | None -> Some ((TI (Zneg (XI (XO (XI (XI (XI (XO XH)))))))) :: []))
  else None

(** val b5 : bytes list -> bytes **)

let b5 bs =
  nth (S (S (S (S O)))) bs []

(** val dispatch_mschap : bytes -> bytes list -> z list -> tok list option **)

let dispatch_mschap name bs zs =
  if name_is name (String ((Ascii (true, false, true, true, false, true,
       true, false)), (String ((Ascii (false, true, true, true, false, true,
       false, false)), (String ((Ascii (false, true, true, true, false, true,
       true, false)), (String ((Ascii (false, false, true, false, true, true,
       true, false)), (String ((Ascii (false, true, false, false, true, true,
       true, false)), (String ((Ascii (true, false, true, false, false, true,
       true, false)), (String ((Ascii (true, true, false, false, true, true,
       true, false)), (String ((Ascii (false, false, false, false, true,
       true, true, false)), EmptyString))))))))))))))))
  then Some ((TB
         (generate_nt_response sha1 md4 utf8_to_utf16le des_encrypt (b1 bs)
           (b2 bs) (b3 bs) (b4 bs))) :: [])
  else if name_is name (String ((Ascii (true, true, false, false, true, true,
            true, false)), (String ((Ascii (false, true, true, true, false,
            true, false, false)), (String ((Ascii (false, true, true, true,
            false, true, true, false)), (String ((Ascii (false, false, true,
            false, true, true, true, false)), (String ((Ascii (false, true,
            false, false, true, true, true, false)), (String ((Ascii (true,
            false, true, false, false, true, true, false)), (String ((Ascii
            (true, true, false, false, true, true, true, false)), (String
            ((Ascii (false, false, false, false, true, true, true, false)),
            EmptyString))))))))))))))))
       then Some ((TB
              (rfc_generate_nt_response sha1 md4 utf8_to_utf16le des_encrypt
                (b1 bs) (b2 bs) (b3 bs) (b4 bs))) :: [])
       else if name_is name (String ((Ascii (true, false, true, true, false,
                 true, true, false)), (String ((Ascii (false, true, true,
                 true, false, true, false, false)), (String ((Ascii (true,
                 false, false, false, false, true, true, false)), (String
                 ((Ascii (true, false, true, false, true, true, true,
                 false)), (String ((Ascii (false, false, true, false, true,
                 true, true, false)), (String ((Ascii (false, false, false,
                 true, false, true, true, false)), (String ((Ascii (false,
                 true, false, false, true, true, true, false)), (String
                 ((Ascii (true, false, true, false, false, true, true,
                 false)), (String ((Ascii (true, true, false, false, true,
                 true, true, false)), (String ((Ascii (false, false, false,
                 false, true, true, true, false)),
                 EmptyString))))))))))))))))))))
            then Some ((TB
                   (generate_authenticator_response sha1 md4 utf8_to_utf16le
                     (b1 bs) (b2 bs) (b3 bs) (b4 bs) (b5 bs))) :: [])
            else if name_is name (String ((Ascii (true, true, false, false,
                      true, true, true, false)), (String ((Ascii (false,
                      true, true, true, false, true, false, false)), (String
                      ((Ascii (true, false, false, false, false, true, true,
                      false)), (String ((Ascii (true, false, true, false,
                      true, true, true, false)), (String ((Ascii (false,
                      false, true, false, true, true, true, false)), (String
                      ((Ascii (false, false, false, true, false, true, true,
                      false)), (String ((Ascii (false, true, false, false,
                      true, true, true, false)), (String ((Ascii (true,
                      false, true, false, false, true, true, false)), (String
                      ((Ascii (true, true, false, false, true, true, true,
                      false)), (String ((Ascii (false, false, false, false,
                      true, true, true, false)),
                      EmptyString))))))))))))))))))))
                 then Some ((TB
                        (rfc_generate_authenticator_response sha1 md4
                          utf8_to_utf16le (b1 bs) (b2 bs) (b3 bs) (b4 bs)
                          (b5 bs))) :: [])
                 else if name_is name (String ((Ascii (true, false, true,
                           true, false, true, true, false)), (String ((Ascii
                           (false, true, true, true, false, true, false,
                           false)), (String ((Ascii (true, true, false,
                           false, false, true, true, false)), (String ((Ascii
                           (false, false, false, true, false, true, true,
                           false)), (String ((Ascii (true, false, false,
                           false, false, true, true, false)), (String ((Ascii
                           (true, true, false, false, true, true, true,
                           false)), (String ((Ascii (false, false, false,
                           true, false, true, true, false)),
                           EmptyString))))))))))))))
                      then Some ((TB
                             (challenge_hash sha1 (b1 bs) (b2 bs) (b3 bs))) :: [])
                      else if name_is name (String ((Ascii (true, true,
                                false, false, true, true, true, false)),
                                (String ((Ascii (false, true, true, true,
                                false, true, false, false)), (String ((Ascii
                                (true, true, false, false, false, true, true,
                                false)), (String ((Ascii (false, false,
                                false, true, false, true, true, false)),
                                (String ((Ascii (true, false, false, false,
                                false, true, true, false)), (String ((Ascii
                                (true, true, false, false, true, true, true,
                                false)), (String ((Ascii (false, false,
                                false, true, false, true, true, false)),
                                EmptyString))))))))))))))
                           then Some ((TB
                                  (rfc_challenge_hash sha1 (b1 bs) (b2 bs)
                                    (b3 bs))) :: [])
                           else if name_is name (String ((Ascii (true, false,
                                     true, true, false, true, true, false)),
                                     (String ((Ascii (false, true, true,
                                     true, false, true, false, false)),
                                     (String ((Ascii (false, true, true,
                                     true, false, true, true, false)),
                                     (String ((Ascii (false, false, true,
                                     false, true, true, true, false)),
                                     (String ((Ascii (false, false, false,
                                     true, false, true, true, false)),
                                     (String ((Ascii (true, false, false,
                                     false, false, true, true, false)),
                                     (String ((Ascii (true, true, false,
                                     false, true, true, true, false)),
                                     (String ((Ascii (false, false, false,
                                     true, false, true, true, false)),
                                     EmptyString))))))))))))))))
                                then Some ((TB
                                       (nt_password_hash md4 (b1 bs))) :: [])
                                else if name_is name (String ((Ascii (true,
                                          true, false, false, true, true,
                                          true, false)), (String ((Ascii
                                          (false, true, true, true, false,
                                          true, false, false)), (String
                                          ((Ascii (false, true, true, true,
                                          false, true, true, false)), (String
                                          ((Ascii (false, false, true, false,
                                          true, true, true, false)), (String
                                          ((Ascii (false, false, false, true,
                                          false, true, true, false)), (String
                                          ((Ascii (true, false, false, false,
                                          false, true, true, false)), (String
                                          ((Ascii (true, true, false, false,
                                          true, true, true, false)), (String
                                          ((Ascii (false, false, false, true,
                                          false, true, true, false)),
                                          EmptyString))))))))))))))))
                                     then Some ((TB
                                            (rfc_nt_password_hash md4 (b1 bs))) :: [])
                                     else if (||)
                                               (name_is name (String ((Ascii
                                                 (true, false, true, true,
                                                 false, true, true, false)),
                                                 (String ((Ascii (false,
                                                 true, true, true, false,
                                                 true, false, false)),
                                                 (String ((Ascii (true,
                                                 false, true, false, true,
                                                 true, true, false)), (String
                                                 ((Ascii (false, false, true,
                                                 false, true, true, true,
                                                 false)), (String ((Ascii
                                                 (false, true, true, false,
                                                 false, true, true, false)),
                                                 (String ((Ascii (true,
                                                 false, false, false, true,
                                                 true, false, false)),
                                                 (String ((Ascii (false,
                                                 true, true, false, true,
                                                 true, false, false)),
                                                 EmptyString)))))))))))))))
                                               (name_is name (String ((Ascii
                                                 (true, true, false, false,
                                                 true, true, true, false)),
                                                 (String ((Ascii (false,
                                                 true, true, true, false,
                                                 true, false, false)),
                                                 (String ((Ascii (true,
                                                 false, true, false, true,
                                                 true, true, false)), (String
                                                 ((Ascii (false, false, true,
                                                 false, true, true, true,
                                                 false)), (String ((Ascii
                                                 (false, true, true, false,
                                                 false, true, true, false)),
                                                 (String ((Ascii (true,
                                                 false, false, false, true,
                                                 true, false, false)),
                                                 (String ((Ascii (false,
                                                 true, true, false, true,
                                                 true, false, false)),
                                                 EmptyString)))))))))))))))
                                          then Some ((TB
                                                 (utf8_to_utf16le (b1 bs))) :: [])
                                          else if name_is name (String
                                                    ((Ascii (true, false,
                                                    true, true, false, true,
                                                    true, false)), (String
                                                    ((Ascii (false, true,
                                                    true, true, false, true,
                                                    false, false)), (String
                                                    ((Ascii (false, false,
                                                    true, false, false, true,
                                                    true, false)), (String
                                                    ((Ascii (true, false,
                                                    true, false, false, true,
                                                    true, false)), (String
                                                    ((Ascii (true, true,
                                                    false, false, true, true,
                                                    true, false)), (String
                                                    ((Ascii (true, true,
                                                    false, false, false,
                                                    true, true, false)),
                                                    (String ((Ascii (false,
                                                    true, false, false, true,
                                                    true, true, false)),
                                                    (String ((Ascii (true,
                                                    false, false, true, true,
                                                    true, true, false)),
                                                    (String ((Ascii (false,
                                                    false, false, false,
                                                    true, true, true,
                                                    false)), (String ((Ascii
                                                    (false, false, true,
                                                    false, true, true, true,
                                                    false)), (String ((Ascii
                                                    (true, true, true, false,
                                                    true, true, false,
                                                    false)),
                                                    EmptyString))))))))))))))))))))))
                                               then Some ((TB
                                                      (des_crypt des_encrypt
                                                        (b1 bs) (b2 bs))) :: [])
                                               else if name_is name (String
                                                         ((Ascii (true, true,
                                                         false, false, true,
                                                         true, true, false)),
                                                         (String ((Ascii
                                                         (false, true, true,
                                                         true, false, true,
                                                         false, false)),
                                                         (String ((Ascii
                                                         (false, false, true,
                                                         false, false, true,
                                                         true, false)),
                                                         (String ((Ascii
                                                         (true, false, true,
                                                         false, false, true,
                                                         true, false)),
                                                         (String ((Ascii
                                                         (true, true, false,
                                                         false, true, true,
                                                         true, false)),
                                                         (String ((Ascii
                                                         (true, true, false,
                                                         false, false, true,
                                                         true, false)),
                                                         (String ((Ascii
                                                         (false, true, false,
                                                         false, true, true,
                                                         true, false)),
                                                         (String ((Ascii
                                                         (true, false, false,
                                                         true, true, true,
                                                         true, false)),
                                                         (String ((Ascii
                                                         (false, false,
                                                         false, false, true,
                                                         true, true, false)),
                                                         (String ((Ascii
                                                         (false, false, true,
                                                         false, true, true,
                                                         true, false)),
                                                         (String ((Ascii
                                                         (true, true, true,
                                                         false, true, true,
                                                         false, false)),
                                                         EmptyString))))))))))))))))))))))
                                                    then Some ((TB
                                                           (rfc_des_encrypt
                                                             des_encrypt
                                                             (b2 bs) 
                                                             (b1 bs))) :: [])
                                                    else if name_is name
                                                              (String ((Ascii
                                                              (true, false,
                                                              true, true,
                                                              false, true,
                                                              true, false)),
                                                              (String ((Ascii
                                                              (false, true,
                                                              true, true,
                                                              false, true,
                                                              false, false)),
                                                              (String ((Ascii
                                                              (true, false,
                                                              true, true,
                                                              false, true,
                                                              true, false)),
                                                              (String ((Ascii
                                                              (true, false,
                                                              false, false,
                                                              false, true,
                                                              true, false)),
                                                              (String ((Ascii
                                                              (true, true,
                                                              false, false,
                                                              true, true,
                                                              true, false)),
                                                              (String ((Ascii
                                                              (false, false,
                                                              true, false,
                                                              true, true,
                                                              true, false)),
                                                              (String ((Ascii
                                                              (true, false,
                                                              true, false,
                                                              false, true,
                                                              true, false)),
                                                              (String ((Ascii
                                                              (false, true,
                                                              false, false,
                                                              true, true,
                                                              true, false)),
                                                              (String ((Ascii
                                                              (true, true,
                                                              false, true,
                                                              false, true,
                                                              true, false)),
                                                              (String ((Ascii
                                                              (true, false,
                                                              true, false,
                                                              false, true,
                                                              true, false)),
                                                              (String ((Ascii
                                                              (true, false,
                                                              false, true,
                                                              true, true,
                                                              true, false)),
                                                              EmptyString))))))))))))))))))))))
                                                         then Some ((TB
                                                                (get_master_key
                                                                  sha1
                                                                  (b1 bs)
                                                                  (b2 bs))) :: [])
                                                         else if name_is name
                                                                   (String
                                                                   ((Ascii
                                                                   (true,
                                                                   true,
                                                                   false,
                                                                   false,
                                                                   true,
                                                                   true,
                                                                   true,
                                                                   false)),
                                                                   (String
                                                                   ((Ascii
                                                                   (false,
                                                                   true,
                                                                   true,
                                                                   true,
                                                                   false,
                                                                   true,
                                                                   false,
                                                                   false)),
                                                                   (String
                                                                   ((Ascii
                                                                   (true,
                                                                   false,
                                                                   true,
                                                                   true,
                                                                   false,
                                                                   true,
                                                                   true,
                                                                   false)),
                                                                   (String
                                                                   ((Ascii
                                                                   (true,
                                                                   false,
                                                                   false,
                                                                   false,
                                                                   false,
                                                                   true,
                                                                   true,
                                                                   false)),
                                                                   (String
                                                                   ((Ascii
                                                                   (true,
                                                                   true,
                                                                   false,
                                                                   false,
                                                                   true,
                                                                   true,
                                                                   true,
                                                                   false)),
                                                                   (String
                                                                   ((Ascii
                                                                   (false,
                                                                   false,
                                                                   true,
                                                                   false,
                                                                   true,
                                                                   true,
                                                                   true,
                                                                   false)),
                                                                   (String
                                                                   ((Ascii
                                                                   (true,
                                                                   false,
                                                                   true,
                                                                   false,
                                                                   false,
                                                                   true,
                                                                   true,
                                                                   false)),
                                                                   (String
                                                                   ((Ascii
                                                                   (false,
                                                                   true,
                                                                   false,
                                                                   false,
                                                                   true,
                                                                   true,
                                                                   true,
                                                                   false)),
                                                                   (String
                                                                   ((Ascii
                                                                   (true,
                                                                   true,
                                                                   false,
                                                                   true,
                                                                   false,
                                                                   true,
                                                                   true,
                                                                   false)),
                                                                   (String
                                                                   ((Ascii
                                                                   (true,
                                                                   false,
                                                                   true,
                                                                   false,
                                                                   false,
                                                                   true,
                                                                   true,
                                                                   false)),
                                                                   (String
                                                                   ((Ascii
                                                                   (true,
                                                                   false,
                                                                   false,
                                                                   true,
                                                                   true,
                                                                   true,
                                                                   true,
                                                                   false)),
                                                                   EmptyString))))))))))))))))))))))
                                                              then Some ((TB
                                                                    (rfc_get_master_key
                                                                    sha1
                                                                    (b1 bs)
                                                                    (b2 bs))) :: [])
                                                              else if 
                                                                    name_is
                                                                    name
                                                                    (String
                                                                    ((Ascii
                                                                    (true,
                                                                    false,
                                                                    true,
                                                                    true,
                                                                    false,
                                                                    true,
                                                                    true,
                                                                    false)),
                                                                    (String
                                                                    ((Ascii
                                                                    (false,
                                                                    true,
                                                                    true,
                                                                    true,
                                                                    false,
                                                                    true,
                                                                    false,
                                                                    false)),
                                                                    (String
                                                                    ((Ascii
                                                                    (true,
                                                                    true,
                                                                    false,
                                                                    false,
                                                                    true,
                                                                    true,
                                                                    true,
                                                                    false)),
                                                                    (String
                                                                    ((Ascii
                                                                    (false,
                                                                    false,
                                                                    true,
                                                                    false,
                                                                    true,
                                                                    true,
                                                                    true,
                                                                    false)),
                                                                    (String
                                                                    ((Ascii
                                                                    (true,
                                                                    false,
                                                                    false,
                                                                    false,
                                                                    false,
                                                                    true,
                                                                    true,
                                                                    false)),
                                                                    (String
                                                                    ((Ascii
                                                                    (false,
                                                                    true,
                                                                    false,
                                                                    false,
                                                                    true,
                                                                    true,
                                                                    true,
                                                                    false)),
                                                                    (String
                                                                    ((Ascii
                                                                    (false,
                                                                    false,
                                                                    true,
                                                                    false,
                                                                    true,
                                                                    true,
                                                                    true,
                                                                    false)),
                                                                    (String
                                                                    ((Ascii
                                                                    (true,
                                                                    true,
                                                                    false,
                                                                    true,
                                                                    false,
                                                                    true,
                                                                    true,
                                                                    false)),
                                                                    (String
                                                                    ((Ascii
                                                                    (true,
                                                                    false,
                                                                    true,
                                                                    false,
                                                                    false,
                                                                    true,
                                                                    true,
                                                                    false)),
                                                                    (String
                                                                    ((Ascii
                                                                    (true,
                                                                    false,
                                                                    false,
                                                                    true,
                                                                    true,
                                                                    true,
                                                                    true,
                                                                    false)),
                                                                    EmptyString))))))))))))))))))))
                                                                   then 
                                                                    Some
                                                                    (t_res
                                                                    (get_asymmetric_start_key
                                                                    sha1
                                                                    (b1 bs)
                                                                    (Z.to_nat
                                                                    (z1 zs))
                                                                    (Z.eqb
                                                                    (nth (S
                                                                    O) zs Z0)
                                                                    (Zpos XH)))
                                                                    t_bytes)
                                                                   else 
                                                                    if 
                                                                    name_is
                                                                    name
                                                                    (String
                                                                    ((Ascii
                                                                    (true,
                                                                    true,
                                                                    false,
                                                                    false,
                                                                    true,
                                                                    true,
                                                                    true,
                                                                    false)),
                                                                    (String
                                                                    ((Ascii
                                                                    (false,
                                                                    true,
                                                                    true,
                                                                    true,
                                                                    false,
                                                                    true,
                                                                    false,
                                                                    false)),
                                                                    (String
                                                                    ((Ascii
                                                                    (true,
                                                                    true,
                                                                    false,
                                                                    false,
                                                                    true,
                                                                    true,
                                                                    true,
                                                                    false)),
                                                                    (String
                                                                    ((Ascii
                                                                    (false,
                                                                    false,
                                                                    true,
                                                                    false,
                                                                    true,
                                                                    true,
                                                                    true,
                                                                    false)),
                                                                    (String
                                                                    ((Ascii
                                                                    (true,
                                                                    false,
                                                                    false,
                                                                    false,
                                                                    false,
                                                                    true,
                                                                    true,
                                                                    false)),
                                                                    (String
                                                                    ((Ascii
                                                                    (false,
                                                                    true,
                                                                    false,
                                                                    false,
                                                                    true,
                                                                    true,
                                                                    true,
                                                                    false)),
                                                                    (String
                                                                    ((Ascii
                                                                    (false,
                                                                    false,
                                                                    true,
                                                                    false,
                                                                    true,
                                                                    true,
                                                                    true,
                                                                    false)),
                                                                    (String
                                                                    ((Ascii
                                                                    (true,
                                                                    true,
                                                                    false,
                                                                    true,
                                                                    false,
                                                                    true,
                                                                    true,
                                                                    false)),
                                                                    (String
                                                                    ((Ascii
                                                                    (true,
                                                                    false,
                                                                    true,
                                                                    false,
                                                                    false,
                                                                    true,
                                                                    true,
                                                                    false)),
                                                                    (String
                                                                    ((Ascii
                                                                    (true,
                                                                    false,
                                                                    false,
                                                                    true,
                                                                    true,
                                                                    true,
                                                                    true,
                                                                    false)),
                                                                    EmptyString))))))))))))))))))))
                                                                    then 
                                                                    Some
                                                                    (t_res_s
                                                                    (spec_get_asymmetric_start_key
                                                                    sha1
                                                                    (b1 bs)
                                                                    (Z.to_nat
                                                                    (z1 zs))
                                                                    (Z.eqb
                                                                    (nth (S
                                                                    O) zs Z0)
                                                                    (Zpos XH)))
                                                                    t_bytes)
                                                                    else 
                                                                    if 
                                                                    name_is
                                                                    name
                                                                    (String
                                                                    ((Ascii
                                                                    (true,
                                                                    false,
                                                                    true,
                                                                    true,
                                                                    false,
                                                                    true,
                                                                    true,
                                                                    false)),
                                                                    (String
                                                                    ((Ascii
                                                                    (false,
                                                                    true,
                                                                    true,
                                                                    true,
                                                                    false,
                                                                    true,
                                                                    false,
                                                                    false)),
                                                                    (String
                                                                    ((Ascii
                                                                    (true,
                                                                    false,
                                                                    true,
                                                                    true,
                                                                    false,
                                                                    true,
                                                                    true,
                                                                    false)),
                                                                    (String
                                                                    ((Ascii
                                                                    (true,
                                                                    false,
                                                                    false,
                                                                    false,
                                                                    false,
                                                                    true,
                                                                    true,
                                                                    false)),
                                                                    (String
                                                                    ((Ascii
                                                                    (true,
                                                                    true,
                                                                    false,
                                                                    true,
                                                                    false,
                                                                    true,
                                                                    true,
                                                                    false)),
                                                                    (String
                                                                    ((Ascii
                                                                    (true,
                                                                    false,
                                                                    true,
                                                                    false,
                                                                    false,
                                                                    true,
                                                                    true,
                                                                    false)),
                                                                    (String
                                                                    ((Ascii
                                                                    (true,
                                                                    true,
                                                                    false,
                                                                    true,
                                                                    false,
                                                                    true,
                                                                    true,
                                                                    false)),
                                                                    (String
                                                                    ((Ascii
                                                                    (true,
                                                                    false,
                                                                    true,
                                                                    false,
                                                                    false,
                                                                    true,
                                                                    true,
                                                                    false)),
                                                                    (String
                                                                    ((Ascii
                                                                    (true,
                                                                    false,
                                                                    false,
                                                                    true,
                                                                    true,
                                                                    true,
                                                                    true,
                                                                    false)),
                                                                    EmptyString))))))))))))))))))
                                                                    then 
                                                                    Some
                                                                    (t_res
                                                                    (make_key
                                                                    sha1 md4
                                                                    utf8_to_utf16le
                                                                    (b1 bs)
                                                                    (b2 bs)
                                                                    (Z.eqb
                                                                    (z1 zs)
                                                                    (Zpos XH)))
                                                                    t_bytes)
                                                                    else 
                                                                    if 
                                                                    name_is
                                                                    name
                                                                    (String
                                                                    ((Ascii
                                                                    (true,
                                                                    true,
                                                                    false,
                                                                    false,
                                                                    true,
                                                                    true,
                                                                    true,
                                                                    false)),
                                                                    (String
                                                                    ((Ascii
                                                                    (false,
                                                                    true,
                                                                    true,
                                                                    true,
                                                                    false,
                                                                    true,
                                                                    false,
                                                                    false)),
                                                                    (String
                                                                    ((Ascii
                                                                    (true,
                                                                    false,
                                                                    true,
                                                                    true,
                                                                    false,
                                                                    true,
                                                                    true,
                                                                    false)),
                                                                    (String
                                                                    ((Ascii
                                                                    (true,
                                                                    false,
                                                                    false,
                                                                    false,
                                                                    false,
                                                                    true,
                                                                    true,
                                                                    false)),
                                                                    (String
                                                                    ((Ascii
                                                                    (true,
                                                                    true,
                                                                    false,
                                                                    true,
                                                                    false,
                                                                    true,
                                                                    true,
                                                                    false)),
                                                                    (String
                                                                    ((Ascii
                                                                    (true,
                                                                    false,
                                                                    true,
                                                                    false,
                                                                    false,
                                                                    true,
                                                                    true,
                                                                    false)),
                                                                    (String
                                                                    ((Ascii
                                                                    (true,
                                                                    true,
                                                                    false,
                                                                    true,
                                                                    false,
                                                                    true,
                                                                    true,
                                                                    false)),
                                                                    (String
                                                                    ((Ascii
                                                                    (true,
                                                                    false,
                                                                    true,
                                                                    false,
                                                                    false,
                                                                    true,
                                                                    true,
                                                                    false)),
                                                                    (String
                                                                    ((Ascii
                                                                    (true,
                                                                    false,
                                                                    false,
                                                                    true,
                                                                    true,
                                                                    true,
                                                                    true,
                                                                    false)),
                                                                    EmptyString))))))))))))))))))
                                                                    then 
                                                                    Some
                                                                    (t_res_s
                                                                    (spec_make_key
                                                                    sha1 md4
                                                                    utf8_to_utf16le
                                                                    (b1 bs)
                                                                    (b2 bs)
                                                                    (Z.eqb
                                                                    (z1 zs)
                                                                    (Zpos XH)))
                                                                    t_bytes)
                                                                    else None

(** val kind_of : z -> z -> hkind **)

let kind_of k nb =
  if Z.eqb k Z0
  then KBytes
  else if Z.eqb k (Zpos XH)
       then KConcat
       else if Z.eqb k (Zpos (XO XH))
            then KIP4
            else if Z.eqb k (Zpos (XI XH))
                 then KIP6
                 else if Z.eqb k (Zpos (XO (XO XH)))
                      then KIFID
                      else if Z.eqb k (Zpos (XI (XO XH)))
                           then KPrefix
                           else if Z.eqb k (Zpos (XO (XI XH)))
                                then KDate
                                else if Z.eqb k (Zpos (XI (XI XH)))
                                     then KInt (Z.to_nat nb)
                                     else KByte

(** val t_gv : hdesc -> gv -> tok list **)

let t_gv d v =
  match d.h_kind with
  | KPrefix -> (TB v.g_b) :: ((TB v.g_mask) :: [])
  | KDate -> (TI v.g_u) :: []
  | KInt _ -> (TI v.g_u) :: []
  | KByte -> (TI v.g_u) :: []
  | _ -> (TB v.g_b) :: []

(** val t_tv : hdesc -> (n * gv) -> tok list **)

let t_tv d x =
  (TI (Z.of_N (fst x))) :: (t_gv d (snd x))

(** val run_hops :
    hdesc -> packet -> packet -> z list -> bytes list -> tok list **)

let rec run_hops d p q zs bs =
  match zs with
  | [] -> []
  | o :: l ->
    (match l with
     | [] -> []
     | tag :: l0 ->
       (match l0 with
        | [] -> []
        | u :: zs' ->
          (match bs with
           | [] -> []
           | vb :: l1 ->
             (match l1 with
              | [] -> []
              | mk :: l2 ->
                (match l2 with
                 | [] -> []
                 | salt :: bs' ->
                   let v = { g_b = vb; g_u = u; g_mask = mk } in
                   if Z.eqb o Z0
                   then (match h_add md5 d p salt (Z.to_N tag) v with
                         | Ok p' ->
                           (TI
                             Z0) :: (app (t_attrs p'.pattrs)
                                      (run_hops d p' q zs' bs'))
                         | Err _ ->
                           (TI (Zpos
                             XH)) :: (app (t_attrs p.pattrs)
                                       (run_hops d p q zs' bs'))
                         | _ -> (TI (Zpos (XO XH))) :: [])
                   else if Z.eqb o (Zpos XH)
                        then (match h_set md5 d p salt (Z.to_N tag) v with
                              | Ok p' ->
                                (TI
                                  Z0) :: (app (t_attrs p'.pattrs)
                                           (run_hops d p' q zs' bs'))
                              | Err _ ->
                                (TI (Zpos
                                  XH)) :: (app (t_attrs p.pattrs)
                                            (run_hops d p q zs' bs'))
                              | _ -> (TI (Zpos (XO XH))) :: [])
                        else if Z.eqb o (Zpos (XO XH))
                             then (match h_del d p with
                                   | Ok p' ->
                                     (TI
                                       Z0) :: (app (t_attrs p'.pattrs)
                                                (run_hops d p' q zs' bs'))
                                   | _ -> (TI (Zpos (XO XH))) :: [])
                             else if Z.eqb o (Zpos (XI XH))
                                  then app
                                         (match h_lookup md5 d p q with
                                          | Ok x -> (TI Z0) :: (t_tv d x)
                                          | Err e ->
                                            (TI (Zpos XH)) :: ((TI
                                              (if N.eqb e e_noattr
                                               then Zpos (XO (XO (XO (XI (XO
                                                      XH)))))
                                               else Zpos (XO (XO (XO XH))))) :: [])
                                          | _ -> (TI (Zpos (XO XH))) :: [])
                                         (run_hops d p q zs' bs')
                                  else app
                                         (match h_gets md5 d p q with
                                          | Ok xs ->
                                            (TI Z0) :: ((TI
                                              (zlen xs)) :: (flat_map
                                                              (t_tv d) xs))
                                          | Err _ -> (TI (Zpos XH)) :: []
                                          | _ -> (TI (Zpos (XO XH))) :: [])
                                         (run_hops d p q zs' bs'))))))

(** val dispatch_helper : bytes -> bytes list -> z list -> tok list option **)

let dispatch_helper name bs zs =
  if (||)
       (name_is name (String ((Ascii (true, false, true, true, false, true,
         true, false)), (String ((Ascii (false, true, true, true, false,
         true, false, false)), (String ((Ascii (false, false, false, true,
         false, true, true, false)), (String ((Ascii (true, false, true,
         false, false, true, true, false)), (String ((Ascii (false, false,
         true, true, false, true, true, false)), (String ((Ascii (false,
         false, false, false, true, true, true, false)), (String ((Ascii
         (true, false, true, false, false, true, true, false)), (String
         ((Ascii (false, true, false, false, true, true, true, false)),
         EmptyString)))))))))))))))))
       (name_is name (String ((Ascii (true, true, false, false, true, true,
         true, false)), (String ((Ascii (false, true, true, true, false,
         true, false, false)), (String ((Ascii (false, false, false, true,
         false, true, true, false)), (String ((Ascii (true, false, true,
         false, false, true, true, false)), (String ((Ascii (false, false,
         true, true, false, true, true, false)), (String ((Ascii (false,
         false, false, false, true, true, true, false)), (String ((Ascii
         (true, false, true, false, false, true, true, false)), (String
         ((Ascii (false, true, false, false, true, true, true, false)),
         EmptyString)))))))))))))))))
  then (match zs with
        | [] -> Some ((TI (Zneg (XO (XO (XI (XI (XI (XO XH)))))))) :: [])
        | ht :: l ->
          (match l with
           | [] -> Some ((TI (Zneg (XO (XO (XI (XI (XI (XO XH)))))))) :: [])
           | k :: l0 ->
             (match l0 with
              | [] ->
                Some ((TI (Zneg (XO (XO (XI (XI (XI (XO XH)))))))) :: [])
              | nb :: l1 ->
                (match l1 with
                 | [] ->
                   Some ((TI (Zneg (XO (XO (XI (XI (XI (XO XH)))))))) :: [])
                 | tg :: l2 ->
                   (match l2 with
                    | [] ->
                      Some ((TI (Zneg (XO (XO (XI (XI (XI (XO
                        XH)))))))) :: [])
                    | enc :: l3 ->
                      (match l3 with
                       | [] ->
                         Some ((TI (Zneg (XO (XO (XI (XI (XI (XO
                           XH)))))))) :: [])
                       | sv :: l4 ->
                         (match l4 with
                          | [] ->
                            Some ((TI (Zneg (XO (XO (XI (XI (XI (XO
                              XH)))))))) :: [])
                          | sz :: l5 ->
                            (match l5 with
                             | [] ->
                               Some ((TI (Zneg (XO (XO (XI (XI (XI (XO
                                 XH)))))))) :: [])
                             | vv :: l6 ->
                               (match l6 with
                                | [] ->
                                  Some ((TI (Zneg (XO (XO (XI (XI (XI (XO
                                    XH)))))))) :: [])
                                | vid :: l7 ->
                                  (match l7 with
                                   | [] ->
                                     Some ((TI (Zneg (XO (XO (XI (XI (XI (XO
                                       XH)))))))) :: [])
                                   | c :: l8 ->
                                     (match l8 with
                                      | [] ->
                                        Some ((TI (Zneg (XO (XO (XI (XI (XI
                                          (XO XH)))))))) :: [])
                                      | idn :: l9 ->
                                        (match l9 with
                                         | [] ->
                                           Some ((TI (Zneg (XO (XO (XI (XI
                                             (XI (XO XH)))))))) :: [])
                                         | n0 :: zs' ->
                                           (match bs with
                                            | [] ->
                                              Some ((TI (Zneg (XO (XO (XI (XI
                                                (XI (XO XH)))))))) :: [])
                                            | au :: l10 ->
                                              (match l10 with
                                               | [] ->
                                                 Some ((TI (Zneg (XO (XO (XI
                                                   (XI (XI (XO
                                                   XH)))))))) :: [])
                                               | sec :: l11 ->
                                                 (match l11 with
                                                  | [] ->
                                                    Some ((TI (Zneg (XO (XO
                                                      (XI (XI (XI (XO
                                                      XH)))))))) :: [])
                                                  | qau :: bs' ->
                                                    let d = { h_type = ht;
                                                      h_kind =
                                                      (kind_of k nb); h_tag =
                                                      (Z.eqb tg (Zpos XH));
                                                      h_enc = enc; h_size =
                                                      (if Z.eqb sv (Zpos XH)
                                                       then Some sz
                                                       else None); h_vendor =
                                                      (if Z.eqb vv (Zpos XH)
                                                       then Some (Z.to_N vid)
                                                       else None) }
                                                    in
                                                    let (l12, p) =
                                                      take_attrs
                                                        (Z.to_nat n0) zs' bs'
                                                    in
                                                    let (zs'', bs'') = p in
                                                    let p0 = { code = c;
                                                      ident = (Z.to_N idn);
                                                      auth = au; secret =
                                                      sec; pattrs = l12 }
                                                    in
                                                    let q = { code = (Zpos
                                                      XH); ident =
                                                      (Z.to_N idn); auth =
                                                      qau; secret = sec;
                                                      pattrs = [] }
                                                    in
                                                    Some
                                                    (run_hops d p0 q zs''
                                                      bs''))))))))))))))))
  else None

(** val scribble : heap -> slice0 -> heap **)

let scribble h s =
  fold_left (fun hh i ->
    wr hh s i
      (N.coq_lxor (nth i (rd hh s) N0) (Npos (XI (XO (XI (XO (XO (XI (XO
        XH)))))))))) (seq O s.s_len) h

(** val scribble_val : heap -> mval -> heap **)

let scribble_val h v =
  scribble (scribble h v.v_b) v.v_mask

(** val run_mem :
    bool -> hdesc -> heap -> mpacket -> packet -> mval list -> z list -> tok
    list **)

let rec run_mem legacy d h m q last = function
| [] -> []
| o :: rest ->
  if Z.eqb o Z0
  then let (h', r) = m_lookup md5 legacy d h m q in
       app
         (match r with
          | Ok v -> (TI Z0) :: (t_tv d (val_view h' v))
          | Err e ->
            (TI (Zpos XH)) :: ((TI
              (if N.eqb e e_noattr
               then Zpos (XO (XO (XO (XI (XO XH)))))
               else Zpos (XO (XO (XO XH))))) :: [])
          | _ -> (TI (Zpos (XO XH))) :: [])
         (app (t_attrs (pview h' m).pattrs)
           (run_mem legacy d h' m q (match r with
                                     | Ok v -> v :: []
                                     | _ -> []) rest))
  else if Z.eqb o (Zpos XH)
       then let (h', r) = m_gets md5 legacy d h m q in
            app
              (match r with
               | Ok vs ->
                 (TI Z0) :: ((TI
                   (zlen vs)) :: (flat_map (fun v -> t_tv d (val_view h' v))
                                   vs))
               | Err _ -> (TI (Zpos XH)) :: []
               | _ -> (TI (Zpos (XO XH))) :: [])
              (app (t_attrs (pview h' m).pattrs)
                (run_mem legacy d h' m q (match r with
                                          | Ok vs -> vs
                                          | _ -> []) rest))
       else let h' = fold_left scribble_val last h in
            (TI (Zpos (XI (XO (XO
            XH))))) :: (app (t_attrs (pview h' m).pattrs)
                         (run_mem legacy d h' m q [] rest))

(** val place : bytes list -> z list -> nat -> (z * slice0) list **)

let rec place vals types addr =
  match vals with
  | [] -> []
  | v :: vs ->
    (match types with
     | [] -> []
     | t :: ts ->
       (t, { s_addr = addr; s_off = O; s_len =
         (length v) }) :: (place vs ts (S addr)))

(** val dispatch_mem : bytes -> bytes list -> z list -> tok list option **)

let dispatch_mem name bs zs =
  if (||)
       (name_is name (String ((Ascii (true, false, true, true, false, true,
         true, false)), (String ((Ascii (false, true, true, true, false,
         true, false, false)), (String ((Ascii (true, false, true, true,
         false, true, true, false)), (String ((Ascii (true, false, true,
         false, false, true, true, false)), (String ((Ascii (true, false,
         true, true, false, true, true, false)), EmptyString)))))))))))
       (name_is name (String ((Ascii (true, true, false, false, true, true,
         true, false)), (String ((Ascii (false, true, true, true, false,
         true, false, false)), (String ((Ascii (true, false, true, true,
         false, true, true, false)), (String ((Ascii (true, false, true,
         false, false, true, true, false)), (String ((Ascii (true, false,
         true, true, false, true, true, false)), EmptyString)))))))))))
  then (match zs with
        | [] -> Some ((TI (Zneg (XI (XO (XI (XI (XI (XO XH)))))))) :: [])
        | ht :: l ->
          (match l with
           | [] -> Some ((TI (Zneg (XI (XO (XI (XI (XI (XO XH)))))))) :: [])
           | k :: l0 ->
             (match l0 with
              | [] ->
                Some ((TI (Zneg (XI (XO (XI (XI (XI (XO XH)))))))) :: [])
              | nb :: l1 ->
                (match l1 with
                 | [] ->
                   Some ((TI (Zneg (XI (XO (XI (XI (XI (XO XH)))))))) :: [])
                 | tg :: l2 ->
                   (match l2 with
                    | [] ->
                      Some ((TI (Zneg (XI (XO (XI (XI (XI (XO
                        XH)))))))) :: [])
                    | enc :: l3 ->
                      (match l3 with
                       | [] ->
                         Some ((TI (Zneg (XI (XO (XI (XI (XI (XO
                           XH)))))))) :: [])
                       | sv :: l4 ->
                         (match l4 with
                          | [] ->
                            Some ((TI (Zneg (XI (XO (XI (XI (XI (XO
                              XH)))))))) :: [])
                          | sz :: l5 ->
                            (match l5 with
                             | [] ->
                               Some ((TI (Zneg (XI (XO (XI (XI (XI (XO
                                 XH)))))))) :: [])
                             | vv :: l6 ->
                               (match l6 with
                                | [] ->
                                  Some ((TI (Zneg (XI (XO (XI (XI (XI (XO
                                    XH)))))))) :: [])
                                | vid :: l7 ->
                                  (match l7 with
                                   | [] ->
                                     Some ((TI (Zneg (XI (XO (XI (XI (XI (XO
                                       XH)))))))) :: [])
                                   | lg :: l8 ->
                                     (match l8 with
                                      | [] ->
                                        Some ((TI (Zneg (XI (XO (XI (XI (XI
                                          (XO XH)))))))) :: [])
                                      | c :: l9 ->
                                        (match l9 with
                                         | [] ->
                                           Some ((TI (Zneg (XI (XO (XI (XI
                                             (XI (XO XH)))))))) :: [])
                                         | idn :: l10 ->
                                           (match l10 with
                                            | [] ->
                                              Some ((TI (Zneg (XI (XO (XI (XI
                                                (XI (XO XH)))))))) :: [])
                                            | n0 :: zs' ->
                                              (match bs with
                                               | [] ->
                                                 Some ((TI (Zneg (XI (XO (XI
                                                   (XI (XI (XO
                                                   XH)))))))) :: [])
                                               | au :: l11 ->
                                                 (match l11 with
                                                  | [] ->
                                                    Some ((TI (Zneg (XI (XO
                                                      (XI (XI (XI (XO
                                                      XH)))))))) :: [])
                                                  | sec :: l12 ->
                                                    (match l12 with
                                                     | [] ->
                                                       Some ((TI (Zneg (XI
                                                         (XO (XI (XI (XI (XO
                                                         XH)))))))) :: [])
                                                     | qau :: bs' ->
                                                       let d = { h_type = ht;
                                                         h_kind =
                                                         (kind_of k nb);
                                                         h_tag =
                                                         (Z.eqb tg (Zpos XH));
                                                         h_enc = enc;
                                                         h_size =
                                                         (if Z.eqb sv (Zpos
                                                               XH)
                                                          then Some sz
                                                          else None);
                                                         h_vendor =
                                                         (if Z.eqb vv (Zpos
                                                               XH)
                                                          then Some
                                                                 (Z.to_N vid)
                                                          else None) }
                                                       in
                                                       let nn = Z.to_nat n0 in
                                                       let vals =
                                                         firstn nn bs'
                                                       in
                                                       let types =
                                                         firstn nn zs'
                                                       in
                                                       let h = sec :: vals in
                                                       let m = { mp_code = c;
                                                         mp_ident =
                                                         (Z.to_N idn);
                                                         mp_auth = au;
                                                         mp_secret =
                                                         { s_addr = O;
                                                         s_off = O; s_len =
                                                         (length sec) };
                                                         mp_attrs =
                                                         (place vals types (S
                                                           O)) }
                                                       in
                                                       let q = { code = (Zpos
                                                         XH); ident =
                                                         (Z.to_N idn); auth =
                                                         qau; secret = sec;
                                                         pattrs = [] }
                                                       in
                                                       Some
                                                       (run_mem
                                                         (Z.eqb lg (Zpos XH))
                                                         d h m q []
                                                         (skipn nn zs'))))))))))))))))))
  else None

(** val zopt : z -> z option **)

let zopt z0 =
  if Z.ltb z0 Z0 then None else Some z0

(** val bopt : z -> bool option **)

let bopt z0 =
  if Z.ltb z0 Z0 then None else Some (Z.eqb z0 (Zpos XH))

(** val take_gattrs :
    nat -> z list -> bytes list -> gattr list * (z list * bytes list) **)

let rec take_gattrs n0 zs bs =
  match n0 with
  | O -> ([], (zs, bs))
  | S n' ->
    (match zs with
     | [] -> ([], (zs, bs))
     | ol :: zs1 ->
       (match bs with
        | [] -> ([], (zs, bs))
        | nm :: l ->
          (match l with
           | [] -> ([], (zs, bs))
           | idn :: bs1 ->
             let k = Z.to_nat ol in
             (match skipn k zs1 with
              | [] -> ([], (zs, bs))
              | ty :: l0 ->
                (match l0 with
                 | [] -> ([], (zs, bs))
                 | sz :: l1 ->
                   (match l1 with
                    | [] -> ([], (zs, bs))
                    | en :: l2 ->
                      (match l2 with
                       | [] -> ([], (zs, bs))
                       | tg :: l3 ->
                         (match l3 with
                          | [] -> ([], (zs, bs))
                          | cc :: zs2 ->
                            let (r, rest) = take_gattrs n' zs2 bs1 in
                            (({ ga_name = nm; ga_ident = idn; ga_oid =
                            (firstn k zs1); ga_type = ty; ga_size =
                            (zopt sz); ga_enc = (zopt en); ga_tag =
                            (bopt tg); ga_concat = (bopt cc) } :: r), rest)))))))))

(** val take_gvals :
    nat -> z list -> bytes list -> gvalue list * (z list * bytes list) **)

let rec take_gvals n0 zs bs =
  match n0 with
  | O -> ([], (zs, bs))
  | S n' ->
    (match zs with
     | [] -> ([], (zs, bs))
     | num :: zs1 ->
       (match bs with
        | [] -> ([], (zs, bs))
        | at_ :: l ->
          (match l with
           | [] -> ([], (zs, bs))
           | nm :: l0 ->
             (match l0 with
              | [] -> ([], (zs, bs))
              | idn :: bs1 ->
                let (r, rest) = take_gvals n' zs1 bs1 in
                (({ gl_attr = at_; gl_name = nm; gl_ident = idn; gl_num =
                num } :: r), rest)))))

(** val take_gvendors : nat -> z list -> bytes list -> gvendor list **)

let rec take_gvendors n0 zs bs =
  match n0 with
  | O -> []
  | S n' ->
    (match zs with
     | [] -> []
     | num :: l ->
       (match l with
        | [] -> []
        | tl_ :: l0 ->
          (match l0 with
           | [] -> []
           | ll :: l1 ->
             (match l1 with
              | [] -> []
              | na :: l2 ->
                (match l2 with
                 | [] -> []
                 | nv :: zs1 ->
                   (match bs with
                    | [] -> []
                    | nm :: l3 ->
                      (match l3 with
                       | [] -> []
                       | idn :: bs1 ->
                         let (attrs0, p) = take_gattrs (Z.to_nat na) zs1 bs1
                         in
                         let (zs2, bs2) = p in
                         let (vals, p0) = take_gvals (Z.to_nat nv) zs2 bs2 in
                         let (zs3, bs3) = p0 in
                         { gn_name = nm; gn_ident = idn; gn_num = num;
                         gn_tlen = tl_; gn_llen = ll; gn_attrs = attrs0;
                         gn_vals = vals } :: (take_gvendors n' zs3 bs3))))))))

(** val take_pairs :
    nat -> bytes list -> (bytes * bytes) list * bytes list **)

let rec take_pairs n0 bs =
  match n0 with
  | O -> ([], bs)
  | S n' ->
    (match bs with
     | [] -> ([], bs)
     | a :: l ->
       (match l with
        | [] -> ([], bs)
        | b :: r -> let (ps, rest) = take_pairs n' r in (((a, b) :: ps), rest)))

(** val fcode : fname -> z **)

let fcode = function
| FAdd -> Z0
| FAddString -> Zpos XH
| FGet -> Zpos (XO XH)
| FGetString -> Zpos (XI XH)
| FGets -> Zpos (XO (XO XH))
| FGetStrings -> Zpos (XI (XO XH))
| FLookup -> Zpos (XO (XI XH))
| FLookupString -> Zpos (XI (XI XH))
| FSet -> Zpos (XO (XO (XO XH)))
| FSetString -> Zpos (XI (XO (XO XH)))
| FDel -> Zpos (XO (XI (XO XH)))

(** val vcode : vtype -> z **)

let vcode = function
| VBytes -> Z0
| VString -> Zpos XH
| VIP -> Zpos (XO XH)
| VHW -> Zpos (XI XH)
| VNet -> Zpos (XO (XO XH))
| VTime -> Zpos (XI (XO XH))
| VNamed -> Zpos (XO (XI XH))
| VByte -> Zpos (XI (XI XH))

(** val zb : bool -> z **)

let zb = function
| true -> Zpos XH
| false -> Z0

(** val t_gdecl : gdecl -> tok list **)

let t_gdecl = function
| DTypeConst (i, n0) -> (TI (Zpos XH)) :: ((TB i) :: ((TI n0) :: []))
| DVendorConst (i, n0) -> (TI (Zpos (XO XH))) :: ((TB i) :: ((TI n0) :: []))
| DExtInit (i, vs) ->
  (TI (Zpos (XI XH))) :: ((TI
    (zlen vs)) :: (flat_map (fun v -> (TB i) :: ((TB (fst v)) :: ((TI
                    (snd v)) :: []))) vs))
| DIntType (i, b) -> (TI (Zpos (XO (XO XH)))) :: ((TB i) :: ((TI b) :: []))
| DValueConst (i, v, n0) ->
  (TI (Zpos (XI (XO XH)))) :: ((TB i) :: ((TB v) :: ((TI n0) :: [])))
| DStrings i -> (TI (Zpos (XO (XI XH)))) :: ((TB i) :: [])
| DStringer i -> (TI (Zpos (XI (XI XH)))) :: ((TB i) :: [])
| DFunc (i, f, tg, q, vt) ->
  (match f with
   | FDel ->
     (TI (Zpos (XO (XO (XO XH))))) :: ((TB i) :: ((TI (Zpos (XO (XI (XO
       XH))))) :: ((TI Z0) :: ((TI Z0) :: ((TI Z0) :: [])))))
   | _ ->
     (TI (Zpos (XO (XO (XO XH))))) :: ((TB i) :: ((TI (fcode f)) :: ((TI
       (zb tg)) :: ((TI (zb q)) :: ((TI (vcode vt)) :: []))))))
| DVendorFunc (i, w) ->
  (TI (Zpos (XI (XO (XO XH))))) :: ((TB i) :: ((TI w) :: []))

(** val dispatch_gen : bytes -> bytes list -> z list -> tok list option **)

let dispatch_gen name bs zs =
  if (||)
       (name_is name (String ((Ascii (true, false, true, true, false, true,
         true, false)), (String ((Ascii (false, true, true, true, false,
         true, false, false)), (String ((Ascii (true, true, true, false,
         false, true, true, false)), (String ((Ascii (true, false, true,
         false, false, true, true, false)), (String ((Ascii (false, true,
         true, true, false, true, true, false)), EmptyString)))))))))))
       (name_is name (String ((Ascii (true, true, false, false, true, true,
         true, false)), (String ((Ascii (false, true, true, true, false,
         true, false, false)), (String ((Ascii (true, true, true, false,
         false, true, true, false)), (String ((Ascii (true, false, true,
         false, false, true, true, false)), (String ((Ascii (false, true,
         true, true, false, true, true, false)), EmptyString)))))))))))
  then (match zs with
        | [] -> Some ((TI (Zneg (XO (XI (XI (XI (XI (XO XH)))))))) :: [])
        | ni :: l ->
          (match l with
           | [] -> Some ((TI (Zneg (XO (XI (XI (XI (XI (XO XH)))))))) :: [])
           | ne :: l0 ->
             (match l0 with
              | [] ->
                Some ((TI (Zneg (XO (XI (XI (XI (XI (XO XH)))))))) :: [])
              | na :: l1 ->
                (match l1 with
                 | [] ->
                   Some ((TI (Zneg (XO (XI (XI (XI (XI (XO XH)))))))) :: [])
                 | nv :: l2 ->
                   (match l2 with
                    | [] ->
                      Some ((TI (Zneg (XO (XI (XI (XI (XI (XO
                        XH)))))))) :: [])
                    | nn :: zs0 ->
                      let ign = firstn (Z.to_nat ni) bs in
                      let (ext, bs1) =
                        take_pairs (Z.to_nat ne) (skipn (Z.to_nat ni) bs)
                      in
                      let (attrs0, p) = take_gattrs (Z.to_nat na) zs0 bs1 in
                      let (zs1, bs2) = p in
                      let (vals, p0) = take_gvals (Z.to_nat nv) zs1 bs2 in
                      let (zs2, bs3) = p0 in
                      let vendors = take_gvendors (Z.to_nat nn) zs2 bs3 in
                      (match gen { go_ignore = ign; go_ext = ext }
                               { gd_attrs = attrs0; gd_vals = vals;
                               gd_vendors = vendors } with
                       | Ok ds -> Some ((TI Z0) :: (flat_map t_gdecl ds))
                       | Err e ->
                         Some ((TI (Zneg XH)) :: ((TI (Z.of_N e)) :: []))
                       | _ -> Some ((TI (Zneg (XO XH))) :: [])))))))
  else None

(** val dispatch : bytes -> bytes list -> z list -> tok list **)

let dispatch name bs zs =
  if name_is name (String ((Ascii (true, false, true, true, false, true,
       true, false)), (String ((Ascii (false, true, true, true, false, true,
       false, false)), (String ((Ascii (true, false, false, false, false,
       true, true, false)), (String ((Ascii (false, false, true, false, true,
       true, true, false)), (String ((Ascii (false, false, true, false, true,
       true, true, false)), (String ((Ascii (false, true, false, false, true,
       true, true, false)), (String ((Ascii (true, true, false, false, true,
       true, true, false)), (String ((Ascii (true, true, true, true, true,
       false, true, false)), (String ((Ascii (false, true, false, false,
       true, true, true, false)), (String ((Ascii (true, false, true, false,
       true, true, true, false)), (String ((Ascii (false, true, true, true,
       false, true, true, false)), EmptyString))))))))))))))))))))))
  then run_attrs false bs zs
  else if name_is name (String ((Ascii (true, true, false, false, true, true,
            true, false)), (String ((Ascii (false, true, true, true, false,
            true, false, false)), (String ((Ascii (true, false, false, false,
            false, true, true, false)), (String ((Ascii (false, false, true,
            false, true, true, true, false)), (String ((Ascii (false, false,
            true, false, true, true, true, false)), (String ((Ascii (false,
            true, false, false, true, true, true, false)), (String ((Ascii
            (true, true, false, false, true, true, true, false)), (String
            ((Ascii (true, true, true, true, true, false, true, false)),
            (String ((Ascii (false, true, false, false, true, true, true,
            false)), (String ((Ascii (true, false, true, false, true, true,
            true, false)), (String ((Ascii (false, true, true, true, false,
            true, true, false)), EmptyString))))))))))))))))))))))
       then run_attrs true bs zs
       else if name_is name (String ((Ascii (true, false, true, true, false,
                 true, true, false)), (String ((Ascii (false, false, true,
                 false, false, true, true, false)), (String ((Ascii (true,
                 false, true, false, true, true, false, false)),
                 EmptyString))))))
            then (match bs with
                  | [] -> []
                  | b :: _ -> (TB (md5 b)) :: [])
            else (match dispatch_c01 name bs zs with
                  | Some t -> t
                  | None ->
                    (match dispatch_pw name bs zs with
                     | Some t -> t
                     | None ->
                       (match dispatch_codec name bs zs with
                        | Some t -> t
                        | None ->
                          (match dispatch_client name bs zs with
                           | Some t -> t
                           | None ->
                             (match dispatch_sched name bs zs with
                              | Some t -> t
                              | None ->
                                (match dispatch_c06 name bs zs with
                                 | Some t -> t
                                 | None ->
                                   (match dispatch_c08 name bs zs with
                                    | Some t -> t
                                    | None ->
                                      (match dispatch_dict name bs zs with
                                       | Some t -> t
                                       | None ->
                                         (match dispatch_merge name bs zs with
                                          | Some t -> t
                                          | None ->
                                            (match dispatch_mschap name bs zs with
                                             | Some t -> t
                                             | None ->
                                               (match dispatch_helper name bs
                                                        zs with
                                                | Some t -> t
                                                | None ->
                                                  (match dispatch_mem name bs
                                                           zs with
                                                   | Some t -> t
                                                   | None ->
                                                     (match dispatch_gen name
                                                              bs zs with
                                                      | Some t -> t
                                                      | None ->
                                                        (TI (Zneg (XI (XO (XO
                                                          (XO (XO (XI
                                                          XH)))))))) :: [])))))))))))))
